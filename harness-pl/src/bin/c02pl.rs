//! C02 on the Polars backend (thorough tier only; crate `harness-pl`): the recording callback of harness/src/bin/c02.rs
//! through all rolling drivers with a Polars `Float64Chunked` input (1, 2 and 3 chunks, by value and by reference, nulls
//! where the series has NaN), second series a Vec or a Polars array, x {returned, caller buffer}.  Polars does not
//! override any driver: the returned path is the iterator body, the caller-buffer path the index body of view.rs; the
//! elements are `Option<f64>` (model terms: the `eo` encoder of Run/RunC02.v, as for the option view).
//! Exhaustive over len 0..=N, w 1..=len+3.  The macros are those of c02.rs (second element type made a parameter).
use std::cell::RefCell;
use std::mem::MaybeUninit;

use tevec::export::arrow::array::PrimitiveArray;
use tevec::export::arrow::bitmap::Bitmap;
use tevec::export::arrow::datatypes::ArrowDataType;
use tevec::export::polars::prelude::Float64Chunked;
use tevec::prelude::{TIter, UninitVec, Vec1, Vec1View};
use vh::*;

const SENT: i64 = i64::MIN + 12345;

fn series(len: usize, salt: u64) -> Vec<f64> {
    // distinct-ish small values with a NaN sprinkled in (the drivers must pass them through untouched)
    let mut r = Rng::new(salt * 7919 + len as u64);
    (0..len)
        .map(|i| if r.chance(1, 6) { f64::NAN } else { (10 * (i as i64 + 1) + r.range(0, 3)) as f64 / 2.0 })
        .collect()
}

fn masked_rm(w: usize, len: usize, i: usize, c: Cell) -> Cell {
    if len < w && i + 1 == len { Cell::Int(-999) } else { c }
}

fn optf(v: Option<f64>) -> Cell {
    match v {
        Some(x) => Cell::F(x),
        None => Cell::Null,
    }
}
fn optu(v: Option<usize>) -> Cell {
    match v {
        Some(x) => Cell::Int(x as i128),
        None => Cell::Null,
    }
}

/// turn the raw output (call counters, SENT where nothing was written) + trace into cells
fn assemble(out: Result<Vec<i64>, u8>, trace: &RefCell<Vec<Vec<Cell>>>) -> Vec<Cell> {
    match out {
        Err(k) => vec![Cell::Panic(k)],
        Ok(o) => {
            let tr = trace.borrow();
            let mut cells = vec![];
            let nwritten = o.iter().filter(|v| **v != SENT).count();
            for v in o {
                if v == SENT {
                    cells.push(Cell::Uninit)
                } else {
                    cells.push(Cell::Int(v as i128));
                    match <[Vec<Cell>]>::get(&tr, v as usize) {
                        Some(t) => cells.extend(t.iter().cloned()),
                        None => cells.push(Cell::Err),
                    }
                }
            }
            if tr.len() != nwritten {
                // the callback ran more (or fewer) times than results were stored
                cells.push(Cell::Err)
            }
            cells
        }
    }
}

fn sent_buf(len: usize) -> Vec<MaybeUninit<i64>> {
    (0..len).map(|_| MaybeUninit::new(SENT)).collect()
}

macro_rules! run_kind {
    // $view: expression of a Vec1View<f64>; $elt: conversion of the element to Cell
    ($kind:expr, $buf:expr, $w:expr, $len:expr, $view:expr, $view2:expr, $elt:expr, $t2:ty, $elt2:expr) => {{
        let elt2 = $elt2;
        let trace: RefCell<Vec<Vec<Cell>>> = RefCell::new(vec![]);
        let w: usize = $w;
        let len: usize = $len;
        let elt = $elt;
        let res = guarded(std::panic::AssertUnwindSafe(|| -> Vec<i64> {
            let v = $view;
            let v2 = $view2;
            match $kind {
                "apply" => {
                    let f = |rm, x| {
                        let mut t = trace.borrow_mut();
                        let k = t.len();
                        t.push(vec![masked_rm(w, len, k, match rm { Some(r) => elt(r), None => Cell::Null }), elt(x)]);
                        k as i64
                    };
                    if $buf {
                        let mut u = sent_buf(len);
                        v.rolling_apply::<Vec<i64>, _, _>(w, f, Some(Vec::<i64>::uninit_ref_mut(&mut u)));
                        unsafe { u.assume_init() }
                    } else {
                        v.rolling_apply::<Vec<i64>, _, _>(w, f, None).unwrap()
                    }
                }
                "apply_idx" => {
                    let f = |st: Option<usize>, e: usize, x| {
                        let mut t = trace.borrow_mut();
                        let k = t.len();
                        t.push(vec![masked_rm(w, len, k, optu(st)), Cell::Int(e as i128), elt(x)]);
                        k as i64
                    };
                    if $buf {
                        let mut u = sent_buf(len);
                        v.rolling_apply_idx::<Vec<i64>, _, _>(w, f, Some(Vec::<i64>::uninit_ref_mut(&mut u)));
                        unsafe { u.assume_init() }
                    } else {
                        v.rolling_apply_idx::<Vec<i64>, _, _>(w, f, None).unwrap()
                    }
                }
                "apply2" => {
                    let f = |rm: Option<(_, $t2)>, x: (_, $t2)| {
                        let mut t = trace.borrow_mut();
                        let k = t.len();
                        let (r1, r2) = match rm { Some((a, b)) => (elt(a), elt2(b)), None => (Cell::Null, Cell::Null) };
                        t.push(vec![masked_rm(w, len, k, r1), masked_rm(w, len, k, r2), elt(x.0), elt2(x.1)]);
                        k as i64
                    };
                    if $buf {
                        let mut u = sent_buf(len);
                        v.rolling2_apply::<Vec<i64>, _, _, _, _>(&v2, w, f, Some(Vec::<i64>::uninit_ref_mut(&mut u)));
                        unsafe { u.assume_init() }
                    } else {
                        v.rolling2_apply::<Vec<i64>, _, _, _, _>(&v2, w, f, None).unwrap()
                    }
                }
                "apply2_idx" => {
                    let f = |st: Option<usize>, e: usize, x: (_, $t2)| {
                        let mut t = trace.borrow_mut();
                        let k = t.len();
                        t.push(vec![masked_rm(w, len, k, optu(st)), Cell::Int(e as i128), elt(x.0), elt2(x.1)]);
                        k as i64
                    };
                    if $buf {
                        let mut u = sent_buf(len);
                        v.rolling2_apply_idx::<Vec<i64>, _, _, _, _>(&v2, w, f, Some(Vec::<i64>::uninit_ref_mut(&mut u)));
                        unsafe { u.assume_init() }
                    } else {
                        v.rolling2_apply_idx::<Vec<i64>, _, _, _, _>(&v2, w, f, None).unwrap()
                    }
                }
                _ => unreachable!(),
            }
        }));
        assemble(res, &trace)
    }};
}

/// slice forms need the backend's own slice type; `$it` turns a slice output into Vec<Cell>
macro_rules! run_custom {
    ($kind:expr, $buf:expr, $w:expr, $len:expr, $view:expr, $view2:expr, $t1:ty, $it:expr, $it2:expr) => {{
        let trace: RefCell<Vec<Vec<Cell>>> = RefCell::new(vec![]);
        let w: usize = $w;
        let len: usize = $len;
        let res = guarded(std::panic::AssertUnwindSafe(|| -> Vec<i64> {
            let v = $view;
            let v2 = $view2;
            let it = $it;
            let it2 = $it2;
            match $kind {
                "custom" => {
                    let f = |sl: $t1| {
                        let mut t = trace.borrow_mut();
                        let k = t.len();
                        let mut c: Vec<Cell> = it(sl);
                        c.push(Cell::Sep);
                        t.push(c);
                        k as i64
                    };
                    if $buf {
                        let mut u = sent_buf(len);
                        v.rolling_custom::<Vec<i64>, _, _>(w, f, Some(Vec::<i64>::uninit_ref_mut(&mut u)));
                        unsafe { u.assume_init() }
                    } else {
                        v.rolling_custom::<Vec<i64>, _, _>(w, f, None).unwrap()
                    }
                }
                "custom_to" => {
                    let f = |sl: $t1| {
                        let mut t = trace.borrow_mut();
                        let k = t.len();
                        let mut c: Vec<Cell> = it(sl);
                        c.push(Cell::Sep);
                        t.push(c);
                        k as i64
                    };
                    let mut u = sent_buf(len);
                    v.rolling_custom_to::<Vec<i64>, _, _>(w, f, Vec::<i64>::uninit_ref_mut(&mut u));
                    unsafe { u.assume_init() }
                }
                "custom_iter" => {
                    let f = |sl: $t1| {
                        let mut t = trace.borrow_mut();
                        let k = t.len();
                        let mut c: Vec<Cell> = it(sl);
                        c.push(Cell::Sep);
                        t.push(c);
                        k as i64
                    };
                    // plain safe iteration of the lazy iterator
                    let mut o = vec![];
                    for x in v.rolling_custom_iter(w, f) {
                        o.push(x)
                    }
                    o
                }
                "custom2" => {
                    let f = |sl: $t1, sl2: &[f64]| {
                        let mut t = trace.borrow_mut();
                        let k = t.len();
                        let mut c: Vec<Cell> = it(sl);
                        c.push(Cell::Sep);
                        c.extend(it2(sl2));
                        c.push(Cell::Sep);
                        t.push(c);
                        k as i64
                    };
                    if $buf {
                        let mut u = sent_buf(len);
                        v.rolling2_custom::<Vec<i64>, _, _, _, _>(&v2, w, f, Some(Vec::<i64>::uninit_ref_mut(&mut u)));
                        unsafe { u.assume_init() }
                    } else {
                        v.rolling2_custom::<Vec<i64>, _, _, _, _>(&v2, w, f, None).unwrap()
                    }
                }
                _ => unreachable!(),
            }
        }));
        assemble(res, &trace)
    }};
}

/// a Polars array of `k` chunks holding `xs` (NaN = null slot, a poison value underneath), cut at len/k steps
fn pl(xs: &[f64], k: usize) -> Float64Chunked {
    let n = xs.len();
    let mut cuts = vec![0usize];
    for j in 1..k { cuts.push(n * j / k) }
    cuts.push(n);
    Float64Chunked::from_chunk_iter("".into(), cuts.windows(2).map(|c| {
        let part = &xs[c[0]..c[1]];
        let vals: Vec<f64> = part.iter().map(|x| if x.is_nan() { 777.25 } else { *x }).collect();
        let valid: Vec<bool> = part.iter().map(|x| !x.is_nan()).collect();
        let validity = if valid.contains(&false) { Some(Bitmap::from(valid)) } else { None };
        PrimitiveArray::new(ArrowDataType::Float64, vals.into(), validity)
    }))
}

fn main() {
    let mut em = Emitter::new();
    let maxlen = if em.thorough() { 12 } else { 6 };
    let fcell = |x: f64| Cell::F(x);
    let ocell = |x: Option<f64>| optf(x);
    let sl_vec2 = |s: &[f64]| cells_f64(s);
    let sl_pl = |s: Float64Chunked| s.titer().map(optf).collect::<Vec<Cell>>();
    let opt_coq = |v: &Vec<f64>| coq_list(v, |x| if x.is_nan() { "None".into() } else { format!("(Some {})", coq_f64(*x)) });
    for len in 0..=maxlen {
        let xs = series(len, 1);
        let ys = series(len, 2);
        let ys_coq = coq_list(&ys, |x| coq_f64(*x));
        let (xo_coq, yo_coq) = (opt_coq(&xs), opt_coq(&ys));
        for w in 1..=len + 3 {
            for kind in ["apply", "apply_idx", "apply2", "apply2_idx"] {
                for buf in [false, true] {
                    let two = kind.contains('2');
                    // default trait methods: iterator body when returned, index body into the caller's buffer
                    let term = |other_pl: bool| match kind {
                        "apply" => format!("(run_apply eo {} {} {})", coq_bool(buf), coq_nat(w), xo_coq),
                        "apply_idx" => format!("(run_apply_idx eo {} {} {})", coq_bool(buf), coq_nat(w), xo_coq),
                        "apply2" => format!("(run_apply2 eo {} {} {} {} {})", if other_pl { "eo" } else { "ef" }, coq_bool(buf), coq_nat(w), xo_coq, if other_pl { &yo_coq } else { &ys_coq }),
                        _ => format!("(run_apply2_idx eo {} {} {} {} {})", if other_pl { "eo" } else { "ef" }, coq_bool(buf), coq_nat(w), xo_coq, if other_pl { &yo_coq } else { &ys_coq }),
                    };
                    let desc = |be: &str| format!("kind={} be={} buf={} w={} len={} xs={:?} ys={:?}", kind, be, buf, w, len, xs, ys);
                    let tags = |be: &str| format!("kind={} be={} buf={} len={} wrel={}", kind, be, buf, len,
                        if w > len { "gt" } else if w == len { "eq" } else { "lt" });
                    for k in 1..=3usize {
                        let be = format!("pl{}", k);
                        em.case("exact", &tags(&be), &desc(&be), || term(false),
                            || run_kind!(kind, buf, w, len, pl(&xs, k), ys.clone(), ocell, f64, fcell));
                        if two {
                            // the second series a Polars array with a different chunking
                            let be = format!("pl{}/other=pl{}", k, 4 - k);
                            em.case("exact", &tags(&be), &desc(&be), || term(true),
                                || run_kind!(kind, buf, w, len, pl(&xs, k), pl(&ys, 4 - k), ocell, Option<f64>, ocell));
                        }
                    }
                    em.case("exact", &tags("plref2"), &desc("plref2"), || term(false),
                        || { let a = pl(&xs, 2); let r: &Float64Chunked = &a; run_kind!(kind, buf, w, len, r, ys.clone(), ocell, f64, fcell) });
                }
            }
            // slice forms: the windows are Polars slices (`ChunkedArray::slice`, possibly spanning chunk boundaries)
            for (kind, buf) in [("custom", false), ("custom", true), ("custom_to", true), ("custom_iter", false),
                                ("custom2", false), ("custom2", true)] {
                let two = kind == "custom2";
                // default rolling_custom = iterator body on both paths; rolling_custom_to = index body
                let body = kind == "custom_to";
                let term = || if two { format!("(run_custom2 eo ef {} {} {})", coq_nat(w), xo_coq, ys_coq) }
                              else { format!("(run_custom eo {} {} {})", coq_bool(body), coq_nat(w), xo_coq) };
                let desc = |be: &str| format!("kind={} be={} buf={} w={} len={} xs={:?} ys={:?}", kind, be, buf, w, len, xs, ys);
                let tags = |be: &str| format!("kind={} be={} buf={} len={} wrel={}", kind, be, buf, len,
                    if w > len { "gt" } else if w == len { "eq" } else { "lt" });
                for k in 1..=3usize {
                    let be = format!("pl{}", k);
                    em.case("exact", &tags(&be), &desc(&be), term,
                        || run_custom!(kind, buf, w, len, pl(&xs, k), ys.clone(), Float64Chunked, sl_pl, sl_vec2));
                }
            }
        }
    }
    em.finish();
}
