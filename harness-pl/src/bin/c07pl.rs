fn main() {}
