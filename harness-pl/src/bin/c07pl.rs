//! C07 on the Polars backend (thorough tier only; crate `harness-pl`, tevec built with feature `polars`):
//! (a) accessor coherence of `ChunkedArray<T>` / `&ChunkedArray<T>` (tea-core/src/backends_impl/polars.rs) against the
//!     `chunked` container model (coq/Model/Containers.v, interpreter `run_chunked` of coq/Run/RunC07.v): arrays of
//!     1..3 chunks with validity bitmaps — every chunk-boundary position, empty chunks, all-null chunks, chunks
//!     without a bitmap, chunks whose bitmap has a bit offset (produced by slicing), arrays grown by `append`;
//!     the chunk layout the model is given is READ BACK from the array (downcast_iter), as for VecDeque / ndarray;
//! (b) the matrix with a Polars input and / or a Polars output: every combination must equal the Vec -> Vec reference
//!     bit for bit (same comparator as c07.rs, `custom:same2`), including the caller-buffer path into a Polars staging
//!     buffer (which panicked with `unimplemented!` before the repair of polars.rs, as did Vec / ndarray -> Polars).
use std::collections::VecDeque;
use std::mem::MaybeUninit;

use tevec::export::arrow::array::{BooleanArray, PrimitiveArray};
use tevec::export::arrow::bitmap::Bitmap;
use tevec::export::arrow::datatypes::ArrowDataType;
use tevec::export::ndarray::{Array1, ArrayView1, s};
use tevec::export::polars::prelude::{
    BooleanChunked, ChunkFullNull, Float32Chunked, Float64Chunked, Int32Chunked, Int64Chunked, StringChunked,
};
use tevec::prelude::*;
use vh::{Cell, Emitter, Rng, NULL_PATTERNS, null_mask, guarded, coq_f64, coq_list, coq_opt, cells_f64};

/// observation of a Vec1View-like container: the cell layout of `observe!` in harness/src/bin/c07.rs
macro_rules! observe {
    ($v:expr, $cell:expr, $sl:expr, $tas:expr) => {{
        let v = $v;
        let cell = $cell;
        let len = GetLen::len(v);
        let mut c = vec![Cell::Int(len as i128)];
        for i in 0..=len {
            match Vec1View::get(v, i) {
                Ok(x) => c.push(cell(x)),
                Err(_) => c.push(Cell::Err),
            }
        }
        c.push(Cell::Sep);
        for x in v.titer() { c.push(cell(x)) }
        c.push(Cell::Sep);
        for x in v.titer().rev() { c.push(cell(x)) }
        c.push(Cell::Sep);
        for a in 0..=len {
            for b in a..=len {
                match Vec1View::slice(v, a, b) {
                    Ok(s) => { let sl = $sl; for x in sl(s) { c.push(cell(x)) } }
                    Err(_) => c.push(Cell::Err),
                }
                c.push(Cell::Sep);
            }
        }
        let tas = $tas;
        match tas(v) {
            Some(s) => { c.push(Cell::Int(1)); for x in s { c.push(cell(x)) } }
            None => c.push(Cell::Null),
        }
        c
    }};
}

/// the hand-written string-array impl (`impl Vec1View<Option<&str>> for &ChunkedArray<StringType>`, polars.rs): same observation
/// layout as `observe!` (len, get 0..=len, titer, reversed titer, every slice a..b incl. a == b, no slice view); the strings are
/// decimal numerals so that the cells are those of the numeric arrays.  A mutation campaign found this impl exercised by nothing
/// (`end < start` -> `<=` in its `slice` survived).
fn observe_str(ca: &StringChunked) -> Vec<Cell> {
    let cell = |x: Option<&str>| match x { Some(t) => Cell::F(t.parse::<f64>().unwrap()), None => Cell::Null };
    let v = &ca;
    let len = ca.len();
    let mut c = vec![Cell::Int(len as i128)];
    for i in 0..=len {
        match Vec1View::get(v, i) {
            Ok(x) => c.push(cell(x)),
            Err(_) => c.push(Cell::Err),
        }
    }
    c.push(Cell::Sep);
    for x in v.titer() { c.push(cell(x)) }
    c.push(Cell::Sep);
    let fw: Vec<Option<&str>> = v.titer().collect();
    for x in fw.iter().rev() { c.push(cell(*x)) }
    c.push(Cell::Sep);
    for a in 0..=len {
        for b in a..=len {
            match Vec1View::slice(v, a, b) {
                Ok(sl) => { let r = &sl; for x in r.titer() { c.push(cell(x)) } }
                Err(_) => c.push(Cell::Err),
            }
            c.push(Cell::Sep);
        }
    }
    c.push(Cell::Null);
    c
}

fn ocell(x: Option<f64>) -> Cell { match x { Some(v) => Cell::F(v), None => Cell::Null } }

/// how the validity of one chunk is stored
#[derive(Clone, Copy, Debug, PartialEq)]
enum Bm { Absent, Present }

/// one f64 chunk: values (a poison value under every null slot: a glue that forgets the bitmap exposes it), validity
fn f64_chunk(c: &[Option<f64>], bm: Bm) -> PrimitiveArray<f64> {
    let vals: Vec<f64> = c.iter().map(|x| x.unwrap_or(777.25)).collect();
    let valid: Vec<bool> = c.iter().map(|x| x.is_some()).collect();
    let validity = if !valid.contains(&false) && bm == Bm::Absent { None } else { Some(Bitmap::from(valid)) };
    PrimitiveArray::new(ArrowDataType::Float64, vals.into(), validity)
}

fn f64_ca(chunks: &[Vec<Option<f64>>], bm: Bm) -> Float64Chunked {
    Float64Chunked::from_chunk_iter("".into(), chunks.iter().map(|c| f64_chunk(c, bm)))
}

/// the layout as the array itself reports it (arrow's own per-chunk iterator, not tevec's glue)
fn layout_f64(ca: &Float64Chunked) -> Vec<Vec<Option<f64>>> {
    ca.downcast_iter().map(|a| a.iter().map(|o| o.copied()).collect()).collect()
}

fn coq_chunks(l: &[Vec<Option<f64>>]) -> String {
    coq_list(l, |c| coq_list(c, |x| coq_opt(x, |v| coq_f64(*v))))
}

fn access_tags(be: &str, how: &str, l: &[Vec<Option<f64>>]) -> String {
    let (mut len, mut nulls, mut empty_chunk, mut allnull_chunk) = (0usize, 0usize, false, false);
    for c in l {
        let n = c.iter().filter(|x| x.is_none()).fold(0usize, |a, _| a + 1);
        len += c.len();
        nulls += n;
        if c.is_empty() && l.len() > 1 { empty_chunk = true }
        if !c.is_empty() && n == c.len() { allnull_chunk = true }
    }
    format!("part=access be={} how={} len={} chunks={} nulls={} emptychunk={} allnullchunk={}{}", be, how, len, l.len(),
        if nulls == 0 { "none" } else if nulls == len { "all" } else { "some" }, empty_chunk, allnull_chunk,
        if len == 0 { " nt=0" } else { "" })
}

/// both impls of the glue: `ChunkedArray<T>` and `&ChunkedArray<T>`
fn observe_f64(em: &mut Emitter, how: &str, ca: &Float64Chunked) {
    let l = layout_f64(ca);
    let term = format!("(run_chunked {})", coq_chunks(&l));
    em.case("exact", &access_tags("pl_f64", how, &l), &format!("access be=pl_f64 how={} chunks={:?}", how, l), || term.clone(),
        || observe!(ca, ocell, |s: Float64Chunked| s.titer().collect::<Vec<Option<f64>>>(),
                    |v: &Float64Chunked| v.try_as_slice().map(|s| s.to_vec())));
    em.case("exact", &access_tags("plref_f64", how, &l), &format!("access be=plref_f64 how={} chunks={:?}", how, l), || term.clone(),
        || { let r: &Float64Chunked = ca;
             observe!(&r, ocell, |s: Float64Chunked| s.titer().collect::<Vec<Option<f64>>>(),
                      |v: &&Float64Chunked| v.try_as_slice().map(|s| s.to_vec())) });
}

/// the other element types of impl_for_ca!: values are small integers, rendered for the model as floats
/// (the exact comparator identifies the integer 3 with the float 3.0)
macro_rules! observe_prim {
    ($em:expr, $be:expr, $CA:ty, $nat:ty, $adt:expr, $chunks:expr) => {{
        let chunks: &Vec<Vec<Option<i64>>> = $chunks;
        let ca: $CA = <$CA>::from_chunk_iter("".into(), chunks.iter().map(|c| {
            let vals: Vec<$nat> = c.iter().map(|x| x.unwrap_or(99) as $nat).collect();
            let valid: Vec<bool> = c.iter().map(|x| x.is_some()).collect();
            let validity = if !valid.contains(&false) { None } else { Some(Bitmap::from(valid)) };
            PrimitiveArray::<$nat>::new($adt, vals.into(), validity)
        }));
        let l: Vec<Vec<Option<f64>>> = ca.downcast_iter().map(|a| a.iter().map(|o| o.map(|v| *v as f64)).collect()).collect();
        let term = format!("(run_chunked {})", coq_chunks(&l));
        let cell = |x: Option<$nat>| match x { Some(v) => Cell::F(v as f64), None => Cell::Null };
        $em.case("exact", &access_tags($be, "chunks", &l), &format!("access be={} chunks={:?}", $be, l), || term.clone(),
            || observe!(&ca, cell, |s: $CA| s.titer().collect::<Vec<Option<$nat>>>(),
                        |v: &$CA| v.try_as_slice().map(|s| s.to_vec())));
    }};
}

/// a composition of `len` into `k` parts (parts may be empty)
fn random_cuts(rng: &mut Rng, len: usize, k: usize) -> Vec<usize> {
    let mut cuts: Vec<usize> = (0..k - 1).map(|_| rng.below(len + 1)).collect();
    cuts.sort();
    let mut parts = vec![];
    let mut prev = 0;
    for c in cuts { parts.push(c - prev); prev = c }
    parts.push(len - prev);
    parts
}

fn split<T: Clone>(xs: &[T], parts: &[usize]) -> Vec<Vec<T>> {
    let mut out = vec![];
    let mut p = 0;
    for n in parts { out.push(xs[p..p + n].to_vec()); p += n }
    out
}

fn opt_series(rng: &mut Rng, len: usize) -> Vec<Option<f64>> {
    let pat = *rng.pick(&NULL_PATTERNS);
    let m = null_mask(rng, pat, len);
    (0..len).map(|i| if m[i] { None } else { Some(rng.range(-12, 12) as f64 / 4.0) }).collect()
}

// ------------------------------------------------------------------------------------------------
// (b) the matrix
fn mseries(rng: &mut Rng, len: usize) -> Vec<f64> {
    let style = rng.below(10);
    (0..len).map(|i| {
        let null = match style { 0..=3 => false, 4..=7 => rng.chance(1, 7), 8 => i < len / 4, _ => i % 3 == 1 };
        if null { vh::nan_at(i) } else { rng.range(-40, 40) as f64 / 4.0 }
    }).collect()
}

/// NaN (the null of a float Vec) becomes a null slot of the Polars array
fn to_opts(xs: &[f64]) -> Vec<Option<f64>> { xs.iter().map(|x| if x.is_nan() { None } else { Some(*x) }).collect() }

macro_rules! out_to_cells {
    (vec, $e:expr) => {{ let o: Vec<f64> = $e; cells_f64(&o) }};
    (deque, $e:expr) => {{ let o: VecDeque<f64> = $e; cells_f64(&o.into_iter().collect::<Vec<_>>()) }};
    (nd, $e:expr) => {{ let o: Array1<f64> = $e; cells_f64(&o.to_vec()) }};
    (optvec, $e:expr) => {{ let o: Vec<Option<f64>> = $e; o.into_iter().map(ocell).collect::<Vec<Cell>>() }};
    // read the Polars result chunk by chunk with arrow's own iterator (not through the glue under test)
    (pl, $e:expr) => {{ let o: Float64Chunked = $e;
        o.downcast_iter().flat_map(|a| a.iter().map(|x| ocell(x.copied())).collect::<Vec<Cell>>()).collect::<Vec<Cell>>() }};
}

macro_rules! ret_case {
    ($em:expr, $tags:expr, $desc:expr, $refc:expr, $out:ident, $v:expr, $f:ident, ($($a:expr),*)) => {{
        let refc: &Vec<Cell> = &$refc;
        let mk = |got: Vec<Cell>| { let mut c = got; c.push(Cell::Sep); c.extend(refc.iter().cloned()); c };
        let t = format!("{} out={} path=ret", $tags, stringify!($out));
        let d = format!("{} out={} path=ret", $desc, stringify!($out));
        $em.case("custom:same2", &t, &d, || "(@nil Z)".into(),
            || match guarded(std::panic::AssertUnwindSafe(|| out_to_cells!($out, $v.$f($($a),*)))) { Ok(c) => mk(c), Err(k) => mk(vec![Cell::Panic(k)]) });
    }};
}

/// every output container (returned path) and the caller-buffer path into a Vec and into a Polars staging buffer,
/// for one input view
macro_rules! all_outputs {
    ($em:expr, $tags:expr, $desc:expr, $refc:expr, $v:expr, $f:ident, $fto:ident, ($($a:expr),*)) => {{
        ret_case!($em, $tags, $desc, $refc, vec, $v, $f, ($($a),*));
        ret_case!($em, $tags, $desc, $refc, pl, $v, $f, ($($a),*));
        ret_case!($em, $tags, $desc, $refc, optvec, $v, $f, ($($a),*));
        ret_case!($em, $tags, $desc, $refc, deque, $v, $f, ($($a),*));
        ret_case!($em, $tags, $desc, $refc, nd, $v, $f, ($($a),*));
        let refc: &Vec<Cell> = &$refc;
        let mk = |got: Vec<Cell>| { let mut c = got; c.push(Cell::Sep); c.extend(refc.iter().cloned()); c };
        $em.case("custom:same2", &format!("{} out=vec path=to", $tags), &format!("{} out=vec path=to", $desc), || "(@nil Z)".into(),
            || match guarded(std::panic::AssertUnwindSafe(|| {
                let len = GetLen::len(&$v);
                let mut u: Vec<MaybeUninit<f64>> = (0..len).map(|_| MaybeUninit::new(-7.77e77)).collect();
                { let b = Some(Vec::<f64>::uninit_ref_mut(&mut u)); let _: Option<Vec<f64>> = $v.$fto($($a,)* b); }
                let o: Vec<f64> = u.into_iter().map(|x| unsafe { x.assume_init() }).collect();
                o.iter().map(|x| if *x == -7.77e77 { Cell::Uninit } else { Cell::F(*x) }).collect::<Vec<_>>()
            })) { Ok(c) => mk(c), Err(k) => mk(vec![Cell::Panic(k)]) });
        // the caller-buffer path into a Polars staging buffer (`<Float64Chunked as Vec1>::uninit`, written by `uset`,
        // turned into the array by `assume_init`); before the repair of polars.rs `uset` was `unimplemented!` and so
        // was every fast path (Vec / ndarray input, returned path) that stages its result through `O::uninit`
        $em.case("custom:same2", &format!("{} out=pl path=to", $tags), &format!("{} out=pl path=to", $desc), || "(@nil Z)".into(),
            || match guarded(std::panic::AssertUnwindSafe(|| {
                let len = GetLen::len(&$v);
                let mut u = <Float64Chunked as Vec1<Option<f64>>>::uninit(len);
                { let b = Some(<Float64Chunked as Vec1<Option<f64>>>::uninit_ref_mut(&mut u)); let _: Option<Float64Chunked> = $v.$fto($($a,)* b); }
                out_to_cells!(pl, unsafe { u.assume_init() })
            })) { Ok(c) => mk(c), Err(k) => mk(vec![Cell::Panic(k)]) });
    }};
}

/// Polars inputs (several chunkings, owned and by reference) for the series `$xs`, plus the classic backends with a
/// Polars output
macro_rules! all_inputs {
    ($em:expr, $rng:expr, $fname:expr, $desc:expr, $xs:expr, $f:ident, $fto:ident, ($($a:expr),*), ref ($($ra:expr),*)) => {{
        let xs: &Vec<f64> = $xs;
        let len = xs.len();
        let refc: Vec<Cell> = match guarded(std::panic::AssertUnwindSafe(|| { let o: Vec<f64> = xs.$f($($ra),*); cells_f64(&o) })) {
            Ok(c) => c, Err(k) => vec![Cell::Panic(k)] };
        let nvalid = xs.iter().filter(|x| !x.is_nan()).count();
        let tg = |be: &str| format!("part=matrix fn={} in={} len={} valid={}{}", $fname, be, len.min(20), if nvalid == 0 { "none" } else if nvalid == len { "all" } else { "some" }, if len == 0 { " nt=0" } else { "" });
        let ds = |be: &str| format!("fn={} in={} {}", $fname, be, $desc);
        let xo = to_opts(xs);
        for k in 1..=3usize {
            let parts = random_cuts(&mut $rng, len, k);
            let ca = f64_ca(&split(&xo, &parts), if $rng.chance(1, 2) { Bm::Absent } else { Bm::Present });
            assert_eq!(ca.len(), len);
            let be = format!("pl{}", k);
            all_outputs!($em, tg(&be), ds(&format!("pl chunks={:?}", parts)), refc, ca, $f, $fto, ($($a),*));
            if k == 2 { let r: &Float64Chunked = &ca; all_outputs!($em, tg("plref2"), ds(&format!("plref chunks={:?}", parts)), refc, r, $f, $fto, ($($a),*)); }
        }
        // a window of a longer array (bitmap offsets, first and last chunk cut)
        {
            let mut big: Vec<Option<f64>> = vec![Some(-9.5), None, Some(8.25)];
            big.extend(xo.iter().cloned());
            big.extend([None, Some(3.5)]);
            let parts = random_cuts(&mut $rng, big.len(), 3);
            let ca = f64_ca(&split(&big, &parts), Bm::Present).slice(3, len);
            assert_eq!(ca.len(), len);
            all_outputs!($em, tg("plsliced"), ds(&format!("pl sliced(3,{}) of chunks={:?}", len, parts)), refc, ca, $f, $fto, ($($a),*));
        }
        // the classic backends with a Polars output
        ret_case!($em, tg("vec"), ds("vec"), refc, pl, xs, $f, ($($a),*));
        { let mut d: VecDeque<f64> = VecDeque::with_capacity(len.max(1));
          for _ in 0..(len / 2 + 1) { d.push_back(0.0) } for _ in 0..(len / 2 + 1) { d.pop_front(); }
          for x in xs.iter() { d.push_back(*x) }
          ret_case!($em, tg("deque"), ds("deque"), refc, pl, d, $f, ($($a),*)); }
        { let rev = Array1::from_vec(xs.iter().rev().cloned().collect::<Vec<f64>>());
          let v: ArrayView1<f64> = rev.slice(s![..;-1]);
          ret_case!($em, tg("nd_step-1"), ds("nd_step-1"), refc, pl, v, $f, ($($a),*)); }
        { let ov = xs.opt(); ret_case!($em, tg("optview"), ds("optview"), refc, pl, ov, $f, ($($a),*)); }
    }};
}

fn main() {
    let mut em = Emitter::new();
    let mut rng = Rng::new(em.args.seed ^ 0x706c);
    let thorough = em.thorough();
    // ================= (a) accessor coherence ==================================================
    let maxlen = if thorough { 8 } else { 5 };
    for len in 0..=maxlen {
        // every composition of len into 1, 2 and 3 chunks (= every chunk-boundary position, empty chunks included)
        let mut comps: Vec<Vec<usize>> = vec![vec![len]];
        for a in 0..=len { comps.push(vec![a, len - a]) }
        for a in 0..=len { for b in 0..=(len - a) { comps.push(vec![a, b, len - a - b]) } }
        for (ci, parts) in comps.iter().enumerate() {
            let xo = opt_series(&mut rng, len);
            let mut chunks = split(&xo, parts);
            // now and then a chunk that is null throughout / valid throughout
            if rng.chance(1, 4) { let k = rng.below(chunks.len()); for x in chunks[k].iter_mut() { *x = None } }
            if rng.chance(1, 4) { let k = rng.below(chunks.len()); for (j, x) in chunks[k].iter_mut().enumerate() { *x = Some(j as f64 + 0.5) } }
            let bm = if ci % 2 == 0 { Bm::Present } else { Bm::Absent };
            let ca = f64_ca(&chunks, bm);
            observe_f64(&mut em, if bm == Bm::Present { "chunks_bitmap" } else { "chunks" }, &ca);
        }
        let reps = if thorough { 6 } else { 2 };
        for _ in 0..reps {
            // arrays produced by operations: append (chunk lists concatenated), slice (offsets into values and bitmaps),
            // rechunk, collect from an iterator, full_null
            let xo = opt_series(&mut rng, len);
            let k = 1 + rng.below(3);
            let parts = random_cuts(&mut rng, len, k);
            let mut ca = f64_ca(&split(&xo, &parts), Bm::Present);
            let nextra = 1 + rng.below(4);
            let extra = opt_series(&mut rng, nextra);
            let k2 = 1 + rng.below(2);
            let parts2 = random_cuts(&mut rng, extra.len(), k2);
            let other = f64_ca(&split(&extra, &parts2), Bm::Absent);
            ca.append(&other).unwrap();
            observe_f64(&mut em, "append", &ca);
            let tot = ca.len();
            let off = rng.below(tot + 1);
            let sl = ca.slice(off as i64, rng.below(tot - off + 1));
            observe_f64(&mut em, "slice", &sl);
            let sl2 = sl.slice(rng.below(sl.len() + 1) as i64, sl.len());
            observe_f64(&mut em, "slice_of_slice", &sl2);
            observe_f64(&mut em, "rechunk", &ca.rechunk());
            let collected: Float64Chunked = xo.iter().cloned().collect();
            observe_f64(&mut em, "collect", &collected);
            let from_vals: Float64Chunked = Float64Chunked::from_vec("".into(), xo.iter().map(|x| x.unwrap_or(1.5)).collect());
            observe_f64(&mut em, "from_vec", &from_vals);
            observe_f64(&mut em, "full_null", &Float64Chunked::full_null("".into(), len));
            // the glue's own constructors: Vec1::collect_from_iter / collect_from_trusted / uninit
            let by_glue: Float64Chunked = <Float64Chunked as Vec1<Option<f64>>>::collect_from_iter(xo.iter().cloned());
            observe_f64(&mut em, "glue_collect_from_iter", &by_glue);
            let by_glue_t: Float64Chunked = <Float64Chunked as Vec1<Option<f64>>>::collect_from_trusted(xo.clone().into_iter());
            observe_f64(&mut em, "glue_collect_from_trusted", &by_glue_t);
            // the staging buffer of a Polars output (model: pstage of Model/PolarsOut.v, interpreter run_pstage): random
            // stores — slots left unwritten (stay null), slots written twice (last store wins), any order — made through
            // UninitVec::uset and through UninitRefMut::uset on the borrowed buffer, then assume_init
            for variant in 0..2 {
                let nw = if len == 0 { 0 } else { rng.below(2 * len + 1) };
                // variant 1 (seed C07-6: a store of None skipped "because every slot starts as null"): every slot first receives a
                // value, then every other slot a None - a recycled buffer must end up with exactly the last stores
                let writes: Vec<(usize, Option<f64>)> = if variant == 1 {
                    (0..len).map(|i| (i, Some(i as f64 + 0.5))).chain((0..len).filter(|i| i % 2 == 0).map(|i| (i, None))).collect()
                } else { (0..nw).map(|_| (rng.below(len),
                    if rng.chance(1, 4) { None } else { Some(rng.range(-12, 12) as f64 / 4.0) })).collect() };
                let nw = writes.len();
                let distinct = { let mut d: Vec<usize> = writes.iter().map(|w| w.0).collect(); d.sort(); d.dedup(); d.len() };
                let term = format!("(run_pstage {} {})", vh::coq_nat(len),
                    coq_list(&writes, |w| format!("({}, {})", vh::coq_nat(w.0), coq_opt(&w.1, |v| coq_f64(*v)))));
                let tags = format!("part=access be=pl_stage how=uset len={} writes={} cover={}{}", len, nw.min(20),
                    if distinct == len { "all" } else { "partial" }, if len == 0 { " nt=0" } else { "" });
                em.case("exact", &tags, &format!("access be=pl_stage len={} stores={:?}", len, writes), || term.clone(), || {
                    let mut u = <Float64Chunked as Vec1<Option<f64>>>::uninit(len);
                    assert_eq!(GetLen::len(&u), len);
                    for (k, (i, v)) in writes.iter().enumerate() {
                        if k % 2 == 0 { unsafe { UninitVec::uset(&mut u, *i, *v) } }
                        else { let mut r = <Float64Chunked as Vec1<Option<f64>>>::uninit_ref_mut(&mut u); unsafe { UninitRefMut::uset(&mut r, *i, *v) } }
                    }
                    let ca: Float64Chunked = unsafe { u.assume_init() };
                    observe!(&ca, ocell, |s: Float64Chunked| s.titer().collect::<Vec<Option<f64>>>(),
                             |v: &Float64Chunked| v.try_as_slice().map(|s| s.to_vec()))
                });
            }
            // the other element types
            let xi: Vec<Option<i64>> = xo.iter().map(|x| x.map(|v| (v * 4.0) as i64)).collect();
            let ichunks = split(&xi, &parts);
            observe_prim!(em, "pl_i64", Int64Chunked, i64, ArrowDataType::Int64, &ichunks);
            observe_prim!(em, "pl_i32", Int32Chunked, i32, ArrowDataType::Int32, &ichunks);
            observe_prim!(em, "pl_f32", Float32Chunked, f32, ArrowDataType::Float32, &ichunks);
            // strings (the one hand-written chunked impl): decimal numerals, chunk by chunk
            {
                let mut ca = StringChunked::full_null("".into(), 0);
                for ch in ichunks.iter() {
                    let strs: Vec<Option<String>> = ch.iter().map(|x| x.map(|v| v.to_string())).collect();
                    let part: StringChunked = strs.iter().map(|x| x.as_deref()).collect();
                    ca.append(&part).unwrap();
                }
                let l: Vec<Vec<Option<f64>>> = ca.downcast_iter().map(|a| a.iter().map(|o| o.map(|t| t.parse::<f64>().unwrap())).collect()).collect();
                let term = format!("(run_chunked {})", coq_chunks(&l));
                em.case("exact", &access_tags("pl_str", "chunks", &l), &format!("access be=pl_str chunks={:?}", l), || term.clone(),
                    || observe_str(&ca));
            }
            // booleans: values and validity are both bitmaps
            {
                let ca: BooleanChunked = BooleanChunked::from_chunk_iter("".into(), ichunks.iter().map(|c| {
                    let vals: Vec<bool> = c.iter().map(|x| x.map(|v| v % 2 != 0).unwrap_or(true)).collect();
                    let valid: Vec<bool> = c.iter().map(|x| x.is_some()).collect();
                    let validity = if !valid.contains(&false) { None } else { Some(Bitmap::from(valid)) };
                    BooleanArray::new(ArrowDataType::Boolean, Bitmap::from(vals), validity)
                }));
                let ca = if rng.chance(1, 2) && ca.len() > 0 { ca.slice(1, ca.len() - 1) } else { ca };
                let l: Vec<Vec<Option<f64>>> = ca.downcast_iter().map(|a| a.iter().map(|o| o.map(|v| if v { 1.0 } else { 0.0 })).collect()).collect();
                let term = format!("(run_chunked {})", coq_chunks(&l));
                let cell = |x: Option<bool>| match x { Some(v) => Cell::Int(v as i128), None => Cell::Null };
                em.case("exact", &access_tags("pl_bool", "chunks", &l), &format!("access be=pl_bool chunks={:?}", l), || term.clone(),
                    || observe!(&ca, cell, |s: BooleanChunked| s.titer().collect::<Vec<Option<bool>>>(),
                                |v: &BooleanChunked| v.try_as_slice().map(|s| s.to_vec())));
            }
        }
    }
    // ================= (b) the matrix =============================================================
    let nser = if thorough { 12 } else { 4 };
    for si in 0..nser {
        let len = if si == 0 { 0 } else if si == 1 { 1 } else { rng.range(2, if thorough { 16 } else { 10 }) as usize };
        let (xs, ys) = (mseries(&mut rng, len), mseries(&mut rng, len));
        let npairs = xs.iter().zip(ys.iter()).filter(|(a, b)| !a.is_nan() && !b.is_nan()).count();
        let mut ws: Vec<usize> = if len == 0 { vec![2] } else { vec![1, 3, len.saturating_sub(1).max(1), len + 1, rng.range(1, len as i64 + 2) as usize] };
        ws.sort(); ws.dedup();
        for w in ws {
            let mp = if rng.chance(1, 2) { None } else { Some(rng.range(0, w as i64) as usize) };
            let desc = format!("w={} mp={:?} xs={:?}", w, mp, xs);
            all_inputs!(em, rng, "ts_vsum", desc, &xs, ts_vsum, ts_vsum_to, (w, mp), ref (w, mp));
            all_inputs!(em, rng, "ts_vstd", desc, &xs, ts_vstd, ts_vstd_to, (w, mp), ref (w, mp));
            all_inputs!(em, rng, "ts_vargmin", desc, &xs, ts_vargmin, ts_vargmin_to, (w, mp), ref (w, mp));
            all_inputs!(em, rng, "ts_vzscore", desc, &xs, ts_vzscore, ts_vzscore_to, (w, mp), ref (w, mp));
            all_inputs!(em, rng, "ts_vrank", desc, &xs, ts_vrank, ts_vrank_to, (w, mp, false, false), ref (w, mp, false, false));
            let desc2 = format!("w={} mp={:?} pairs={} xs={:?} ys={:?}", w, mp, npairs, xs, ys);
            // the second series as a Vec, and as a Polars array with its own chunking
            all_inputs!(em, rng, "ts_vcorr/other=vec", desc2, &xs, ts_vcorr, ts_vcorr_to, (&ys, w, mp), ref (&ys, w, mp));
            let yk = 1 + rng.below(3);
            let yparts = random_cuts(&mut rng, len, yk);
            let yca = f64_ca(&split(&to_opts(&ys), &yparts), Bm::Present);
            let desc3 = format!("{} other chunks={:?}", desc2, yparts);
            all_inputs!(em, rng, "ts_vcorr/other=pl", desc3, &xs, ts_vcorr, ts_vcorr_to, (&yca, w, mp), ref (&ys, w, mp));
        }
    }
    em.finish();
}
