#!/usr/bin/env python3
"""tools/keepseed.py <Cxx> <k> <caught-by comma list> "<needs>" "<result line>": archive a confirmed seeded change under seeded/"""
import sys, os, shutil, json, subprocess
P, K, caught, needs, result = sys.argv[1:6]
out = "/tmp/seedout-%s-%s" % (P, K)
dst = "/verif/seeded/%s-%s" % (P, K)
os.makedirs(dst, exist_ok=True)
shutil.copy(out + "/patch.diff", dst + "/patch.diff")
if os.path.exists(out + "/README.md"): shutil.copy(out + "/README.md", dst + "/README.md")
if os.path.isdir(out + "/demo"):
    shutil.rmtree(dst + "/demo", ignore_errors=True)
    shutil.copytree(out + "/demo", dst + "/demo", ignore=shutil.ignore_patterns("target", "Cargo.lock"))
json.dump(dict(property=P, breaks=P, needs_to_manifest=needs,
               origin="independent sub-agent given only the property text and a scratch worktree",
               confirmed=(open("/tmp/confirm-%s-%s.log" % (P, K)).read().strip().splitlines()[-1] + " [tools/confirmseed.sh run by the integrator in the scratch worktree: patch.diff applied to a clean HEAD, cargo test --workspace --no-fail-fast --offline, demo with / without the change]") if os.path.exists("/tmp/confirm-%s-%s.log" % (P, K)) else "sub-agent run only",
               ran="tools/tryseed.sh %s %s (git -C /repo apply patch.diff; ./check <prop> --tier quick; git -C /repo checkout -- .)" % (P, K),
               caught_by=caught.split(","), result=result), open(dst + "/meta.json", "w"), indent=1)
subprocess.run(["git", "-C", "/repo", "worktree", "remove", "--force", "/tmp/seed-%s-%s" % (P, K)])
shutil.rmtree(out, ignore_errors=True)
print("kept", dst)
