#!/usr/bin/env python3
"""tools/mutate.py --props C01,C03 [--n 40] [--seed 1] [--out mutation/NAME.jsonl] [--only-file SUBSTR] [--ops op1,op2]

Mutation adequacy of the tie, mechanically: small operator / constant mutations of the Rust files the given properties are
anchored in, one at a time.  For every mutant

  1. `cargo test --workspace --no-fail-fast --offline` in the repo copy: a mutant that does not compile is `stillborn`, one the
     library's own tests catch is `killed_by_suite` (not a "realistic change that passes the existing tests": not our business);
  2. otherwise the quick checks of the properties anchored in that file run one after the other with the plain quick generators
     (`VERIF_NO_ESCALATE=1`, no coqchk) until one reports a VIOLATION: `killed_by=Cxx` (+ whether a concrete input was found or
     only a broken conformance proof: `static_only`);
  3. none does: `survived` - either an equivalent mutant (dead code, a guard that cannot fire, a tie-break nothing observes) or a
     blind spot of the generators / model.  Survivors are what a human (or agent) then looks at.

Run it in a builder workspace (/work/<name>/{verif,repo}, made by tools/mkwork.sh): it edits the sibling `repo` worktree and
restores it after every mutant; never run it against /repo itself while other work uses it.  Results: one JSON object per line.
"""
import os, re, sys, json, random, subprocess, time
ROOT = os.path.dirname(os.path.dirname(os.path.abspath(__file__)))
sys.path.insert(0, os.path.join(ROOT, "tools"))
import anchors as ANCHORS
_sib = os.path.join(os.path.dirname(ROOT), "repo")
REPO = os.environ.get("TEVEC_REPO") or (_sib if ROOT != "/verif" and os.path.isdir(_sib) else "/repo")

# (name, regex, replacement) - spaces around binary operators keep generics (`Vec<T>`), `->`, `=>` out
OPS = [
    ("le_to_lt", r" <= ", " < "), ("lt_to_le", r" < ", " <= "), ("ge_to_gt", r" >= ", " > "), ("gt_to_ge", r" > ", " >= "),
    ("eq_to_ne", r" == ", " != "), ("ne_to_eq", r" != ", " == "), ("and_to_or", r" && ", " || "), ("or_to_and", r" \|\| ", " && "),
    ("plus1_to_plus2", r" \+ 1\b(?!\.)", " + 2"), ("minus1_to_minus0", r" - 1\b(?!\.)", " - 0"), ("minus1_to_minus2", r" - 1\b(?!\.)", " - 2"),
    ("min_to_max", r"\.min\(", ".max("), ("max_to_min", r"\.max\(", ".min("),
    ("add_to_sub", r"(?<=[\w\)\]]) \+ (?=[\w\(])", " - "), ("sub_to_add", r"(?<=[\w\)\]]) - (?=[\w\(])", " + "),
    ("mul_to_div", r"(?<=[\w\)\]]) \* (?=[\w\(])", " / "), ("incl_to_excl", r"\.\.=", ".."),
    ("two_to_three", r"(?<![\w.])2(?![\w.])", "3"), ("zero_to_one", r"(?<![\w.])0(?![\w.xb])", "1"), ("one_to_two", r"(?<![\w.])1(?![\w.])", "2"),
    ("satsub1_to_0", r"saturating_sub\(1\)", "saturating_sub(0)"), ("not_none_to_is_none", r"\.not_none\(\)", ".is_none()"),
    ("is_none_to_not_none", r"\.is_none\(\)", ".not_none()"), ("some_to_none_guard", r"unwrap_or\(0\)", "unwrap_or(1)"),
    ("less_to_greater", r"Ordering::Less", "Ordering::Greater"), ("greater_to_less", r"Ordering::Greater", "Ordering::Less"),
    ("rev_drop", r"\.rev\(\)", ""), ("skip_to_take", r"\.skip\(", ".take("),
]

def sites(path):
    """mutation sites of one file: (line number, operator name, column, new line text); code lines only, library tests skipped"""
    out = []
    try: lines = open(path, errors="replace").read().split("\n")
    except OSError: return out
    in_block = False
    for i, l in enumerate(lines, 1):
        st = l.strip()
        if re.match(r"#\[cfg\(test\)\]", st): break
        if in_block:
            if "*/" in st: in_block = False
            continue
        if st.startswith("/*"):
            in_block = "*/" not in st
            continue
        if not st or st.startswith("//") or st.startswith("#[") or st.startswith("use ") or st.startswith("pub use "): continue
        code = l.split("//")[0]
        if re.search(r'"[^"]*"', code) and ("assert" in code or "panic" in code or "terr!" in code or "tbail" in code or "format!" in code):
            code_no_str = re.sub(r'"[^"]*"', lambda m: '"' + "\0" * (len(m.group(0)) - 2) + '"', code)
        else:
            code_no_str = code
        for name, pat, rep in OPS:
            for m in re.finditer(pat, code_no_str):
                new = l[:m.start()] + rep + l[m.end():]     # (not re.sub on the slice: look-behinds cannot match there)
                if new != l: out.append((i, name, m.start(), new))
    return out

def sh(cmd, cwd, env=None, timeout=1800):
    e = dict(os.environ); e.update(env or {})
    try:
        p = subprocess.run(cmd, cwd=cwd, env=e, stdout=subprocess.PIPE, stderr=subprocess.STDOUT, text=True, timeout=timeout)
        return p.returncode, p.stdout
    except subprocess.TimeoutExpired as ex:
        return 124, (ex.stdout or b"").decode("utf8", "replace") if isinstance(ex.stdout, bytes) else (ex.stdout or "")

def main(argv):
    def arg(k, d=None): return argv[argv.index(k) + 1] if k in argv else d
    props = arg("--props").split(",")
    n, seed = int(arg("--n", "40")), int(arg("--seed", "1"))
    only = arg("--only-file")
    ops_only = set(arg("--ops").split(",")) if arg("--ops") else None
    outp = arg("--out", os.path.join(ROOT, "mutation", "-".join(props) + ".jsonl"))
    os.makedirs(os.path.dirname(outp), exist_ok=True)
    if REPO == "/repo" and os.environ.get("MUTATE_ALLOW_MAIN_REPO") != "1":
        print("refusing to mutate /repo itself: run in a builder workspace (tools/mkwork.sh)"); return 2
    rc, st = sh(["git", "status", "--short"], REPO)
    if st.strip():
        print("repo worktree not clean:\n" + st); return 2
    files_of = ANCHORS.anchor_files()
    by_file = {}
    for p in props:
        for f in files_of.get(p, []) + ANCHORS.EXTRA.get(p, []):
            by_file.setdefault(f, [])
            if p not in by_file[f]: by_file[f].append(p)
    # a file is shared by several properties (vec_map.rs: C12's rank / partition and C13's shift / fill): a mutant survives only if
    # NO check anchored in the file reports it - the requested properties first, then every other one
    for f in by_file:
        for p in sorted(files_of):
            if f in files_of.get(p, []) + ANCHORS.EXTRA.get(p, []) and p not in by_file[f]: by_file[f].append(p)
    allsites = []
    for f in sorted(by_file):
        if only and only not in f: continue
        for s in sites(os.path.join(REPO, f)):
            if ops_only is None or s[1] in ops_only: allsites.append((f,) + s)
    rnd = random.Random(seed)
    rnd.shuffle(allsites)
    done = set()
    if os.path.exists(outp):
        for l in open(outp):
            try: d = json.loads(l); done.add((d["file"], d["line"], d["op"], d["col"]))
            except Exception: pass
    print("%d mutation sites in %d files; %d requested, %d already done" % (len(allsites), len(by_file), n, len(done))); sys.stdout.flush()
    count = 0
    for (f, line, op, col, new) in allsites:
        if count >= n: break
        if (f, line, op, col) in done: continue
        path = os.path.join(REPO, f)
        src = open(path).read()
        lines = src.split("\n")
        old = lines[line - 1]
        lines[line - 1] = new
        open(path, "w").write("\n".join(lines))
        rec = dict(file=f, line=line, op=op, col=col, old=old.strip(), new=new.strip(), props=by_file[f])
        t0 = time.time()
        try:
            rc, out = sh(["cargo", "test", "--workspace", "--no-fail-fast", "--offline"], REPO, env={"CARGO_NET_OFFLINE": "true"}, timeout=1500)
            if "error: could not compile" in out or re.search(r"^error\[E\d+\]:", out, re.M):
                rec["status"] = "stillborn"     # (cargo also prints `error: test failed, to rerun pass ...` when a TEST fails: that is killed_by_suite)
            elif rc != 0 or "FAILED" in out or "panicked" in out and "test result: FAILED" in out:
                rec["status"] = "killed_by_suite"
            else:
                rec["status"] = "survived"; rec["checked"] = []
                for p in by_file[f]:
                    rc2, out2 = sh([os.path.join(ROOT, "check"), p, "--tier", "quick"], ROOT,
                                   env={"VERIF_NO_ESCALATE": "1", "VERIF_NO_COQCHK": "1", "VERIF_SEED": "1", "TEVEC_REPO": REPO}, timeout=1500)
                    summary = [l for l in out2.split("\n") if l.startswith("[" + p)][-1:] or [out2[-200:]]
                    rec["checked"].append(dict(prop=p, exit=rc2, summary=summary[0][:200]))
                    if rc2 != 0 or "VIOLATION" in out2:
                        static = ("no-failing-input-found" in out2) and not re.search(r"VIOLATION property=\w+ replay=\S+\s*$", out2, re.M)
                        if rec["status"] != "killed" or not static:
                            rec["status"] = "killed"; rec["killed_by"] = p; rec["static_only"] = static
                            v = [l for l in out2.split("\n") if l.startswith("VIOLATION")]
                            rec["violation"] = v[0][:200] if v else ""
                        # a kill by the static tie alone does not say whether the differential run of the OWNING property would have
                        # found an input: keep going through the remaining properties until one does
                        if not static: break
        finally:
            open(path, "w").write(src)
        rec["seconds"] = round(time.time() - t0, 1)
        open(outp, "a").write(json.dumps(rec) + "\n")
        count += 1
        print("%3d %-16s %s:%d  %s   [%s -> %s]" % (count, rec["status"] + ("/" + rec.get("killed_by", "") if rec.get("killed_by") else ""),
                                                 f, line, op, rec["old"][:60], rec["new"][:60])); sys.stdout.flush()
    sh(["git", "checkout", "--", "."], REPO)
    # summary
    recs = [json.loads(l) for l in open(outp)]
    c = {}
    for r in recs: c[r["status"]] = c.get(r["status"], 0) + 1
    print("total %d: %s" % (len(recs), ", ".join("%s %d" % kv for kv in sorted(c.items()))))
    return 0

if __name__ == "__main__":
    sys.exit(main(sys.argv[1:]))
