#!/usr/bin/env python3
"""Translator for the finite constant tables of tea-time and the min_periods shapes of the rolling family (DESIGN 10.2,
"second tie"): regenerates coq/Gen/SrcTables.v from
the Rust SOURCE TEXT of /repo on every run of C16 / C17 / C18 (and C05 / C06), so that `coq/Proofs/SrcTablesOk.v` — theorems stating that
the tables the source spells out are exactly the tables of the hand-written model — is re-checked against what the code says
now.  A changed constant, a swapped arm, div_euclid replaced by `/`, a unit moved to another accumulator: the generated file
changes and the conformance theorem no longer compiles (proof obligation broken -> the check then relies on the
correspondence run to find the failing input).  Deliberately tiny and strict: if the source no longer has the expected
shape the translator fails loudly (exit 2) rather than guess.

  tea-time/src/convert.rs   `pub const NAME: i64 = <int>;`  and the 12 arms  `(A, B) => DateTime::new(self.0.div_euclid(K))`
                            / `DateTime::new(self.0 * K)`  of `into_unit`
  tea-time/src/timedelta.rs the unit arms  `"ns" => nsecs = add_i64(nsecs, n, K)...`  of `TimeDelta::parse`
  tea-time/src/datetime.rs  `const TIME_RULE_VEC: [&str; N] = [...]` (formats DateTime::parse tries, in order) and the default
                            format of `strftime`

Rolling family (C05 / C06; conformance in coq/Proofs/SrcTablesRoll.v): for every `fn ts_*` of
  tea-rolling/src/{features,cmp,norm,binary,reg}.rs and tevec/src/rolling.rs
the SHAPE of the effective-min_periods computation in the function body (comments stripped first, so a commented-out clamp
is not a clamp):
    [let window = window.min(self.len());  |  let window = min(self.len(), window);]          -> clamp_first
    let min_periods = min_periods.unwrap_or(window / 2)[.min(window)][.max(K)];               -> min_window, K (0 if absent)
or "no min_periods parameter at all" (ts_fdiff).  Exactly one `let min_periods`, at most one `let window`, both at the top
level of the body, no other binding of / assignment to either name; the clamp, if present, must precede the min_periods
line.  Anything else: exit 2.

Aggregation, rolling-closure and map families (C11 / C12, C04 (C01), C13; conformance in coq/Proofs/SrcTablesAgg.v): the DECISION
tables — comparison operators, constants, the side EPS is on, interpolation arms, sign arms and their iterator pipelines — see
the block comment above `AGG_CORE` below and notes/translator.md.
"""
import os, re, sys
ROOT = os.path.dirname(os.path.dirname(os.path.abspath(__file__)))
sys.path.insert(0, os.path.dirname(os.path.abspath(__file__)))
import anchors

ROLL_FILES = ["tea-rolling/src/features.rs", "tea-rolling/src/cmp.rs", "tea-rolling/src/norm.rs",
              "tea-rolling/src/binary.rs", "tea-rolling/src/reg.rs", "tevec/src/rolling.rs"]

class Unrecognised(Exception):
    pass

def _depth_at(body, pos):
    """brace depth of position `pos` inside `body` (which starts with the opening brace of the function), string literals skipped"""
    d, i = 0, 0
    while i < pos:
        ch = body[i]
        if ch == '"':
            j = i + 1
            while j < len(body) and body[j] != '"': j += 2 if body[j] == "\\" else 1
            i = j
        elif ch == "{": d += 1
        elif ch == "}": d -= 1
        i += 1
    return d

RE_MP = re.compile(r"^min_periods\s*\.\s*unwrap_or\(\s*window\s*/\s*2\s*\)(\s*\.\s*min\(\s*window\s*\))?(\s*\.\s*max\(\s*([0-9_]+)\s*\))?$")
RE_CLAMP = [re.compile(r"^window\s*\.\s*min\(\s*self\s*\.\s*len\(\s*\)\s*\)$"),
            re.compile(r"^(?:std::cmp::|cmp::)?min\(\s*self\s*\.\s*len\(\s*\)\s*,\s*window\s*\)$"),
            re.compile(r"^(?:std::cmp::|cmp::)?min\(\s*window\s*,\s*self\s*\.\s*len\(\s*\)\s*\)$")]

def mp_shape(fname, name, text, outside):
    """text: normalised `fn name ... { ... }` (comments stripped).  Returns ("shape", clamp_first, min_window, k) or ("absent",)"""
    def bad(why): raise Unrecognised("%s::%s: %s" % (fname, name, why))
    b0 = text.find("{")
    if b0 < 0: bad("no body")
    sig, body = text[:b0], text[b0:]
    params = re.findall(r"\bmin_periods\s*:\s*([^,)]+)", sig)
    if not params:
        if re.search(r"\bmin_periods\b", text): bad("min_periods is mentioned but is not a parameter")
        if re.search(r"\blet\s+(mut\s+)?window\b", body) or re.search(r"\bwindow\s*[-+*/%|&^]?=[^=]", body):
            bad("window is rebound in a function without min_periods")
        return ("absent",)
    if len(params) != 1 or params[0].strip() != "Option<usize>": bad("min_periods parameter is not `Option<usize>`: %r" % (params,))
    if not re.search(r"\bwindow\s*:\s*usize\b", sig): bad("no `window: usize` parameter")
    # every binding of / assignment to the two names
    lets = [(m.start(2), m.group(2), m.group(3), bool(m.group(1))) for m in
            re.finditer(r"\blet\s+(mut\s+)?(min_periods|window)\b\s*(?::[^=;]*)?=\s*([^;]*);", body)]
    nlet = len(re.findall(r"\blet\s+(?:mut\s+)?\(?[^=;]*\b(min_periods|window)\b[^=;]*=[^=]", body))
    if nlet != len(lets): bad("a binding of min_periods / window in an unrecognised form")
    if re.search(r"(?<![.\w])(min_periods|window)\s*(?:[-+*/%|&^]|<<|>>)?=[^=]", re.sub(r"\blet\s+(mut\s+)?(min_periods|window)\b", "let_", body)):
        bad("min_periods / window is assigned to")
    for pos, nm, expr, mut in lets:
        if mut: bad("`let mut %s`" % nm)
        if _depth_at(body, pos) != 1: bad("`let %s` is not at the top level of the body" % nm)
    mps = [l for l in lets if l[1] == "min_periods"]
    wins = [l for l in lets if l[1] == "window"]
    if len(mps) != 1: bad("%d `let min_periods` statements (exactly one expected)" % len(mps))
    if len(wins) > 1: bad("%d `let window` statements (at most one expected)" % len(wins))
    m = RE_MP.match(mps[0][2].strip())
    if not m: bad("min_periods expression not recognised: `%s`" % mps[0][2].strip())
    min_window = m.group(1) is not None
    k = int(m.group(3).replace("_", "")) if m.group(2) else 0
    clamp = False
    if wins:
        e = wins[0][2].strip()
        which = [i for i, r in enumerate(RE_CLAMP) if r.match(e)]
        if not which: bad("window expression not recognised: `%s`" % e)
        if which[0] > 0 and not e.startswith(("std::cmp::", "cmp::")):
            imported = bool(re.search(r"\buse\s+std::cmp::min\s*;", outside)) or any(
                "min" in [x.strip() for x in grp.split(",")] for grp in re.findall(r"\buse\s+std::cmp::\{([^}]*)\}\s*;", outside))
            if not imported: bad("`min(..)` is used for the clamp but std::cmp::min is not imported under that name")
            if re.search(r"\b(let\s+(mut\s+)?|fn\s+)min\b", body[:wins[0][0]]): bad("`min` is shadowed before the clamp")
        if wins[0][0] > mps[0][0]: bad("the window clamp comes AFTER the min_periods line")
        clamp = True
    # the first mention of a (re)bound name in the body must be its recognised `let`
    for l in mps + wins:
        if re.search(r"\b%s\b" % l[1], body).start() != l[0]: bad("%s is used before its `let`" % l[1])
    return ("shape", clamp, min_window, k)

def parse_rolling(repo):
    table, origin = {}, {}
    for f in ROLL_FILES:
        src = open(os.path.join(repo, f), encoding="utf8").read()
        fns = anchors.functions(src)
        outside = fns.get("(outside functions)", "")
        for key, text in fns.items():
            if not key.startswith("ts_"): continue
            if "#" in key or key in table: raise Unrecognised("%s: function %s defined more than once (also in %s)" % (f, key, origin.get(key.split("#")[0], f)))
            table[key] = mp_shape(f, key, text, outside); origin[key] = f
    if not table: raise Unrecognised("no `fn ts_*` found")
    return table, origin

# ======================================================================================================================
# Aggregation, rolling-closure and map families (C11 / C12, C04 / C01, C13; conformance in coq/Proofs/SrcTablesAgg.v).
#
# What is read (function texts through tools/anchors.py: comments stripped, whitespace collapsed, string literals blanked):
#   tea-core/src/prelude.rs     `pub const EPS: f64 = <literal>;`
#   tea-core/src/agg.rs         vsum vmean vmean_var vskew vcov vcorr_pearson: EVERY `if <cond>` of the body (not `if let`), in
#                               source order; the rebinding `let min_periods = min_periods.max_with(K);`; the wrappers vvar / vstd
#   tea-agg/src/lib.rs          n_sum_filter vmean_filter vkurt: every `if`; vpercentile_of: the counting closure and the
#                               `match method` kind table
#   tea-agg/src/vec_valid.rs    vquantile: the count guards, the branch test on q, the interpolation-method tables
#   tea-rolling/src/*.rs, tevec/src/rolling.rs   every `fn ts_*`: the guards that mention min_periods, the guards that mention
#                               EPS (every occurrence of either name must lie inside a recognised guard), the aggregation the
#                               residual statistics of reg.rs end with (`.vmean()`, `.vstd(2)`, `.vskew(3)`)
#   tea-map/src/{lib,valid_iter,vec_map}.rs      shift vshift vdiff vpct_change: early guard, fill value, the sign arms of
#                               `match n` and the iterator pipeline of each arm (repeat_n / take / skip / chain / zip / map)
#
# A guard is a conjunction (`&&` or `&`) of atoms  `a <op> b`, `x.not_none()`, `x.is_none()`, `x.is_some()`.  Local names are
# NOT copied into the table: each identifier is resolved to a ROLE through its binding, so that renaming a local or moving an
# independent `let` leaves the table unchanged, while an identifier whose binding has no recognised form makes the translator
# stop (exit 2).  Roles: TCount (`let mut n = 0`, `let n = self.vapply_n(..)`, `let (n, _) = self.vfold_n(..)`,
# `.. count_valid()`), TMinPeriods (the parameter, possibly rebound by the recognised `.max_with(K)`), TNat k, TEps, TZero
# (`0.`), TVar i (a variable last assigned by `x -= y.powi(2)` / `let x = a - b.powi(2)`: the population variance as computed;
# numbered by first appearance in the guard), TRes (`let mut res = if ..`), TElem i (operand of a nullness test), TOther i.
# Comparisons are oriented with the variable role on the left (`EPS < var` and `var > EPS` are the same entry).
# ======================================================================================================================

AGG_CORE = "tea-core/src/agg.rs"
AGG_EXT = "tea-agg/src/lib.rs"
AGG_VEC = "tea-agg/src/vec_valid.rs"
AGG_CORE_FNS = ["vsum", "vmean", "vmean_var", "vskew", "vcov", "vcorr_pearson"]
AGG_EXT_FNS = ["n_sum_filter", "vmean_filter", "vkurt"]
MAP_FNS = [("shift", "tea-map/src/lib.rs"), ("vshift", "tea-map/src/valid_iter.rs"),
           ("vdiff", "tea-map/src/vec_map.rs"), ("vpct_change", "tea-map/src/vec_map.rs")]

def _blank_strings(s):
    out, i = [], 0
    while i < len(s):
        if s[i] == '"':
            j = i + 1
            while j < len(s) and s[j] != '"': j += 2 if s[j] == "\\" else 1
            out.append('"' + " " * (j - i - 1) + '"'); i = j + 1
        else:
            out.append(s[i]); i += 1
    return "".join(out)

_FN_CACHE = {}
def _functions(repo, rel):
    if (repo, rel) not in _FN_CACHE:
        _FN_CACHE[(repo, rel)] = anchors.functions(open(os.path.join(repo, rel), encoding="utf8").read())
    return _FN_CACHE[(repo, rel)]

def fn_text(repo, rel, name):
    fns = _functions(repo, rel)
    if name not in fns: raise Unrecognised("%s: no `fn %s`" % (rel, name))
    if name + "#1" in fns: raise Unrecognised("%s: `fn %s` is defined more than once" % (rel, name))
    return _blank_strings(fns[name])

def _match_close(s, i, op="(", cl=")"):
    """index of the bracket closing the one at s[i]"""
    d = 0
    for j in range(i, len(s)):
        if s[j] == op: d += 1
        elif s[j] == cl:
            d -= 1
            if d == 0: return j
    raise Unrecognised("unbalanced `%s`" % op)

# ---- conditions ------------------------------------------------------------------------------------------------------
_TOK = re.compile(r"\s*(?:(?P<flt>\d[\d_]*\.\d*(?:_?f64)?|\d[\d_]*_?f64)|(?P<int>\d[\d_]*(?:_?(?:usize|u32|u64|i32|i64|isize))?)"
                  r"|(?P<id>[A-Za-z_]\w*(?:::[A-Za-z_]\w*)*)|(?P<op><=|>=|==|!=|&&|\|\||[<>&()!.|]))")
_CMP = {"<": "CLt", "<=": "CLe", ">": "CGt", ">=": "CGe", "==": "CEq", "!=": "CNe"}
_FLIP = {"CLt": "CGt", "CLe": "CGe", "CGt": "CLt", "CGe": "CLe", "CEq": "CEq", "CNe": "CNe"}

def parse_cond(text, who):
    """`text` -> list of atoms ("cmp", term, op, term) | ("not_none" | "is_none" | "is_some", term); term = (kind, value)"""
    toks, i = [], 0
    text = text.strip()
    while i < len(text):
        m = _TOK.match(text, i)
        if not m or m.end() == i: raise Unrecognised("%s: cannot read the condition `%s`" % (who, text))
        toks.append((m.lastgroup, m.group(m.lastgroup))); i = m.end()
    pos = [0]
    def peek(): return toks[pos[0]] if pos[0] < len(toks) else (None, None)
    def nxt(): t = peek(); pos[0] += 1; return t
    def bad(): raise Unrecognised("%s: condition `%s` is not a conjunction of simple comparisons / nullness tests" % (who, text))
    def term():
        k, v = nxt()
        if k in ("flt", "int", "id"): return (k, v)
        bad()
    def atom():
        if peek() == ("op", "("):
            nxt(); a = conj()
            if nxt() != ("op", ")"): bad()
            return a
        t = term()
        if peek() == ("op", "."):
            nxt(); k, meth = nxt()
            if k != "id" or meth not in ("not_none", "is_none", "is_some") or t[0] != "id": bad()
            if nxt() != ("op", "(") or nxt() != ("op", ")"): bad()
            return [(meth, t)]
        k, op = nxt()
        if k != "op" or op not in _CMP: bad()
        return [("cmp", t, _CMP[op], term())]
    def conj():
        a = atom()
        while peek() in (("op", "&&"), ("op", "&")):
            nxt(); a = a + atom()
        return a
    res = conj()
    if pos[0] != len(toks): bad()
    return res

def all_ifs(text, who):
    """every `if` of `text` that is not `if let`: (position of the keyword, start, end of the condition text, "if" | "arm")"""
    out = []
    for m in re.finditer(r"\bif\b", text):
        if re.match(r"\s+let\b", text[m.end():]): continue
        i, d = m.end(), 0
        kind = None
        while i < len(text):
            ch = text[i]
            if ch in "([": d += 1
            elif ch in ")]": d -= 1
            elif ch == "{" and d == 0: kind = "if"; break
            elif text.startswith("=>", i) and d == 0: kind = "arm"; break
            elif ch == ";" and d == 0: break
            i += 1
        if kind is None or d < 0: raise Unrecognised("%s: `if` at offset %d has no recognisable extent" % (who, m.start()))
        out.append((m.start(), m.end(), i, kind))
    return out

# ---- roles -----------------------------------------------------------------------------------------------------------
def _stmt_end(text, i):
    """index of the `;` that ends the statement starting at i (bracket depth 0)"""
    d = 0
    while i < len(text):
        ch = text[i]
        if ch in "([{": d += 1
        elif ch in ")]}":
            d -= 1
            if d < 0: return i
        elif ch == ";" and d == 0: return i
        i += 1
    return i

def _let_binding(name, text, pos):
    """the last `let` that binds `name` before `pos`: (form, index in a tuple pattern, is_mut, rhs text) or None"""
    n, best = re.escape(name), None
    for m in re.finditer(r"\blet\s+(mut\s+)?%s\b\s*(?::[^=;]*)?=(?!=)\s*" % n, text[:pos]):
        best = max(best or (-1,), (m.start(), "simple", 0, bool(m.group(1)), m.end()))
    for m in re.finditer(r"\blet\s+\(([^)]*)\)\s*(?::[^=;]*)?=(?!=)\s*", text[:pos]):
        names = [re.sub(r"^mut\s+", "", x.strip()) for x in m.group(1).split(",")]
        if name in names:
            muts = [x.strip().startswith("mut ") for x in m.group(1).split(",")]
            best = max(best or (-1,), (m.start(), "tuple", names.index(name), muts[names.index(name)], m.end()))
    if best is None or best[0] < 0: return None
    _, form, idx, mut, e = best
    return (form, idx, mut, text[e:_stmt_end(text, e)].strip(), e)

def _last_assignment(name, text, lo, hi):
    """the last `name <op>= rhs;` in text[lo:hi]: (op, rhs) or None"""
    last = None
    for m in re.finditer(r"(?<![\w.])%s\s*([-+*/%%]?)=(?!=)\s*" % re.escape(name), text[lo:hi]):
        last = (m.group(1), text[lo + m.end():_stmt_end(text, lo + m.end())].strip())
    return last

_RE_SQ = r"[A-Za-z_]\w*\s*\.\s*powi\(\s*2\s*\)"
def binding_class(name, text, pos):
    b = _let_binding(name, text, pos)
    if b is None: return None
    form, idx, mut, rhs, e = b
    if form == "tuple":
        if idx == 0 and re.match(r"^self\s*\.\s*(vfold_n|n_vsum_filter)\s*\(", rhs): return "count"
    else:
        if mut and re.fullmatch(r"0(?:_?usize)?", rhs): return "count"
        if not mut and re.match(r"^self\s*\.\s*vapply_n\s*\(", rhs): return "count"
        if not mut and re.fullmatch(r"(?:self|arr)\s*\.\s*titer\(\s*\)\s*\.\s*count_valid\(\s*\)", rhs): return "count"
        if mut and re.match(r"^if\b", rhs): return "res"
    la = _last_assignment(name, text, e, pos)
    if la is None:
        if form == "simple" and re.fullmatch(r"[A-Za-z_]\w*\s*-\s*" + _RE_SQ, rhs): return "var"
    elif la[0] == "-" and re.fullmatch(_RE_SQ, la[1]) and mut: return "var"
    return "other"

def resolve_guard(atoms, text, pos, who, env=None):
    """atoms of parse_cond -> list of Coq `src_atom` terms; `env`: identifier -> role, for closure parameters"""
    vars_, elems, others = [], [], []
    def idx(lst, name):
        if name not in lst: lst.append(name)
        return lst.index(name)
    def role(t, nullness=False):
        k, v = t
        if k == "int": return "(TNat %d%%nat)" % int(re.sub(r"[_a-z]\w*$|_", "", v))
        if k == "flt":
            try: f = float(re.sub(r"_?f64$", "", v).replace("_", ""))
            except ValueError: raise Unrecognised("%s: literal `%s`" % (who, v))
            if f != 0.0: raise Unrecognised("%s: a guard compares with the float literal `%s` (only 0. is recognised)" % (who, v))
            return "TZero"
        if env and v in env: return env[v]
        if v == "EPS":
            if re.search(r"\blet\s+(mut\s+)?EPS\b", text): raise Unrecognised("%s: EPS is shadowed" % who)
            return "TEps"
        if v == "min_periods": return "TMinPeriods"
        if "::" in v: raise Unrecognised("%s: path `%s` in a guard" % (who, v))
        c = binding_class(v, text, pos)
        if c == "count": return "TCount"
        if c == "res": return "TRes"
        if c == "var": return "(TVar %d%%nat)" % idx(vars_, v)
        if nullness: return "(TElem %d%%nat)" % idx(elems, v)
        return "(TOther %d%%nat)" % idx(others, v)
    bound = ("TMinPeriods", "TEps", "TZero", "(TNat")
    out = []
    for a in atoms:
        if a[0] == "cmp":
            l, op, r = role(a[1]), a[2], role(a[3])
            if l.startswith(bound) and not r.startswith(bound): l, op, r = r, _FLIP[op], l
            out.append("ACmp %s %s %s" % (l, op, r))
        else:
            out.append("%s %s" % (dict(not_none="ANotNone", is_none="AIsNone", is_some="AIsSome")[a[0]],
                                  role(a[1], nullness=a[0] != "is_some")))
    return out

def coq_guard(g): return "[" + "; ".join(g) + "]"
def coq_guards(gs): return "[" + "; ".join(coq_guard(g) for g in gs) + "]"

def fn_guards(text, who, want=None):
    """resolved guards of every `if` (not `if let`) of the function, with their condition spans"""
    res = []
    for kw, a, b, kind in all_ifs(text, who):
        cond = text[a:b]
        if want is not None and not want(cond): res.append((a, b, None)); continue
        res.append((a, b, resolve_guard(parse_cond(cond, who), text, kw, who)))
    return res

def _occurrences_inside(text, name, spans, who, skip=()):
    """every occurrence of `name` in the body must lie in one of `spans` (or in one of the `skip` spans)"""
    for m in re.finditer(r"(?<![\w.])%s\b" % re.escape(name), text):
        p = m.start()
        if any(a <= p < b for a, b in skip): continue
        if not any(a <= p < b for a, b in spans):
            raise Unrecognised("%s: `%s` is used outside a recognised guard (offset %d: `%s`)" % (who, name, p, text[max(0, p - 30):p + 30]))

def mp_floor(text, body0, who):
    """usize min_periods parameter: the optional rebinding `let min_periods = min_periods.max_with(K);` -> (K, span) / (0, None)"""
    sig = text[:body0]
    if not re.search(r"\bmin_periods\s*:\s*usize\b", sig): raise Unrecognised("%s: no `min_periods: usize` parameter" % who)
    body = text[body0:]
    lets = list(re.finditer(r"\blet\s+(?:mut\s+)?\(?[^=;]*\bmin_periods\b[^=;]*=(?!=)", body))
    if re.search(r"(?<![\w.])min_periods\s*[-+*/%|&^]?=(?!=)", re.sub(r"\blet\s+(mut\s+)?min_periods\b", "let_", body)):
        raise Unrecognised("%s: min_periods is assigned to" % who)
    if not lets: return 0, None
    if len(lets) > 1: raise Unrecognised("%s: min_periods is rebound %d times" % (who, len(lets)))
    m = re.match(r"let\s+min_periods\s*=\s*min_periods\s*\.\s*(?:max_with|max)\(\s*(\d+)\s*\)\s*;", body[lets[0].start():])
    if not m: raise Unrecognised("%s: rebinding of min_periods not recognised" % who)
    if _depth_at(body, lets[0].start()) != 1: raise Unrecognised("%s: `let min_periods` is not at the top level of the body" % who)
    if re.search(r"\bmin_periods\b", body).start() < lets[0].start(): raise Unrecognised("%s: min_periods is used before it is rebound" % who)
    return int(m.group(1)), (body0 + lets[0].start(), body0 + lets[0].start() + m.end())

def parse_eps(repo):
    src = strip_comments(open(os.path.join(repo, "tea-core/src/prelude.rs"), encoding="utf8").read())
    ms = re.findall(r"\bconst\s+EPS\s*:\s*(\w+)\s*=\s*([^;]+);", src)
    if len(ms) != 1 or ms[0][0] != "f64": raise Unrecognised("tea-core/src/prelude.rs: `pub const EPS: f64 = ..;` not found exactly once")
    lit = ms[0][1].strip().replace("_", "")
    m = re.fullmatch(r"(\d+)(?:\.(\d*))?(?:[eE]([-+]?\d+))?(?:f64)?", lit)
    if not m: raise Unrecognised("EPS literal `%s` not recognised" % lit)
    frac = m.group(2) or ""
    mant, exp = int(m.group(1) + frac), int(m.group(3) or 0) - len(frac)
    while mant and mant % 10 == 0: mant //= 10; exp += 1
    return lit, mant, exp, float(lit.replace("f64", "")).hex()

def parse_agg(repo):
    guards, floors = [], []
    for rel, names in ((AGG_CORE, AGG_CORE_FNS), (AGG_EXT, AGG_EXT_FNS)):
        for name in names:
            who = "%s::%s" % (rel, name)
            text = fn_text(repo, rel, name)
            b0 = text.find("{")
            if b0 < 0: raise Unrecognised("%s: no body" % who)
            skip = []
            if re.search(r"\bmin_periods\b", text[:b0]):
                k, span = mp_floor(text, b0, who)
                floors.append((name, k))
                if span: skip.append(span)
            gs = fn_guards(text, who)
            spans = [(a, b) for a, b, _ in gs]
            if re.search(r"\bmin_periods\b", text[:b0]): _occurrences_inside(text[b0:], "min_periods", [(a - b0, b - b0) for a, b in spans], who, [(a - b0, b - b0) for a, b in skip])
            _occurrences_inside(text[b0:], "EPS", [(a - b0, b - b0) for a, b in spans], who)
            guards.append((name, [g for _, _, g in gs]))
    # the wrappers: vvar = vmean_var(min_periods).1, vstd = vvar(min_periods).sqrt()
    wraps = []
    for name in ("vvar", "vstd"):
        text = fn_text(repo, AGG_CORE, name)
        body = text[text.find("{"):]
        m = re.fullmatch(r"\{\s*self\s*\.\s*(\w+)\(\s*min_periods\s*\)\s*\.\s*(1|sqrt\(\s*\))\s*\}", body)
        if not m or not re.search(r"\bmin_periods\s*:\s*usize\b", text[:text.find("{")]): raise Unrecognised("%s::%s: body `%s` not recognised" % (AGG_CORE, name, body))
        wraps.append((name, "WSnd" if m.group(2) == "1" else "WSqrt", m.group(1)))
    return guards, floors, wraps

# ---- vquantile / vpercentile_of ----------------------------------------------------------------------------------------
def parse_quantile(repo):
    who = AGG_VEC + "::vquantile"
    text = fn_text(repo, AGG_VEC, "vquantile")
    def bad(why): raise Unrecognised("%s: %s" % (who, why))
    m = re.search(r"\blet\s+\(\s*(\w+)\s*,\s*(\w+)\s*,\s*(\w+)\s*,\s*(\w+)\s*,\s*(\w+)\s*\)\s*=\s*if\s+(\w+)\s*(<=|<|>=|>)\s*0\.5\s*\{", text)
    if not m or len(re.findall(r"\blet\s+\(\s*\w+\s*,\s*\w+\s*,\s*\w+\s*,\s*\w+\s*,\s*\w+\s*\)\s*=", text)) != 1: bad("`let (q, i, j, vi, vj) = if q <= 0.5 {` not found exactly once")
    q, i, j, vi, vj, q0, qop = m.groups()
    if q0 != q or not re.search(r"\b%s\s*:\s*f64\b" % q, text[:text.find("{")]): bad("the branch test is not on the parameter q")
    # the two blocks of the `if q <= 0.5 { A } else { B };`
    a0 = m.end() - 1; a1 = _match_close(text, a0, "{", "}")
    me = re.match(r"\s*else\s*\{", text[a1 + 1:])
    if not me: bad("no else block after the ascending branch")
    b0 = a1 + 1 + me.end() - 1; b1 = _match_close(text, b0, "{", "}")
    asc, desc, rest = text[a0:a1 + 1], text[b0:b1 + 1], text[b1 + 1:]
    # both blocks end in the tuple (q, i, j, vi, <m>.clone().cast()) inside `if i != j { .. } else { return Ok(<m>.clone().cast()); }`
    tup = r"\(\s*%s\s*,\s*%s\s*,\s*%s\s*,\s*%s\s*,\s*(\w+)\s*\.\s*clone\(\s*\)\s*\.\s*cast\(\s*\)\s*\)\s*\}" % (q, i, j, vi)
    sel = r"\blet\s+\(\s*(\w+)\s*,\s*(\w+)\s*,\s*\w+\s*\)\s*=\s*\w+\s*\.\s*select_nth_unstable_by\(\s*%s\s*,\s*\|\s*(\w+)\s*,\s*(\w+)\s*\|\s*\3\s*\.\s*(sort_cmp|sort_cmp_rev)\(\s*\4\s*\)\s*\)\s*;" % j
    info = []
    for nm, blk in (("ascending", asc), ("descending", desc)):
        ts, ss = re.findall(tup, blk), list(re.finditer(sel, blk))
        if len(ts) != 1 or len(ss) != 1: bad("%s branch: tuple / select_nth_unstable_by not found exactly once" % nm)
        head, mm, cmpf = ss[0].group(1), ss[0].group(2), ss[0].group(5)
        if ts[0] != mm: bad("%s branch: the fifth component is not the selected element" % nm)
        mv = re.search(r"\blet\s+%s\s*:\s*f64\s*=\s*%s\s*\.\s*titer\(\s*\)\s*\.\s*(vmax|vmin)\(\s*\)\s*\.\s*map\(\s*\|\s*(\w+)\s*\|\s*\2\s*\.\s*f64\(\s*\)\s*\)\s*\.\s*cast\(\s*\)\s*;" % (vi, head), blk)
        if not mv: bad("%s branch: `let vi: f64 = head.titer().vmax()/vmin()..` not recognised" % nm)
        gi = re.findall(r"\bif\s+%s\s*(!=|==)\s*%s\s*\{" % (i, j), blk)
        if gi != ["!="]: bad("%s branch: `if i != j` not found exactly once" % nm)
        if len(re.findall(r"\belse\s*\{\s*return\s+Ok\(\s*%s\s*\.\s*clone\(\s*\)\s*\.\s*cast\(\s*\)\s*\)\s*;\s*\}" % mm, blk)) != 1: bad("%s branch: the i == j return is not `Ok(m.clone().cast())`" % nm)
        info.append((cmpf, mv.group(1), mm))
    # 1 - q in the descending branch only
    if not re.search(r"\blet\s+%s\s*=\s*1\.\s*-\s*%s\s*;" % (q, q), desc) or re.search(r"\blet\s+%s\b" % q, asc): bad("`let q = 1. - q;` must open the descending branch only")
    # early returns of the descending branch: one `match method { .. }` with arms returning
    def arms_of(blk, what):
        ms = list(re.finditer(r"\bmatch\s+method\s*\{", blk))
        if len(ms) != 1: bad("%s: %d `match method` (one expected)" % (what, len(ms)))
        o = ms[0].end() - 1; c = _match_close(blk, o, "{", "}")
        return split_arms(blk[o + 1:c], who)
    def expr_of(e, mm, early):
        e = e.strip()
        if early:
            r = re.fullmatch(r"\{\s*return\s+Ok\(\s*(.*?)\s*\)\s*;\s*\}", e)
            if not r:
                if re.fullmatch(r"\{\s*\}", e): return None
                bad("early arm `%s` not recognised" % e)
            e = r.group(1)
        else:
            r = re.fullmatch(r"Ok\(\s*(.*)\s*\)", e)
            if r: e = r.group(1).strip()
            else:
                r = re.fullmatch(r"\{\s*let\s+\(\s*(\w+)\s*,\s*(\w+)\s*\)\s*=\s*\(\s*%s\s*\.\s*f64\(\s*\)\s*/\s*(\w+)\s*,\s*%s\s*\.\s*f64\(\s*\)\s*/\s*\3\s*\)\s*;\s*let\s+(\w+)\s*=\s*\(\s*%s\s*-\s*\1\s*\)\s*/\s*\(\s*\2\s*-\s*\1\s*\)\s*;\s*Ok\(\s*%s\s*\+\s*\(\s*%s\s*-\s*%s\s*\)\s*\*\s*\4\s*\)\s*\}" % (i, j, q, vi, vj, vi), e)
                if not r: bad("arm `%s` not recognised" % e)
                if not re.search(r"\blet\s+%s\s*=\s*\(\s*\w+\s*-\s*1\s*\)\s*\.\s*f64\(\s*\)\s*;" % r.group(3), text): bad("len_1 is not (n - 1).f64()")
                return "QLinear"
        if e == vi: return "QVi"
        if e == vj and not early: return "QVj"
        if mm and re.fullmatch(r"%s\s*\.\s*clone\(\s*\)\s*\.\s*cast\(\s*\)" % mm, e): return "QVj"     # the selected element IS vj
        if re.fullmatch(r"\(\s*%s\s*\+\s*%s\s*\)\s*/\s*2\.0?" % (vi, vj), e) or re.fullmatch(r"\(\s*%s\s*\+\s*%s\s*\)\s*/\s*2\.0?" % (vj, vi), e): return "QMid"
        bad("interpolation expression `%s` not recognised" % e)
    meth = dict(Linear="Linear", Lower="Lower", Higher="Higher", MidPoint="MidPoint")
    def table(arms, mm, early, what):
        out, default = [], None
        for pat, e in arms:
            pat = re.sub(r"^QuantileMethod::", "", pat.strip())
            if pat == "_":
                if not early or expr_of(e, mm, True) is not None: bad("%s: catch-all arm" % what)
                default = True; continue
            if pat not in meth: bad("%s: arm pattern `%s`" % (what, pat))
            x = expr_of(e, mm, early)
            if x is None: continue
            out.append((meth[pat], x))
        return out
    if re.search(r"\bmatch\s+method\b", asc): bad("the ascending branch has a `match method`")
    early = table(arms_of(desc, "descending branch"), info[1][2], True, "descending branch")
    final = table(arms_of(rest, "final match"), None, False, "final match")
    if sorted(x for x, _ in final) != sorted(meth.values()): bad("the final match does not have exactly the four method arms")
    # count guards: `let n = self.titer().count_valid(); if n == 0 { return Ok(f64::NAN); } else if n == 1 { .. }`
    gs = []
    for kw, a, b, kind in all_ifs(text, who):
        cond = text[a:b]
        if re.search(r"\b(%s|%s|%s)\b" % (i, j, q), cond): continue
        gs.append(resolve_guard(parse_cond(cond, who), text, kw, who))
    m0 = re.search(r"\bif\s+(\w+)\s*==\s*0\s*\{\s*return\s+Ok\(\s*f64::NAN\s*\)\s*;\s*\}\s*else\s+if\s+\1\s*==\s*1\s*\{\s*return\s+Ok\(\s*(\w+)\s*\.\s*titer\(\s*\)\s*\.\s*vfirst\(\s*\)\s*\.\s*unwrap\(\s*\)\s*\.\s*cast\(\s*\)\s*\)\s*;\s*\}", text)
    if not m0: bad("the n == 0 / n == 1 fast paths are not recognised")
    return dict(qop=_CMP[qop], cmp=[x[0] for x in info], head=[x[1] for x in info], early=early, final=final, guards=gs)

def split_arms(body, who):
    """`PAT => EXPR, PAT => EXPR, ..` at bracket depth 0 -> [(pat, expr)]"""
    arms, i, d, start = [], 0, 0, 0
    parts = []
    while i < len(body):
        ch = body[i]
        if ch in "([{": d += 1
        elif ch in ")]}": d -= 1
        elif ch == "," and d == 0: parts.append(body[start:i]); start = i + 1
        elif ch == "}" and d == 0: pass
        i += 1
    parts.append(body[start:])
    for p in parts:
        if not p.strip(): continue
        # a block arm `PAT => { .. }` may be followed by the next arm without a comma
        while p.strip():
            k = p.find("=>")
            if k < 0: raise Unrecognised("%s: match arm `%s` not recognised" % (who, p.strip()))
            pat, rest = p[:k].strip(), p[k + 2:].lstrip()
            if rest.startswith("{"):
                c = _match_close(rest, 0, "{", "}")
                arms.append((pat, rest[:c + 1])); p = rest[c + 1:]
            else:
                arms.append((pat, rest.strip())); p = ""
    return arms

def parse_percentile(repo):
    who = AGG_EXT + "::vpercentile_of"
    text = fn_text(repo, AGG_EXT, "vpercentile_of")
    def bad(why): raise Unrecognised("%s: %s" % (who, why))
    m = re.search(r"\blet\s+\(\s*mut\s+(\w+)\s*,\s*mut\s+(\w+)\s*,\s*mut\s+(\w+)\s*\)\s*=\s*\(\s*0\s*,\s*0\s*,\s*0\s*\)\s*;", text)
    if not m: bad("the three counters are not recognised")
    lt, eq, tot = m.groups()
    # null score -> NaN, before anything is counted
    ms = re.search(r"\blet\s+(\w+)\s*=\s*if\s+(\w+)\s*\.\s*is_none\(\s*\)\s*\{\s*return\s+f64::NAN\s*;\s*\}\s*else\s*\{\s*\2\s*\.\s*unwrap\(\s*\)\s*\}\s*;", text)
    if not ms: bad("the null-score early return is not recognised")
    score = ms.group(1)
    mc = re.search(r"\.\s*for_each\(\s*\|\s*(\w+)\s*\|\s*\{\s*if\s+let\s+Some\(\s*(\w+)\s*\)\s*=\s*\1\s*\.\s*to_opt\(\s*\)\s*\{\s*%s\s*\+=\s*1\s*;\s*if\s+\2\s*(<|<=|>|>=|==|!=)\s*%s\s*\{\s*(\w+)\s*\+=\s*1\s*;\s*\}\s*else\s+if\s+\2\s*(<|<=|>|>=|==|!=)\s*%s\s*\{\s*(\w+)\s*\+=\s*1\s*;\s*\}\s*\}\s*\}\s*\)\s*;" % (tot, score, score), text)
    if not mc: bad("the counting closure is not recognised")
    cname = {lt: "CntLess", eq: "CntEqual"}
    if mc.group(4) not in cname or mc.group(6) not in cname: bad("the counting closure increments an unknown counter")
    counting = [(_CMP[mc.group(3)], cname[mc.group(4)]), (_CMP[mc.group(5)], cname[mc.group(6)])]
    if not re.search(r"\bif\s+%s\s*==\s*0\s*\{\s*return\s+f64::NAN\s*;\s*\}" % tot, text): bad("the empty-series return is not recognised")
    mle = re.search(r"\blet\s+(\w+)\s*=\s*%s\s*\+\s*%s\s*;" % (lt, eq), text)
    if not mle: bad("less_equal_count is not less_than_count + exact_match_count")
    le = mle.group(1)
    ms_ = list(re.finditer(r"\bmatch\s+method\s*\{", text))
    if len(ms_) != 1: bad("`match method` not found exactly once")
    o = ms_[0].end() - 1; c = _match_close(text, o, "{", "}")
    kinds = []
    f = r"\s*\.\s*f64\(\s*\)\s*"
    for pat, e in split_arms(text[o + 1:c], who):
        pat = re.sub(r"^PercentileOfMethod::", "", pat.strip()); e = e.strip()
        if pat not in ("Rank", "Weak", "Strict"): bad("arm pattern `%s`" % pat)
        r = re.fullmatch(r"(\w+)%s/\s*%s%s" % (f, tot, f), e)
        if r:
            num = {le: "PNLessEqual", lt: "PNLess"}.get(r.group(1))
            if not num: bad("arm %s: numerator `%s`" % (pat, r.group(1)))
            kinds.append(("Src" + pat, num, None)); continue
        r = re.fullmatch(r"\{\s*if\s+%s\s*(<|<=|>|>=|==|!=)\s*(\d+)\s*\{\s*let\s+(\w+)\s*=\s*%s\s*\+\s*1\s*;\s*let\s+(\w+)\s*=\s*\3\s*\+\s*\(\s*%s\s*-\s*1\s*\)\s*;\s*\(\s*\(\s*\3\s*\+\s*\4\s*\)%s\*\s*0\.5\s*\)\s*/\s*%s%s\}\s*else\s*\{\s*\(\s*%s\s*\+\s*%s\s*\)%s/\s*%s%s\}\s*\}" % (eq, lt, eq, f, tot, f, lt, eq, f, tot, f), e)
        if not r: bad("arm %s: `%s` not recognised" % (pat, e))
        kinds.append(("Src" + pat, "PNRankAvg", (_CMP[r.group(1)], int(r.group(2)))))
    if sorted(k for k, _, _ in kinds) != ["SrcRank", "SrcStrict", "SrcWeak"]: bad("the match does not have exactly the three kind arms")
    return dict(counting=counting, kinds=kinds)

# ---- rolling closures ----------------------------------------------------------------------------------------------------
def parse_rolling_guards(repo):
    emit, eps, resid = {}, {}, {}
    for f in ROLL_FILES:
        fns = _functions(repo, f)
        for key in fns:
            if not key.startswith("ts_") or "#" in key: continue
            who = "%s::%s" % (f, key)
            text = _blank_strings(fns[key])
            b0 = text.find("{")
            sig, body = text[:b0], text[b0:]
            has_mp = bool(re.search(r"\bmin_periods\s*:", sig))
            ifs = all_ifs(body, who)
            skip = []
            if has_mp:
                ml = re.search(r"\blet\s+min_periods\b[^;]*;", body)
                if not ml: raise Unrecognised("%s: no `let min_periods`" % who)
                skip.append((ml.start(), ml.end()))
            spans_mp, spans_eps, g_mp, g_eps = [], [], [], []
            for kw, a, b, kind in ifs:
                cond = body[a:b]
                is_mp, is_eps = bool(re.search(r"(?<![\w.])min_periods\b", cond)), bool(re.search(r"(?<![\w.])EPS\b", cond))
                if not (is_mp or is_eps): continue
                g = resolve_guard(parse_cond(cond, who), body, kw, who)
                if is_mp: spans_mp.append((a, b)); g_mp.append(g)
                if is_eps: spans_eps.append((a, b)); g_eps.append(g)
            if has_mp: _occurrences_inside(body, "min_periods", spans_mp, who, skip)
            elif re.search(r"\bmin_periods\b", body): raise Unrecognised("%s: min_periods is mentioned but is not a parameter" % who)
            _occurrences_inside(body, "EPS", spans_eps, who)
            if has_mp: emit[key] = g_mp
            eps[key] = g_eps
            if re.match(r"ts_vregx_resid_", key):
                calls = re.findall(r"\)\s*\.\s*(vmean|vstd|vvar|vskew|vkurt|vsum)\(\s*(\d*)\s*\)\s*\}\s*else\s*\{\s*f64::NAN\s*\}", body)
                if len(calls) != 1: raise Unrecognised("%s: the aggregation of the residuals is not recognised" % who)
                resid[key] = (calls[0][0], int(calls[0][1] or 0))
    return emit, eps, resid

# ---- map family: shift / vshift / vdiff / vpct_change ----------------------------------------------------------------------
def parse_pipeline(e, who, names):
    """iterator expression -> Coq `src_pipe` term.  names: dict(len=.., n_abs=.., fill=regex of the fill expression)"""
    e = e.strip().rstrip(",").strip()      # rustfmt's trailing comma of a multi-line argument
    def bad(why): raise Unrecognised("%s: pipeline `%s`: %s" % (who, e[:80], why))
    def cnt(t):
        t = t.strip()
        if t == names["len"]: return "CntLen"
        if t == names["n_abs"]: return "CntNAbs"
        if re.fullmatch(r"%s\s*-\s*%s" % (names["len"], names["n_abs"]), t): return "CntLenMinusNAbs"
        bad("count expression `%s`" % t)
    def args_at(s, i):
        """s[i] == '(' -> (argument text, index after the closing bracket)"""
        c = _match_close(s, i)
        return s[i + 1:c], c + 1
    def split_top(s):
        parts, d, st = [], 0, 0
        for k, ch in enumerate(s):
            if ch in "([{": d += 1
            elif ch in ")]}": d -= 1
            elif ch == "," and d == 0: parts.append(s[st:k]); st = k + 1
        parts.append(s[st:])
        return [p for p in (x.strip() for x in parts) if p]
    # primary
    m = re.match(r"(?:std::iter::|iter::)?repeat_n\s*\(", e)
    if m:
        a, k = args_at(e, m.end() - 1)
        ps = split_top(a)
        if len(ps) != 2 or not re.fullmatch(names["fill"], ps[0]): bad("repeat_n arguments `%s`" % a)
        cur = "(PRepeat %s)" % cnt(ps[1])
    else:
        m = re.match(r"self\b", e)
        if not m: bad("does not start with repeat_n(..) or self")
        cur, k = "PSelf", m.end()
    trust = None
    while k < len(e):
        m = re.match(r"\s*\.\s*(\w+)\s*\(", e[k:])
        if not m: bad("trailing text `%s`" % e[k:k + 40])
        meth = m.group(1)
        a, k = args_at(e, k + m.end() - 1)
        if trust is not None: bad("a method after to_trust")
        if meth == "titer":
            if a.strip() or cur != "PSelf": bad("titer() not on self")
        elif meth == "take": cur = "(PTake %s %s)" % (cur, cnt(a))
        elif meth == "skip": cur = "(PSkip %s %s)" % (cur, cnt(a))
        elif meth == "chain": cur = "(PChain %s %s)" % (cur, parse_pipeline(a, who, names))
        elif meth == "zip": cur = "(PZip %s %s)" % (cur, parse_pipeline(a, who, names))
        elif meth == "map": cur = "(PMap %s %s)" % (parse_closure(a, who, names), cur)
        elif meth == "to_trust":
            if cnt(a) != "CntLen": bad("to_trust(%s)" % a)
            trust = True
        else: bad("method `%s`" % meth)
    return cur

_PCT = {}
def parse_closure(c, who, names):
    c = c.strip()
    m = re.fullmatch(r"\|\s*\(\s*(\w+)\s*,\s*(\w+)\s*\)\s*\|\s*(\w+)\s*-\s*(\w+)", c)
    if m:
        a, b, x, y = m.groups()
        if (x, y) == (b, a): return "CloSubBA"
        if (x, y) == (a, b): return "CloSubAB"
        raise Unrecognised("%s: closure `%s`" % (who, c))
    m = re.fullmatch(r"\|\s*(\w+)\s*\|\s*\1\s*\.\s*cast\(\s*\)", c)
    if m: return "CloCast"
    m = re.fullmatch(r"\|\s*\(\s*(\w+)\s*,\s*(\w+)\s*\)\s*\|\s*\{\s*if\s+(.*?)\s*\{\s*(.*)\s*\}\s*else\s*\{\s*f64::NAN\s*\}\s*\}", c)
    if not m: raise Unrecognised("%s: closure `%s` not recognised" % (who, c[:80]))
    a, b, cond, then = m.groups()
    env = {a: "(TElem 0%nat)", b: "(TElem 1%nat)"}
    outer = resolve_guard(parse_cond(cond, who), c, 0, who, env)
    val = r"%s\s*\.\s*cast\(\s*\)\s*/\s*%s\s*-\s*1\.0?" % (b, a)
    then = then.strip()
    if re.fullmatch(val, then):
        _PCT.setdefault(who, []).append(("CloPctPos", [outer]))
        return "CloPctPos"
    m2 = re.fullmatch(r"let\s+%s\s*:\s*f64\s*=\s*%s\s*\.\s*cast\(\s*\)\s*;\s*if\s+(.*?)\s*\{\s*%s\s*\}\s*else\s*\{\s*f64::NAN\s*\}" % (a, a, val), then)
    if not m2: raise Unrecognised("%s: closure body `%s` not recognised" % (who, then[:80]))
    inner = resolve_guard(parse_cond(m2.group(1), who), c, 0, who, env)
    _PCT.setdefault(who, []).append(("CloPctNeg", [outer, inner]))
    return "CloPctNeg"

def parse_map(repo):
    out, pct = [], []
    for name, rel in MAP_FNS:
        who = "%s::%s" % (rel, name)
        text = fn_text(repo, rel, name)
        def bad(why): raise Unrecognised("%s: %s" % (who, why))
        b0 = text.find("{"); sig, body = text[:b0], text[b0:]
        mn = re.search(r"\b(\w+)\s*:\s*i32\b", sig)
        if not mn or len(re.findall(r":\s*i32\b", sig)) != 1: bad("no single `n: i32` parameter")
        n = mn.group(1)
        ml = re.search(r"\blet\s+(\w+)\s*=\s*self\s*\.\s*len\(\s*\)\s*;", body)
        ma = re.search(r"\blet\s+(\w+)\s*=\s*%s\s*\.\s*unsigned_abs\(\s*\)\s*as\s+usize\s*;" % n, body)
        if not ml or not ma: bad("`let len = self.len(); let n_abs = n.unsigned_abs() as usize;` not recognised")
        ln, na = ml.group(1), ma.group(1)
        for nm in (ln, na):
            if len(re.findall(r"\blet\s+(?:mut\s+)?%s\b" % nm, body)) != 1 or re.search(r"(?<![\w.])%s\s*[-+*/]?=(?!=)" % nm, re.sub(r"\blet\s+%s\b" % nm, "let_", body)): bad("`%s` is rebound" % nm)
        # the fill value
        has_value = bool(re.search(r"\bvalue\s*:", sig))
        mv = re.search(r"\blet\s+value\s*=\s*value\s*\.\s*unwrap_or_else\(\s*\|\s*\|\s*T::none\(\s*\)\s*\)\s*;", body)
        if has_value:
            opt = bool(re.search(r"\bvalue\s*:\s*Option<", sig))
            if opt != bool(mv): bad("the `value` parameter and its defaulting do not fit")
            fill, fill_re = ("FillValueOrNone" if opt else "FillValue"), r"value"
        else:
            if mv or re.search(r"\bvalue\b", body): bad("`value` is used but is not a parameter")
            fill, fill_re = "FillNan", r"f64::NAN"
        names = dict(len=ln, n_abs=na, fill=fill_re)
        # early guard
        mg = re.search(r"\bif\s+(\w+)\s*(<=|<|>=|>)\s*(\w+)\s*\{\s*return\s+Box::new\(\s*(.*?)\s*\)\s*;\s*\}\s*match\s+%s\s*\{" % n, body)
        if not mg: bad("the early guard `if len <= n_abs { return Box::new(repeat_n(.., len)); }` followed by `match n` is not recognised")
        l, op, r = mg.group(1), _CMP[mg.group(2)], mg.group(3)
        if (l, r) == (na, ln): l, op, r = r, _FLIP[op], l
        if (l, r) != (ln, na): bad("the early guard does not compare len with n_abs")
        if mv and mv.start() > mg.start(): bad("the fill value is defaulted after the early guard")
        early = parse_pipeline(mg.group(4), who, names)
        if len(all_ifs(body[:mg.end()], who)) != 1: bad("another `if` before `match n`")
        o = mg.end() - 1; c = _match_close(body, o, "{", "}")
        if body[c + 1:].strip() != "}": bad("text after the match")
        arms = []
        for pat, e in split_arms(body[o + 1:c], who):
            pat = pat.strip()
            mp_ = re.fullmatch(r"(\w+)\s+if\s+(.*)", pat)
            if mp_:
                atoms = parse_cond(mp_.group(2), who)
                if len(atoms) != 1 or atoms[0][0] != "cmp": bad("arm guard `%s`" % pat)
                _, a1, opc, a2 = atoms[0]
                if a1 != ("id", mp_.group(1)) or a2[0] != "int" or int(a2[1]) != 0:
                    if a2 == ("id", mp_.group(1)) and a1[0] == "int" and int(a1[1]) == 0: opc = _FLIP[opc]
                    else: bad("arm guard `%s`" % pat)
                sign = "(SgnCmp %s)" % opc
            elif pat == "_": sign = "SgnRest"
            elif re.fullmatch(r"-?\d+", pat): sign = "(SgnLit (%s))" % pat
            else: bad("arm pattern `%s`" % pat)
            e = e.strip().rstrip(",").strip()
            mb = re.fullmatch(r"Box::new\(\s*(.*?)\s*,?\s*\)", e)
            if not mb: bad("arm `%s` is not Box::new(..)" % e[:60])
            inner = mb.group(1).strip()
            mt = re.fullmatch(r"TrustIter::new\(\s*(.*)\s*,\s*(\w+)\s*,?\s*\)", inner)
            if mt:
                if mt.group(2) != ln: bad("TrustIter::new(.., %s)" % mt.group(2))
                inner = mt.group(1).strip()
            arms.append((sign, parse_pipeline(inner, who, names)))
        if not arms or arms[-1][0] != "SgnRest" or any(s == "SgnRest" for s, _ in arms[:-1]): bad("the catch-all arm must come last, once")
        out.append((name, fill, op, early, arms))
        for kind, gs in _PCT.pop(who, []): pct.append((name, kind, gs))
    return out, pct

def render_agg(eps, agg, quant, perc, roll, maps):
    lit, mant, exp, hexf = eps
    guards, floors, wraps = agg
    emit, epsg, resid = roll
    marms, pct = maps
    def sl(rows): return "  [" + ";\n   ".join(rows) + "]."
    o = ["(* ---- aggregation / rolling-closure / map families (conformance: coq/Proofs/SrcTablesAgg.v) ------------------------",
         "   Guards: conjunctions of atoms over ROLES (identifiers are resolved through their bindings, see tools/gen_tables.py). *)",
         "Inductive src_cmp := CLt | CLe | CGt | CGe | CEq | CNe.",
         "Inductive src_term := TCount | TMinPeriods | TNat (k : nat) | TEps | TZero | TVar (i : nat) | TRes | TElem (i : nat) | TOther (i : nat).",
         "Inductive src_atom := ACmp (l : src_term) (c : src_cmp) (r : src_term) | ANotNone (t : src_term) | AIsNone (t : src_term) | AIsSome (t : src_term).",
         "Definition src_guard := list src_atom.", "",
         "(* `pub const EPS: f64 = %s;` of tea-core/src/prelude.rs: the literal, mantissa * 10^exponent, and the binary64 it denotes *)" % lit,
         'Definition src_eps_literal : string := "%s".' % lit,
         "Definition src_eps_dec : Z * Z := (%s, %s)." % (coq_z(mant), coq_z(exp)),
         "Definition src_eps_float : PrimFloat.float := %s%%float." % hexf, "",
         "(* tea-core/src/agg.rs, tea-agg/src/lib.rs: EVERY `if` of the function (not `if let`), in source order *)",
         "Definition src_agg_guards : list (string * list src_guard) :=",
         sl(['("%s", %s)' % (n, coq_guards(gs)) for n, gs in guards]),
         "(* `let min_periods = min_periods.max_with(K);` (0: min_periods is used as given) *)",
         "Definition src_agg_mp_floor : list (string * nat) :=", sl(['("%s", %d%%nat)' % (n, k) for n, k in floors]),
         "(* vvar = self.vmean_var(min_periods).1, vstd = self.vvar(min_periods).sqrt() *)",
         "Inductive src_wrap := WSnd (callee : string) | WSqrt (callee : string).",
         "Definition src_agg_wrappers : list (string * src_wrap) :=", sl(['("%s", %s "%s")' % w for w in wraps]), "",
         "(* tea-agg/src/vec_valid.rs vquantile.  The branch test `q <op> 0.5`; per branch the comparator handed to",
         "   select_nth_unstable_by and the aggregation of `head` that gives vi; the early returns of the descending branch; the final",
         "   `match method`.  QVj: `vj`, which is the selected element m in both branches (checked by the translator). *)",
         "Inductive src_qmethod := SrcLinear | SrcLower | SrcHigher | SrcMidPoint.",
         "Inductive src_qexpr := QVi | QVj | QMid | QLinear.   (* vi | vj | (vi + vj) / 2. | vi + (vj - vi) * fraction, fraction = (q - i/len_1) / (j/len_1 - i/len_1) *)",
         "Inductive src_sortcmp := SrcSortCmp | SrcSortCmpRev.",
         "Inductive src_headagg := HeadVmax | HeadVmin.",
         "Definition src_quantile_branch_test : src_cmp := %s." % quant["qop"],
         "Definition src_quantile_branches : list (src_sortcmp * src_headagg) :=",
         sl(["(%s, %s)" % (dict(sort_cmp="SrcSortCmp", sort_cmp_rev="SrcSortCmpRev")[c], dict(vmax="HeadVmax", vmin="HeadVmin")[h]) for c, h in zip(quant["cmp"], quant["head"])]),
         "Definition src_quantile_desc_early : list (src_qmethod * src_qexpr) :=", sl(["(Src%s, %s)" % a for a in quant["early"]]),
         "Definition src_quantile_final : list (src_qmethod * src_qexpr) :=", sl(["(Src%s, %s)" % a for a in quant["final"]]),
         "(* the guards of vquantile that do not mention q, i, j *)",
         "Definition src_quantile_guards : list src_guard :=", "  " + coq_guards(quant["guards"]) + ".", "",
         "(* tea-agg/src/lib.rs vpercentile_of: the counting closure (comparison of the element with the score -> counter), the kind table *)",
         "Inductive src_counter := CntLess | CntEqual.",
         "Inductive src_pkind := SrcRank | SrcWeak | SrcStrict.",
         "Inductive src_pnum := PNLess | PNLessEqual | PNRankAvg.   (* numerator over total_count *)",
         "Definition src_percentile_counting : list (src_cmp * src_counter) :=", sl(["(%s, %s)" % c for c in perc["counting"]]),
         "Definition src_percentile_kinds : list (src_pkind * src_pnum * option (src_cmp * nat)) :=",
         sl(["(%s, %s, %s)" % (k, n, "None" if t is None else "Some (%s, %d%%nat)" % t) for k, n, t in perc["kinds"]]), "",
         "(* rolling family: the guards of every `fn ts_*` that mention min_periods (every occurrence lies in one of them) ... *)",
         "Definition src_emit_guards : list (string * list src_guard) :=", sl(['("%s", %s)' % (n, coq_guards(emit[n])) for n in sorted(emit)]),
         "(* ... and those that mention EPS *)",
         "Definition src_eps_guards : list (string * list src_guard) :=", sl(['("%s", %s)' % (n, coq_guards(epsg[n])) for n in sorted(epsg)]),
         "(* reg.rs: the aggregation applied to the residuals, with its literal min_periods *)",
         "Definition src_resid_calls : list (string * (string * nat)) :=", sl(['("%s", ("%s", %d%%nat))' % (n, resid[n][0], resid[n][1]) for n in sorted(resid)]), "",
         "(* tea-map: shift, vshift, vdiff, vpct_change *)",
         "Inductive src_cnt := CntLen | CntNAbs | CntLenMinusNAbs.",
         "Inductive src_clo := CloSubBA | CloSubAB | CloCast | CloPctPos | CloPctNeg.",
         "Inductive src_pipe := PSelf | PRepeat (c : src_cnt) | PTake (p : src_pipe) (c : src_cnt) | PSkip (p : src_pipe) (c : src_cnt)",
         "  | PChain (p q : src_pipe) | PZip (p q : src_pipe) | PMap (f : src_clo) (p : src_pipe).",
         "Inductive src_sign := SgnCmp (c : src_cmp) | SgnLit (z : Z) | SgnRest.   (* `n if n <c> 0`, a literal, `_` *)",
         "Inductive src_fill := FillValue | FillValueOrNone | FillNan.",
         "(* name, fill, operator of the early guard `len <op> n_abs`, what the early guard returns, the arms of `match n` in order *)",
         "Definition src_map_arms : list (string * (src_fill * src_cmp * src_pipe * list (src_sign * src_pipe))) :=",
         sl(['("%s", (%s, %s, %s,\n      [%s]))' % (n, f, op, e, ";\n       ".join("(%s, %s)" % a for a in arms)) for n, f, op, e, arms in marms]),
         "(* the guards of the percentage closures: TElem 0 = a (the lagged side), TElem 1 = b; value b.cast() / a - 1., else NaN *)",
         "Definition src_pct_closures : list (string * src_clo * list src_guard) :=",
         sl(['("%s", %s, %s)' % (n, k, coq_guards(gs)) for n, k, gs in pct]), ""]
    return o


def strip_comments(s):
    s = re.sub(r"//[^\n]*", "", s)
    return re.sub(r"/\*.*?\*/", "", s, flags=re.S)

def parse(repo):
    conv = strip_comments(open(os.path.join(repo, "tea-time/src/convert.rs")).read())
    consts = {}
    for m in re.finditer(r"pub\s+const\s+([A-Z_]+)\s*:\s*i64\s*=\s*([0-9_]+)\s*;", conv):
        consts[m.group(1)] = int(m.group(2).replace("_", ""))
    body = conv[conv.index("fn into_unit"):]
    arms = []
    for m in re.finditer(r"\(\s*(\w+)\s*,\s*(\w+)\s*\)\s*=>\s*DateTime::new\(\s*self\.0\s*(\.div_euclid\(\s*(\w+)\s*\)|\*\s*(\w+)|/\s*(\w+)|\.wrapping_mul\(\s*(\w+)\s*\))\s*\)", body):
        a, b, op = m.group(1), m.group(2), m.group(3)
        if op.startswith(".div_euclid"): kind, k = "OpDivEuclid", m.group(4)
        elif op.startswith("*"): kind, k = "OpMul", m.group(5)
        elif op.startswith("/"): kind, k = "OpDivTrunc", m.group(6)
        else: kind, k = "OpWrapMul", m.group(7)
        arms.append((a, b, kind, k))
    # strictness: every `(Unit, Unit) =>` arm of the match must have been recognised — an arm written in another way must
    # make the translator say "cannot read this" (exit 2: static tie unavailable), never silently drop out of the table
    n_arms = len(re.findall(r"\(\s*(?:Nanosecond|Microsecond|Millisecond|Second)\s*,\s*(?:Nanosecond|Microsecond|Millisecond|Second)\s*\)\s*=>", body))
    if n_arms != len(arms):
        raise SystemExit("gen_tables: into_unit has %d unit-pair arms, %d recognised" % (n_arms, len(arms)))
    guards = dict(same_unit_identity=bool(re.search(r"if\s+U::unit\(\)\s*==\s*T::unit\(\)", body)),
                  nat_guard=bool(re.search(r"else\s+if\s+self\.is_nat\(\)\s*\{\s*DateTime::nat\(\)", body)))
    td = strip_comments(open(os.path.join(repo, "tea-time/src/timedelta.rs")).read())
    units = []
    for m in re.finditer(r"\"(\w+)\"\s*=>\s*(\w+)\s*=\s*(add_i64|add_i32)\(\s*(\w+)\s*,\s*n\s*,\s*(\w+)\s*\)", td):
        name, acc, fn, acc2, k = m.groups()
        if acc != acc2: raise SystemExit("gen_tables: accumulator mismatch in unit arm %s" % name)
        units.append((name, acc, fn, k))
    # strictness (see above): every string-literal arm of the unit match must have been recognised
    i0 = td.find('"ns"')
    blk = td[i0: td.find("unit =>", i0)] if i0 >= 0 and td.find("unit =>", i0) > 0 else ""
    n_unit_arms = len(re.findall(r'"\w+"\s*=>', blk))
    if n_unit_arms != len(units):
        raise SystemExit("gen_tables: TimeDelta::parse has %d unit arms, %d recognised" % (n_unit_arms, len(units)))
    # datetime.rs: the ordered list of formats DateTime::parse tries, and the default format of strftime
    dts = strip_comments(open(os.path.join(repo, "tea-time/src/datetime.rs")).read())
    m = re.search(r"const\s+TIME_RULE_VEC\s*:\s*\[\s*&str\s*;\s*(\d+)\s*\]\s*=\s*\[(.*?)\]\s*;", dts, flags=re.S)
    if not m: raise SystemExit("gen_tables: TIME_RULE_VEC not found")
    rules = re.findall(r'"((?:[^"\\]|\\.)*)"', m.group(2))
    if len(rules) != int(m.group(1)): raise SystemExit("gen_tables: TIME_RULE_VEC length mismatch")
    i = dts.index("fn strftime")
    md = re.search(r'fmt\.unwrap_or\(\s*"((?:[^"\\]|\\.)*)"\s*\)', dts[i:i + 1500])
    if not md: raise SystemExit("gen_tables: default format of strftime not found")
    return consts, arms, guards, units, rules, md.group(1)

def render_rolling(table, origin):
    def b(x): return "true" if x else "false"
    def sh(v): return "MpAbsent" if v[0] == "absent" else "MpShape %s %s %d%%nat" % (b(v[1]), b(v[2]), v[3])
    names = sorted(table)
    return ["(* ---- rolling family: the shape of the effective-min_periods computation of every `fn ts_*` of",
            "   " + ", ".join(ROLL_FILES) + " (sorted by name).",
            "   MpShape clamp_first min_window k:  [let window = min(self.len(), window);]  let min_periods =",
            "   min_periods.unwrap_or(window / 2)[.min(window)][.max(k)];   MpAbsent: the function takes no min_periods. *)",
            "Inductive src_mp_shape := MpShape (clamp_first min_window : bool) (max_k : nat) | MpAbsent.",
            "Definition src_min_periods : list (string * src_mp_shape) :=",
            "  [" + ";\n   ".join('("%s", %s)' % (n, sh(table[n])) for n in names) + "].",
            "(* file each entry was read from *)",
            "Definition src_min_periods_origin : list (string * string) :=",
            "  [" + ";\n   ".join('("%s", "%s")' % (n, origin[n]) for n in names) + "].", ""]

def coq_z(v): return str(v) if v >= 0 else "(%d)" % v

def render(consts, arms, guards, units, rules, dflt, roll=None, agg=None):
    def val(k):
        if re.fullmatch(r"[0-9_]+", k): return int(k.replace("_", ""))
        if k not in consts: raise SystemExit("gen_tables: unknown constant %s" % k)
        return consts[k]
    u = dict(Nanosecond="Nano", Microsecond="Micro", Millisecond="Milli", Second="Sec")
    out = ["(* GENERATED by tools/gen_tables.py from tea-time/src/{convert,timedelta,datetime}.rs and, for the rolling family,",
           "   tea-rolling/src/{features,cmp,norm,binary,reg}.rs and tevec/src/rolling.rs — do not edit.",
           "   Regenerated from the repo's working tree on every run of the C16 / C17 / C18 and C05 / C06 checks. *)",
           "From Coq Require Import Floats ZArith List String.", "From Tevec Require Import Model.Time.",
           "Import ListNotations.", "Open Scope Z_scope.", "Open Scope string_scope.", "",
           "Inductive src_op := OpDivEuclid | OpMul | OpDivTrunc | OpWrapMul.", "",
           "(* `pub const NAME: i64 = value;` of convert.rs, in source order *)",
           "Definition src_consts : list (string * Z) :=", "  [" + ";\n   ".join('("%s", %s)' % (k, coq_z(v)) for k, v in consts.items()) + "].", "",
           "(* the arms `(From, To) => DateTime::new(self.0 <op> K)` of into_unit, in source order, constants resolved *)",
           "Definition src_into_unit : list (tunit * tunit * src_op * Z) :=",
           "  [" + ";\n   ".join("(%s, %s, %s, %s)" % (u[a], u[b], kind, coq_z(val(k))) for a, b, kind, k in arms) + "].", "",
           "Definition src_into_unit_same_unit_is_identity : bool := %s." % ("true" if guards["same_unit_identity"] else "false"),
           "Definition src_into_unit_nat_guard : bool := %s." % ("true" if guards["nat_guard"] else "false"), "",
           "(* the unit arms of TimeDelta::parse: unit text, accumulator it is added to, checked-add function, multiplier *)",
           "Inductive src_acc := AccNsecs | AccSecs | AccMonths.",
           "Inductive src_add := AddI64 | AddI32.",
           "Definition src_parse_units : list (string * src_acc * src_add * Z) :=",
           "  [" + ";\n   ".join('("%s", %s, %s, %s)' % (n, dict(nsecs="AccNsecs", secs="AccSecs", months="AccMonths")[acc],
                                                      dict(add_i64="AddI64", add_i32="AddI32")[fn], coq_z(val(k))) for n, acc, fn, k in units) + "].", "",
           "(* datetime.rs: TIME_RULE_VEC in source order, and the format strftime(None) uses *)",
           "Definition src_time_rules : list string :=", "  [" + ";\n   ".join('"%s"' % r for r in rules) + "].",
           'Definition src_strftime_default : string := "%s".' % dflt, ""]
    if roll is not None: out += render_rolling(*roll)
    if agg is not None: out += render_agg(*agg)
    return "\n".join(out)

GROUPS = ["time", "roll", "agg", "map", "drv"]
def _marker(g): return "(* ==== GROUP %s ==== *)" % g

def _split_groups(text):
    """the text of each group of an existing generated file (by the markers), {} if it has none"""
    out, cur, buf = {}, None, []
    for line in text.split("\n"):
        m = re.match(r"\(\* ==== GROUP (\w+) ==== \*\)$", line)
        if m:
            if cur is not None: out[cur] = "\n".join(buf)
            cur, buf = m.group(1), []
        elif cur is not None:
            buf.append(line)
    if cur is not None: out[cur] = "\n".join(buf)
    return out

def main(argv):
    """Every family group (time units / rolling min_periods shapes / aggregation-closure-map decisions / binning-generators-partition-
    extrema / rolling drivers) is translated on its own.  A group whose source shape is not recognised keeps its last translatable text
    (the file still compiles; the static tie of THAT group is unavailable) while the others are regenerated: exit 3 and a line
    `gen_tables: UNAVAILABLE groups: a,b: reasons`; tools/driver.py escalates only the properties whose conformance files read such a
    group.  Exit 2: nothing usable (no previous file to fall back on, or the time-unit group - which carries the file header - failed)."""
    repo = os.environ.get("TEVEC_REPO", "/repo")
    path = os.path.join(ROOT, "coq", "Gen", "SrcTables.v")
    old = open(path).read() if os.path.exists(path) else None
    oldg = _split_groups(old) if old else {}
    texts, failed, stats = {}, {}, {}
    def attempt(g, f):
        try:
            texts[g] = f()
        except Unrecognised as e:
            failed[g] = str(e)
        except (OSError, ValueError, KeyError, IndexError, AttributeError, TypeError) as e:
            failed[g] = "cannot translate: %r" % (e,)
        except SystemExit as e:
            failed[g] = str(e)
    def g_time():
        consts, arms, guards, units, rules, dflt = parse(repo)
        if len(arms) == 0 or len(units) == 0: raise Unrecognised("no arms / units recognised")
        stats["time"] = "%d consts, %d arms, %d units, %d formats" % (len(consts), len(arms), len(units), len(rules))
        return render(consts, arms, guards, units, rules, dflt, None, None)
    def g_roll():
        roll = parse_rolling(repo)
        stats["roll"] = "%d rolling min_periods shapes" % len(roll[0])
        return "\n".join(render_rolling(*roll))
    def g_agg():
        agg = (parse_eps(repo), parse_agg(repo), parse_quantile(repo), parse_percentile(repo), parse_rolling_guards(repo), parse_map(repo))
        stats["agg"] = "%d aggregation guard lists, %d rolling emit guards, %d map functions" % (len(agg[1][0]), len(agg[4][0]), len(agg[5][0]))
        return "\n".join(render_agg(*agg))
    def g_map():
        import gen_tables_map      # binning / generators / partition / rank / extrema kernels (conformance: Proofs/SrcTablesMap*.v)
        return gen_tables_map.section(repo, sys.modules[__name__])
    def g_drv():
        import gen_tables_drv      # the rolling drivers (conformance: coq/Proofs/SrcTablesDrv.v)
        return "\n".join(gen_tables_drv.section(repo, Unrecognised))
    for g, f in zip(GROUPS, [g_time, g_roll, g_agg, g_map, g_drv]):
        attempt(g, f)
    for g in list(failed):
        if g in oldg and g != "time": texts[g] = oldg[g]
    if any(g not in texts for g in GROUPS):
        print("gen_tables: shape not recognised and nothing to fall back on: %s" % "; ".join("%s: %s" % kv for kv in failed.items())); return 2
    text = "\n".join(_marker(g) + "\n" + texts[g].strip("\n") for g in GROUPS) + "\n"
    if old != text:
        os.makedirs(os.path.dirname(path), exist_ok=True)
        open(path, "w").write(text)
        print("gen_tables: coq/Gen/SrcTables.v regenerated (%s)" % "; ".join(stats.get(g, g) for g in GROUPS if g not in failed))
    if failed:
        print("gen_tables: UNAVAILABLE groups: %s: %s" % (",".join(sorted(failed)), "; ".join("%s: %s" % kv for kv in sorted(failed.items()))))
        return 3
    return 0

if __name__ == "__main__":
    sys.exit(main(sys.argv[1:]))
