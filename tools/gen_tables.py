#!/usr/bin/env python3
"""Translator for the finite constant tables of tea-time and the min_periods shapes of the rolling family (DESIGN 10.2,
"second tie"): regenerates coq/Gen/SrcTables.v from
the Rust SOURCE TEXT of /repo on every run of C16 / C17 / C18 (and C05 / C06), so that `coq/Proofs/SrcTablesOk.v` — theorems stating that
the tables the source spells out are exactly the tables of the hand-written model — is re-checked against what the code says
now.  A changed constant, a swapped arm, div_euclid replaced by `/`, a unit moved to another accumulator: the generated file
changes and the conformance theorem no longer compiles (proof obligation broken -> the check then relies on the
correspondence run to find the failing input).  Deliberately tiny and strict: if the source no longer has the expected
shape the translator fails loudly (exit 2) rather than guess.

  tea-time/src/convert.rs   `pub const NAME: i64 = <int>;`  and the 12 arms  `(A, B) => DateTime::new(self.0.div_euclid(K))`
                            / `DateTime::new(self.0 * K)`  of `into_unit`
  tea-time/src/timedelta.rs the unit arms  `"ns" => nsecs = add_i64(nsecs, n, K)...`  of `TimeDelta::parse`
  tea-time/src/datetime.rs  `const TIME_RULE_VEC: [&str; N] = [...]` (formats DateTime::parse tries, in order) and the default
                            format of `strftime`

Rolling family (C05 / C06; conformance in coq/Proofs/SrcTablesRoll.v): for every `fn ts_*` of
  tea-rolling/src/{features,cmp,norm,binary,reg}.rs and tevec/src/rolling.rs
the SHAPE of the effective-min_periods computation in the function body (comments stripped first, so a commented-out clamp
is not a clamp):
    [let window = window.min(self.len());  |  let window = min(self.len(), window);]          -> clamp_first
    let min_periods = min_periods.unwrap_or(window / 2)[.min(window)][.max(K)];               -> min_window, K (0 if absent)
or "no min_periods parameter at all" (ts_fdiff).  Exactly one `let min_periods`, at most one `let window`, both at the top
level of the body, no other binding of / assignment to either name; the clamp, if present, must precede the min_periods
line.  Anything else: exit 2.
"""
import os, re, sys
ROOT = os.path.dirname(os.path.dirname(os.path.abspath(__file__)))
sys.path.insert(0, os.path.dirname(os.path.abspath(__file__)))
import anchors

ROLL_FILES = ["tea-rolling/src/features.rs", "tea-rolling/src/cmp.rs", "tea-rolling/src/norm.rs",
              "tea-rolling/src/binary.rs", "tea-rolling/src/reg.rs", "tevec/src/rolling.rs"]

class Unrecognised(Exception):
    pass

def _depth_at(body, pos):
    """brace depth of position `pos` inside `body` (which starts with the opening brace of the function), string literals skipped"""
    d, i = 0, 0
    while i < pos:
        ch = body[i]
        if ch == '"':
            j = i + 1
            while j < len(body) and body[j] != '"': j += 2 if body[j] == "\\" else 1
            i = j
        elif ch == "{": d += 1
        elif ch == "}": d -= 1
        i += 1
    return d

RE_MP = re.compile(r"^min_periods\s*\.\s*unwrap_or\(\s*window\s*/\s*2\s*\)(\s*\.\s*min\(\s*window\s*\))?(\s*\.\s*max\(\s*([0-9_]+)\s*\))?$")
RE_CLAMP = [re.compile(r"^window\s*\.\s*min\(\s*self\s*\.\s*len\(\s*\)\s*\)$"),
            re.compile(r"^(?:std::cmp::|cmp::)?min\(\s*self\s*\.\s*len\(\s*\)\s*,\s*window\s*\)$"),
            re.compile(r"^(?:std::cmp::|cmp::)?min\(\s*window\s*,\s*self\s*\.\s*len\(\s*\)\s*\)$")]

def mp_shape(fname, name, text, outside):
    """text: normalised `fn name ... { ... }` (comments stripped).  Returns ("shape", clamp_first, min_window, k) or ("absent",)"""
    def bad(why): raise Unrecognised("%s::%s: %s" % (fname, name, why))
    b0 = text.find("{")
    if b0 < 0: bad("no body")
    sig, body = text[:b0], text[b0:]
    params = re.findall(r"\bmin_periods\s*:\s*([^,)]+)", sig)
    if not params:
        if re.search(r"\bmin_periods\b", text): bad("min_periods is mentioned but is not a parameter")
        if re.search(r"\blet\s+(mut\s+)?window\b", body) or re.search(r"\bwindow\s*[-+*/%|&^]?=[^=]", body):
            bad("window is rebound in a function without min_periods")
        return ("absent",)
    if len(params) != 1 or params[0].strip() != "Option<usize>": bad("min_periods parameter is not `Option<usize>`: %r" % (params,))
    if not re.search(r"\bwindow\s*:\s*usize\b", sig): bad("no `window: usize` parameter")
    # every binding of / assignment to the two names
    lets = [(m.start(2), m.group(2), m.group(3), bool(m.group(1))) for m in
            re.finditer(r"\blet\s+(mut\s+)?(min_periods|window)\b\s*(?::[^=;]*)?=\s*([^;]*);", body)]
    nlet = len(re.findall(r"\blet\s+(?:mut\s+)?\(?[^=;]*\b(min_periods|window)\b[^=;]*=[^=]", body))
    if nlet != len(lets): bad("a binding of min_periods / window in an unrecognised form")
    if re.search(r"(?<![.\w])(min_periods|window)\s*(?:[-+*/%|&^]|<<|>>)?=[^=]", re.sub(r"\blet\s+(mut\s+)?(min_periods|window)\b", "let_", body)):
        bad("min_periods / window is assigned to")
    for pos, nm, expr, mut in lets:
        if mut: bad("`let mut %s`" % nm)
        if _depth_at(body, pos) != 1: bad("`let %s` is not at the top level of the body" % nm)
    mps = [l for l in lets if l[1] == "min_periods"]
    wins = [l for l in lets if l[1] == "window"]
    if len(mps) != 1: bad("%d `let min_periods` statements (exactly one expected)" % len(mps))
    if len(wins) > 1: bad("%d `let window` statements (at most one expected)" % len(wins))
    m = RE_MP.match(mps[0][2].strip())
    if not m: bad("min_periods expression not recognised: `%s`" % mps[0][2].strip())
    min_window = m.group(1) is not None
    k = int(m.group(3).replace("_", "")) if m.group(2) else 0
    clamp = False
    if wins:
        e = wins[0][2].strip()
        which = [i for i, r in enumerate(RE_CLAMP) if r.match(e)]
        if not which: bad("window expression not recognised: `%s`" % e)
        if which[0] > 0 and not e.startswith(("std::cmp::", "cmp::")):
            imported = bool(re.search(r"\buse\s+std::cmp::min\s*;", outside)) or any(
                "min" in [x.strip() for x in grp.split(",")] for grp in re.findall(r"\buse\s+std::cmp::\{([^}]*)\}\s*;", outside))
            if not imported: bad("`min(..)` is used for the clamp but std::cmp::min is not imported under that name")
            if re.search(r"\b(let\s+(mut\s+)?|fn\s+)min\b", body[:wins[0][0]]): bad("`min` is shadowed before the clamp")
        if wins[0][0] > mps[0][0]: bad("the window clamp comes AFTER the min_periods line")
        clamp = True
    # the first mention of a (re)bound name in the body must be its recognised `let`
    for l in mps + wins:
        if re.search(r"\b%s\b" % l[1], body).start() != l[0]: bad("%s is used before its `let`" % l[1])
    return ("shape", clamp, min_window, k)

def parse_rolling(repo):
    table, origin = {}, {}
    for f in ROLL_FILES:
        src = open(os.path.join(repo, f), encoding="utf8").read()
        fns = anchors.functions(src)
        outside = fns.get("(outside functions)", "")
        for key, text in fns.items():
            if not key.startswith("ts_"): continue
            if "#" in key or key in table: raise Unrecognised("%s: function %s defined more than once (also in %s)" % (f, key, origin.get(key.split("#")[0], f)))
            table[key] = mp_shape(f, key, text, outside); origin[key] = f
    if not table: raise Unrecognised("no `fn ts_*` found")
    return table, origin

def strip_comments(s):
    s = re.sub(r"//[^\n]*", "", s)
    return re.sub(r"/\*.*?\*/", "", s, flags=re.S)

def parse(repo):
    conv = strip_comments(open(os.path.join(repo, "tea-time/src/convert.rs")).read())
    consts = {}
    for m in re.finditer(r"pub\s+const\s+([A-Z_]+)\s*:\s*i64\s*=\s*([0-9_]+)\s*;", conv):
        consts[m.group(1)] = int(m.group(2).replace("_", ""))
    body = conv[conv.index("fn into_unit"):]
    arms = []
    for m in re.finditer(r"\(\s*(\w+)\s*,\s*(\w+)\s*\)\s*=>\s*DateTime::new\(\s*self\.0\s*(\.div_euclid\(\s*(\w+)\s*\)|\*\s*(\w+)|/\s*(\w+)|\.wrapping_mul\(\s*(\w+)\s*\))\s*\)", body):
        a, b, op = m.group(1), m.group(2), m.group(3)
        if op.startswith(".div_euclid"): kind, k = "OpDivEuclid", m.group(4)
        elif op.startswith("*"): kind, k = "OpMul", m.group(5)
        elif op.startswith("/"): kind, k = "OpDivTrunc", m.group(6)
        else: kind, k = "OpWrapMul", m.group(7)
        arms.append((a, b, kind, k))
    # strictness: every `(Unit, Unit) =>` arm of the match must have been recognised — an arm written in another way must
    # make the translator say "cannot read this" (exit 2: static tie unavailable), never silently drop out of the table
    n_arms = len(re.findall(r"\(\s*(?:Nanosecond|Microsecond|Millisecond|Second)\s*,\s*(?:Nanosecond|Microsecond|Millisecond|Second)\s*\)\s*=>", body))
    if n_arms != len(arms):
        raise SystemExit("gen_tables: into_unit has %d unit-pair arms, %d recognised" % (n_arms, len(arms)))
    guards = dict(same_unit_identity=bool(re.search(r"if\s+U::unit\(\)\s*==\s*T::unit\(\)", body)),
                  nat_guard=bool(re.search(r"else\s+if\s+self\.is_nat\(\)\s*\{\s*DateTime::nat\(\)", body)))
    td = strip_comments(open(os.path.join(repo, "tea-time/src/timedelta.rs")).read())
    units = []
    for m in re.finditer(r"\"(\w+)\"\s*=>\s*(\w+)\s*=\s*(add_i64|add_i32)\(\s*(\w+)\s*,\s*n\s*,\s*(\w+)\s*\)", td):
        name, acc, fn, acc2, k = m.groups()
        if acc != acc2: raise SystemExit("gen_tables: accumulator mismatch in unit arm %s" % name)
        units.append((name, acc, fn, k))
    # strictness (see above): every string-literal arm of the unit match must have been recognised
    i0 = td.find('"ns"')
    blk = td[i0: td.find("unit =>", i0)] if i0 >= 0 and td.find("unit =>", i0) > 0 else ""
    n_unit_arms = len(re.findall(r'"\w+"\s*=>', blk))
    if n_unit_arms != len(units):
        raise SystemExit("gen_tables: TimeDelta::parse has %d unit arms, %d recognised" % (n_unit_arms, len(units)))
    # datetime.rs: the ordered list of formats DateTime::parse tries, and the default format of strftime
    dts = strip_comments(open(os.path.join(repo, "tea-time/src/datetime.rs")).read())
    m = re.search(r"const\s+TIME_RULE_VEC\s*:\s*\[\s*&str\s*;\s*(\d+)\s*\]\s*=\s*\[(.*?)\]\s*;", dts, flags=re.S)
    if not m: raise SystemExit("gen_tables: TIME_RULE_VEC not found")
    rules = re.findall(r'"((?:[^"\\]|\\.)*)"', m.group(2))
    if len(rules) != int(m.group(1)): raise SystemExit("gen_tables: TIME_RULE_VEC length mismatch")
    i = dts.index("fn strftime")
    md = re.search(r'fmt\.unwrap_or\(\s*"((?:[^"\\]|\\.)*)"\s*\)', dts[i:i + 1500])
    if not md: raise SystemExit("gen_tables: default format of strftime not found")
    return consts, arms, guards, units, rules, md.group(1)

def render_rolling(table, origin):
    def b(x): return "true" if x else "false"
    def sh(v): return "MpAbsent" if v[0] == "absent" else "MpShape %s %s %d%%nat" % (b(v[1]), b(v[2]), v[3])
    names = sorted(table)
    return ["(* ---- rolling family: the shape of the effective-min_periods computation of every `fn ts_*` of",
            "   " + ", ".join(ROLL_FILES) + " (sorted by name).",
            "   MpShape clamp_first min_window k:  [let window = min(self.len(), window);]  let min_periods =",
            "   min_periods.unwrap_or(window / 2)[.min(window)][.max(k)];   MpAbsent: the function takes no min_periods. *)",
            "Inductive src_mp_shape := MpShape (clamp_first min_window : bool) (max_k : nat) | MpAbsent.",
            "Definition src_min_periods : list (string * src_mp_shape) :=",
            "  [" + ";\n   ".join('("%s", %s)' % (n, sh(table[n])) for n in names) + "].",
            "(* file each entry was read from *)",
            "Definition src_min_periods_origin : list (string * string) :=",
            "  [" + ";\n   ".join('("%s", "%s")' % (n, origin[n]) for n in names) + "].", ""]

def coq_z(v): return str(v) if v >= 0 else "(%d)" % v

def render(consts, arms, guards, units, rules, dflt, roll=None):
    def val(k):
        if re.fullmatch(r"[0-9_]+", k): return int(k.replace("_", ""))
        if k not in consts: raise SystemExit("gen_tables: unknown constant %s" % k)
        return consts[k]
    u = dict(Nanosecond="Nano", Microsecond="Micro", Millisecond="Milli", Second="Sec")
    out = ["(* GENERATED by tools/gen_tables.py from tea-time/src/{convert,timedelta,datetime}.rs and, for the rolling family,",
           "   tea-rolling/src/{features,cmp,norm,binary,reg}.rs and tevec/src/rolling.rs — do not edit.",
           "   Regenerated from the repo's working tree on every run of the C16 / C17 / C18 and C05 / C06 checks. *)",
           "From Coq Require Import ZArith List String.", "From Tevec Require Import Model.Time.",
           "Import ListNotations.", "Open Scope Z_scope.", "Open Scope string_scope.", "",
           "Inductive src_op := OpDivEuclid | OpMul | OpDivTrunc | OpWrapMul.", "",
           "(* `pub const NAME: i64 = value;` of convert.rs, in source order *)",
           "Definition src_consts : list (string * Z) :=", "  [" + ";\n   ".join('("%s", %s)' % (k, coq_z(v)) for k, v in consts.items()) + "].", "",
           "(* the arms `(From, To) => DateTime::new(self.0 <op> K)` of into_unit, in source order, constants resolved *)",
           "Definition src_into_unit : list (tunit * tunit * src_op * Z) :=",
           "  [" + ";\n   ".join("(%s, %s, %s, %s)" % (u[a], u[b], kind, coq_z(val(k))) for a, b, kind, k in arms) + "].", "",
           "Definition src_into_unit_same_unit_is_identity : bool := %s." % ("true" if guards["same_unit_identity"] else "false"),
           "Definition src_into_unit_nat_guard : bool := %s." % ("true" if guards["nat_guard"] else "false"), "",
           "(* the unit arms of TimeDelta::parse: unit text, accumulator it is added to, checked-add function, multiplier *)",
           "Inductive src_acc := AccNsecs | AccSecs | AccMonths.",
           "Inductive src_add := AddI64 | AddI32.",
           "Definition src_parse_units : list (string * src_acc * src_add * Z) :=",
           "  [" + ";\n   ".join('("%s", %s, %s, %s)' % (n, dict(nsecs="AccNsecs", secs="AccSecs", months="AccMonths")[acc],
                                                      dict(add_i64="AddI64", add_i32="AddI32")[fn], coq_z(val(k))) for n, acc, fn, k in units) + "].", "",
           "(* datetime.rs: TIME_RULE_VEC in source order, and the format strftime(None) uses *)",
           "Definition src_time_rules : list string :=", "  [" + ";\n   ".join('"%s"' % r for r in rules) + "].",
           'Definition src_strftime_default : string := "%s".' % dflt, ""]
    if roll is not None: out += render_rolling(*roll)
    return "\n".join(out)

def main(argv):
    repo = os.environ.get("TEVEC_REPO", "/repo")
    try:
        consts, arms, guards, units, rules, dflt = parse(repo)
        if len(arms) == 0 or len(units) == 0: raise SystemExit("gen_tables: no arms / units recognised")
        roll = parse_rolling(repo)
        text = render(consts, arms, guards, units, rules, dflt, roll)
    except Unrecognised as e:
        print("gen_tables: rolling family, shape not recognised: %s" % (e,)); return 2
    except (OSError, ValueError, KeyError) as e:
        print("gen_tables: cannot translate: %r" % (e,)); return 2
    except SystemExit as e:
        print(str(e)); return 2
    path = os.path.join(ROOT, "coq", "Gen", "SrcTables.v")
    old = open(path).read() if os.path.exists(path) else None
    if old != text:
        os.makedirs(os.path.dirname(path), exist_ok=True)
        open(path, "w").write(text)
        print("gen_tables: coq/Gen/SrcTables.v regenerated (%d consts, %d arms, %d units, %d formats, %d rolling min_periods shapes)" % (len(consts), len(arms), len(units), len(rules), len(roll[0])))
    return 0

if __name__ == "__main__":
    sys.exit(main(sys.argv[1:]))
