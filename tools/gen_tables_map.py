#!/usr/bin/env python3
"""Source-table translator, families binning / unique (C14), generators (C19), partition / rank (C12) and the extrema kernels
(C03).  Called by tools/gen_tables.py (one hunk at the end of its `main`); the section rendered here is appended to
coq/Gen/SrcTables.v, the conformance theorems are in coq/Proofs/SrcTablesMap{,Bin,Gen,Part,Ext}.v.

Technique: TOKEN TEMPLATES.  The body of each function (text from tools/anchors.py: comments stripped, strings blanked) is
cut into Rust tokens and matched, token for token and over its WHOLE length, against a template that is the code as the model
was written against it, in which
    $name          stands for a local identifier (bound at its first occurrence, every later occurrence must be the same
                   identifier, two different $names never bind the same identifier): renaming a local changes nothing;
    ?cmp:k         captures one comparison operator      ?ar:k   one of + - * /        ?int:k  an integer literal
    ?num:k         a numeric literal                     ?id:k   an identifier         ?rng:k  `..` or `..=`
    ?*k            captures a bracket-balanced run of tokens (then read by a smaller template or a tiny parser)
and everything else must be there literally (a trailing comma before a closing bracket is ignored).  The captures are the
DECISIONS that go into the tables.  Anything that does not match — a helper introduced, a statement moved, an operand pair
swapped — raises the translator's `Unrecognised` (exit 2: static tie unavailable, never a violation, never a silent drop).
"""
import os, re, sys

H = None          # the running tools/gen_tables.py module (Unrecognised, fn_text, ...), set by `section`

def bad(who, why):
    raise H.Unrecognised("%s: %s" % (who, why))

# ---- tokens ------------------------------------------------------------------------------------------------------------
_SRC_TOK = re.compile(r'\s*("(?:[^"\\]|\\.)*"|[A-Za-z_]\w*|\d+\.\d+(?:_?f64)?|\d+\.(?![.\w])|\d\w*|::|->|=>|==|!=|<=|>=|&&|\|\||\+=|-=|\*=|/=|\.\.=|\.\.|\S)')
_TPL_TOK = re.compile(r'\s*("(?:[^"\\]|\\.)*"|\$\w+|\?\*\w+|\?\w+:\w+|[A-Za-z_]\w*|\d+\.\d+(?:_?f64)?|\d+\.(?![.\w])|\d\w*|::|->|=>|==|!=|<=|>=|&&|\|\||\+=|-=|\*=|/=|\.\.=|\.\.|\S)')
_CLOSE = (")", "]", "}")

def _tokens(text, rx):
    out, i, text = [], 0, text.strip()
    while i < len(text):
        m = rx.match(text, i)
        if not m or m.end() == i: raise H.Unrecognised("cannot tokenise `%s`" % text[i:i + 30])
        t = m.group(1)
        if t.startswith('"'): t = "STR"
        if t in _CLOSE and out and out[-1] == ",": out.pop()      # rustfmt's trailing comma
        out.append(t); i = m.end()
        while i < len(text) and text[i].isspace(): i += 1
    return out

def src_tokens(text): return _tokens(text, _SRC_TOK)
_TPL_CACHE = {}
def tpl_tokens(t):
    if t not in _TPL_CACHE: _TPL_CACHE[t] = _tokens(t, _TPL_TOK)
    return _TPL_CACHE[t]

_IDENT = re.compile(r"[A-Za-z_]\w*$")
_INT = re.compile(r"\d[\d_]*(?:usize|u32|u64|i32|i64|isize)?$")
_NUM = re.compile(r"\d[\d_]*(?:\.\d*)?(?:_?f64|usize|u32|u64|i32|i64|isize)?$")
_CMPS = {"<": "CLt", "<=": "CLe", ">": "CGt", ">=": "CGe", "==": "CEq", "!=": "CNe"}
_ARS = {"+": "AAdd", "-": "ASub", "*": "AMul", "/": "ADiv"}
_KEYWORDS = {"self", "Some", "None", "Ok", "Err", "if", "else", "let", "mut", "match", "for", "in", "return", "break", "unsafe",
             "move", "as", "true", "false", "Box", "f64", "usize", "i32", "T", "O", "OT", "T2", "Self", "std", "Ordering",
             "window", "min_periods", "EPS"}

def _balanced(toks):
    d = 0
    for t in toks:
        if t in ("(", "[", "{"): d += 1
        elif t in _CLOSE:
            d -= 1
            if d < 0: return False
    return d == 0

def tmatch(tpl, src, env=None):
    """match the token list `src` against the template; returns (env, caps) or None.  env: $name -> identifier"""
    tp = tpl_tokens(tpl) if isinstance(tpl, str) else tpl
    def go(ti, si, env, caps):
        while ti < len(tp):
            t = tp[ti]
            if t.startswith("?*"):
                name = t[2:]
                d = 0
                for k in range(si, len(src) + 1):
                    if k > si:
                        x = src[k - 1]
                        if x in ("(", "[", "{"): d += 1
                        elif x in _CLOSE:
                            d -= 1
                            if d < 0: break
                    if d != 0: continue
                    e2, c2 = dict(env), dict(caps); c2[name] = src[si:k]
                    r = go(ti + 1, k, e2, c2)
                    if r is not None: return r
                return None
            if si >= len(src): return None
            s = src[si]
            if t.startswith("$"):
                name = t[1:]
                if not _IDENT.match(s) or s in _KEYWORDS: return None
                if name in env:
                    if env[name] != s: return None
                else:
                    if s in env.values(): return None
                    env[name] = s
            elif t.startswith("?"):
                kind, name = t[1:].split(":")
                if kind == "cmp":
                    if s not in _CMPS: return None
                    caps[name] = _CMPS[s]
                elif kind == "ar":
                    if s not in _ARS: return None
                    caps[name] = _ARS[s]
                elif kind == "int":
                    if not _INT.match(s): return None
                    caps[name] = int(re.sub(r"[a-z]\w*$|_", "", s))
                elif kind == "num":
                    if not _NUM.match(s): return None
                    caps[name] = s
                elif kind == "id":
                    if not _IDENT.match(s): return None
                    caps[name] = s
                elif kind == "rng":
                    if s not in ("..", "..="): return None
                    caps[name] = "RgIncl" if s == "..=" else "RgExcl"
                else: raise ValueError("template placeholder " + t)
            elif t != s: return None
            ti += 1; si += 1
        return (env, caps) if si == len(src) else None
    return go(0, 0, dict(env or {}), {})

def must(tpl, src, who, what, env=None):
    r = tmatch(tpl, src, env)
    if r is None:
        # where does the literal prefix stop matching?  (diagnostics only)
        tp = tpl_tokens(tpl); k = 0
        while k < len(tp) and k < len(src) and (tp[k] == src[k] or tp[k][0] in "$?") and not tp[k].startswith("?*"): k += 1
        bad(who, "%s not recognised (template stops matching near `%s`)" % (what, " ".join(src[max(0, k - 4):k + 8])))
    return r

def body_of(repo, rel, name, sig_checks=()):
    who = "%s::%s" % (rel, name)
    text = H.fn_text(repo, rel, name)
    b0 = text.find("{")
    if b0 < 0: bad(who, "no body")
    for rx in sig_checks:
        if not re.search(rx, text[:b0]): bad(who, "signature: `%s` not found" % rx)
    return who, src_tokens(text[b0:])

def one_of(toks, forms, who, what, env):
    """the token run must match exactly one of the (template, value) forms under the bindings of env"""
    hits = [v for t, v in forms if tmatch(t, toks, env) is not None]
    if len(hits) != 1: bad(who, "%s `%s` not recognised" % (what, " ".join(toks)[:100]))
    return hits[0]

def num_lit(s, who):
    """a numeric literal -> canonical decimal text ("1", "0.5")"""
    t = re.sub(r"_?f64$|usize$|u32$|u64$|i32$|i64$|isize$|_", "", s)
    try: f = float(t)
    except ValueError: bad(who, "literal `%s`" % s)
    return ("%d" % f) if f == int(f) else repr(f)

def cb(x): return "true" if x else "false"
def cl(rows, ind="  "): return ind + "[" + (";\n" + ind + " ").join(rows) + "]"
def sortcmp(name, who):
    if name not in ("sort_cmp", "sort_cmp_rev"): bad(who, "comparator `%s`" % name)
    return "SrcSortCmp" if name == "sort_cmp" else "SrcSortCmpRev"

# ======================================================================================================================
# (a) C14 — tea-map/src/valid_iter.rs: vcut, vsorted_unique_idx, vsorted_unique
# ======================================================================================================================
VI = "tea-map/src/valid_iter.rs"

T_VCUT_G = r"""{ use itertools::Itertools;
  let bins: Vec<T::Inner> = if add_bounds {
      if ?*g1 { tbail!( func = cut, STR, labels.len(), bins.len() ) }
      ?*edges1
  } else {
      if ?*g2 { tbail!( func = cut, STR, labels.len(), bins.len() ) }
      ?*edges2
  };
  let $nl = labels.len();
  if right { Ok(Box::new(self.map(move |$value| { ?*clo1 }))) } else { Ok(Box::new(self.map(move |$value| { ?*clo2 }))) } }"""
T_VCUT_CLO = r"""if $value.is_none() { Ok(T2::?id:nullres()) } else { let $value = $value.unwrap(); let mut $out = None;
    for ($i, ($bound, $label)) in bins.titer().tuple_windows::<(T::Inner, T::Inner)>().zip(labels.titer()).enumerate() {
        let $above = (add_bounds && $i == ?int:a0) || $bound.?int:ab ?cmp:ac $value;
        let $below = (add_bounds && $i + ?int:b0 == $nl) || $value ?cmp:bc $bound.?int:bb;
        if $above && $below { $out = Some($label.clone()); break; } }
    $out.?id:unmatched(|| terr!(func = cut, STR, $value)) }"""

def _len_side(toks, base, who):
    """`labels.len()` / `labels.len() + K` -> K"""
    r = tmatch(base + ".len()", toks)
    if r: return 0
    r = tmatch(base + ".len() + ?int:k", toks)
    if r: return r[1]["k"]
    bad(who, "length expression `%s`" % " ".join(toks))

def parse_vcut(repo):
    who, src = body_of(repo, VI, "vcut", [r"\bright\s*:\s*bool\b", r"\badd_bounds\s*:\s*bool\b", r"\bbins\s*:", r"\blabels\s*:"])
    env, c = must(T_VCUT_G, src, who, "body")
    guards = []
    for ab, g in ((True, c["g1"]), (False, c["g2"])):
        ops = [i for i, t in enumerate(g) if t in _CMPS]
        if len(ops) != 1: bad(who, "label-count guard `%s`" % " ".join(g))
        guards.append((ab, _len_side(g[:ops[0]], "labels", who), _CMPS[g[ops[0]]], _len_side(g[ops[0] + 1:], "bins", who)))
    edges = []
    for ab, e in ((True, c["edges1"]), (False, c["edges2"])):
        r = tmatch("vec![T::Inner::?id:lo()].into_iter().chain(bins.titer().map(IsNone::unwrap)).chain(vec![T::Inner::?id:hi()]).collect()", e)
        if r: edges.append((ab, ["VcSentinel \"%s\"" % r[1]["lo"], "VcBins", "VcSentinel \"%s\"" % r[1]["hi"]])); continue
        if tmatch("bins.titer().map(IsNone::unwrap).collect_trusted_vec1()", e) or tmatch("bins.titer().map(IsNone::unwrap).collect()", e):
            edges.append((ab, ["VcBins"])); continue
        bad(who, "edge vector `%s`" % " ".join(e)[:100])
    tests = []
    for right, clo in ((True, c["clo1"]), (False, c["clo2"])):
        _, k = must(T_VCUT_CLO, clo, who, "closure (right = %s)" % right, {"value": env["value"], "nl": env["nl"]})
        for nm in ("ab", "bb"):
            if k[nm] not in (0, 1): bad(who, "bound.%d" % k[nm])
        tests.append((right, k))
    return dict(guards=guards, edges=edges, tests=tests)

T_UIDX = r"""{ match keep {
    Keep::First => { let mut $last = None;
        let $out = ?*f_pipe.filter_map(move |($i, $v)| {
            if $v.not_none() { let $v = $v.unwrap(); if $last ?cmp:fc Some($v.clone()) { ?*f_then } else { ?*f_else } } else { ?*f_null } });
        Box::new($out) },
    Keep::Last => { let mut $iter = self.into_iter(); let $first = $iter.next();
        let mut $last = if let Some($v) = $first { if $v.not_none() { Some($v.unwrap()) } else { None } } else { None };
        let $out = $iter?*l_pipe.filter_map(move |($i, $v)| {
            if $v.not_none() { let $v = $v.unwrap(); if $last ?cmp:lc Some($v.clone()) { ?*l_then } else { ?*l_else } } else { ?*l_null } });
        Box::new($out) } } }"""
UQ_ACTS = [("None", "(UqEmitNone, UqKeep)"),
           ("$last = Some($v); Some($i)", "(UqEmitIdx, UqSetValue)"),
           ("let $o = if $last.is_some() { Some($i) } else { None }; $last = Some($v); $o", "(UqEmitIfLastSome, UqSetValue)"),
           ("let $o = if $last.is_some() { Some($i) } else { None }; $last = None; $o", "(UqEmitIfLastSome, UqSetNone)"),
           ("$last = None; None", "(UqEmitNone, UqSetNone)"),
           ("Some($i)", "(UqEmitIdx, UqKeep)")]
T_UNIQ = r"""{ let mut $value: Option<T::Inner> = None;
    self.into_iter().filter_map(move |$v| {
        if $v.not_none() { let $v = $v.unwrap();
            if let Some($lv) = $value.as_ref() { if $v ?cmp:uc $lv.clone() { ?*u_then } else { ?*u_else } } else { ?*u_first } }
        else { None } }) }"""
UV_ACTS = [("None", "(UvEmitNone, UvKeep)"),
           ("$value = Some($v.clone()); Some(T::from_inner($v))", "(UvEmitValue, UvSetValue)"),
           ("Some(T::from_inner($v))", "(UvEmitValue, UvKeep)")]

def parse_unique(repo):
    who, src = body_of(repo, VI, "vsorted_unique_idx", [r"\bkeep\s*:\s*Keep\b"])
    env, c = must(T_UIDX, src, who, "body")
    for k in ("fc", "lc"):
        if c[k] not in ("CEq", "CNe"): bad(who, "the run test is not `==` / `!=`")
    fp = one_of(c["f_pipe"], [("self.into_iter().enumerate()", False), ("self.into_iter().chain(std::iter::once(None)).enumerate()", True)], who, "Keep::First pipeline", env)
    lp = one_of(c["l_pipe"], [(".map(|$v| $v.to_opt()).chain(std::iter::once(None)).enumerate()", True), (".map(|$v| $v.to_opt()).enumerate()", False)], who, "Keep::Last pipeline", env)
    acts = UQ_ACTS + [(t.replace("$o", "$out"), v) for t, v in UQ_ACTS if "$o" in t]     # the inner `out` may shadow the outer one
    act = lambda k: one_of(c[k], acts, who, "action", env)
    idx = [("KeepFirst", "UqInitNone", fp, c["fc"], act("f_then"), act("f_else"), act("f_null")),
           ("KeepLast", "UqInitFirstElement", lp, c["lc"], act("l_then"), act("l_else"), act("l_null"))]
    who2, src2 = body_of(repo, VI, "vsorted_unique")
    env2, c2 = must(T_UNIQ, src2, who2, "body")
    if c2["uc"] not in ("CEq", "CNe"): bad(who2, "the run test is not `==` / `!=`")
    act2 = lambda k: one_of(c2[k], UV_ACTS, who2, "action", env2)
    return dict(idx=idx, uniq=(c2["uc"], act2("u_then"), act2("u_else"), act2("u_first")))

def render_c14(vc, uq):
    o = ["(* ---- (a) C14: tea-map/src/valid_iter.rs (conformance: coq/Proofs/SrcTablesMapBin.v) ---- *)",
         "(* vcut.  Per value of add_bounds: the call returns Err when `labels.len() + k1 <op> bins.len() + k2` *)",
         "Definition src_vcut_count_guards : list (bool * (nat * src_cmp * nat)) :=",
         cl(["(%s, (%d%%nat, %s, %d%%nat))" % (cb(ab), k1, op, k2) for ab, k1, op, k2 in vc["guards"]]) + ".",
         "(* the materialised edge vector: sentinel T::Inner::<name>() / the given edges (unwrapped) *)",
         "Inductive src_vc_part := VcSentinel (name : string) | VcBins.",
         "Definition src_vcut_edges : list (bool * list src_vc_part) :=",
         cl(["(%s, [%s])" % (cb(ab), "; ".join(ps)) for ab, ps in vc["edges"]]) + ".",
         "(* the closure of `if right {..} else {..}`:  above = (add_bounds && i == a0) || bound.<ab> <ac> value,",
         "   below = (add_bounds && i + b0 == n_labels) || value <bc> bound.<bb>;  what a null value yields (`Ok(T2::<f>())`), what",
         "   an unmatched value goes through (`out.<f>(|| terr!(..))`).  Entry: right, (a0, ab, ac), (b0, bc, bb), null, unmatched *)",
         "Definition src_vcut_tests : list (bool * ((nat * nat * src_cmp) * (nat * src_cmp * nat) * string * string)) :=",
         cl(['(%s, ((%d%%nat, %d%%nat, %s), (%d%%nat, %s, %d%%nat), "%s", "%s"))' % (cb(r), k["a0"], k["ab"], k["ac"], k["b0"], k["bc"], k["bb"], k["nullres"], k["unmatched"])
             for r, k in vc["tests"]]) + ".", "",
         "(* vsorted_unique_idx: per arm of `match keep` — how last_value starts, whether the sentinel `.chain(once(None))` is there,",
         "   the run test `last_value <op> Some(v)`, and (what is emitted, what last_value becomes) when the test holds / fails / v is null *)",
         "Inductive src_keep := KeepFirst | KeepLast.",
         "Inductive src_uq_init := UqInitNone | UqInitFirstElement.",
         "Inductive src_uq_emit := UqEmitNone | UqEmitIdx | UqEmitIfLastSome.",
         "Inductive src_uq_set := UqKeep | UqSetValue | UqSetNone.",
         "Definition src_unique_idx : list (src_keep * (src_uq_init * bool * src_cmp * (src_uq_emit * src_uq_set) * (src_uq_emit * src_uq_set) * (src_uq_emit * src_uq_set))) :=",
         cl(["(%s, (%s, %s, %s, %s, %s, %s))" % (k, i, cb(s), op, a, b, n) for k, i, s, op, a, b, n in uq["idx"]]) + ".",
         "(* vsorted_unique: the test `v <op> last_v`, then the actions when it holds / fails / there is no last value yet (a null: skipped) *)",
         "Inductive src_uv_emit := UvEmitNone | UvEmitValue.",
         "Inductive src_uv_set := UvKeep | UvSetValue.",
         "Definition src_sorted_unique : src_cmp * (src_uv_emit * src_uv_set) * (src_uv_emit * src_uv_set) * (src_uv_emit * src_uv_set) :=",
         "  (%s, %s, %s, %s)." % uq["uniq"], ""]
    return o

# ======================================================================================================================
# (b) C19 — tea-core/src/linspace.rs, tea-core/src/create.rs
# ======================================================================================================================
LS = "tea-core/src/linspace.rs"
CR = "tea-core/src/create.rs"
T_NEXT = "{ if self.index ?cmp:c self.len { None } else { let $i = self.index; self.index += ?int:inc; Some(self.start ?ar:o1 self.step ?ar:o2 $i.cast()) } }"
T_NEXT_BACK = "{ if self.index ?cmp:c self.len { None } else { self.len -= ?int:dec; let $i = self.len; Some(self.start ?ar:o1 self.step ?ar:o2 $i.cast()) } }"
T_SIZE_HINT = "{ let $n = self.len ?ar:o self.index; ($n, Some($n)) }"
T_LINSPACE = "{ let step = if n ?cmp:c ?int:k { let $ns = (n - ?int:k2).cast(); (b ?ar:o1 a) ?ar:o2 $ns } else { T::?id:dflt() }; Linspace { start: a, step, index: 0, len: n } }"
T_RANGE = r"""{ let $zero = T::zero();
    let $empty = if step ?cmp:s $zero { b ?cmp:ep a } else { b ?cmp:en a };
    let len = if $empty { 0 } else {
        let $span = b ?ar:o1 a;
        let mut $steps = ($span ?ar:o2 step).?id:rnd();
        let $rest = $span ?ar:o3 $steps ?ar:o4 step;
        if $rest ?cmp:r1 $zero && ($rest ?cmp:r2 $zero) ?cmp:r3 (step ?cmp:r4 $zero) { $steps += T::?id:inc(); }
        $steps.cast() };
    Linspace { start: a, step, len, index: 0 } }"""
T_CRANGE = "{ let start = start.unwrap_or(T::Inner::?id:d1()); let step = step.unwrap_or(T::Inner::?id:d2()); Self::collect_from_trusted(range(start, end, step).map(T::from_inner)) }"
T_CLINSPACE = "{ let start = start.unwrap_or(T::Inner::?id:d1()); Self::collect_from_trusted(linspace(start, end, num).map(T::from_inner)) }"

def parse_c19(repo):
    r = {}
    for key, name, tpl, sig in (("next", "next", T_NEXT, []), ("next_back", "next_back", T_NEXT_BACK, []), ("size_hint", "size_hint", T_SIZE_HINT, []),
                                ("linspace", "linspace", T_LINSPACE, [r"\ba\s*:\s*T\b", r"\bb\s*:\s*T\b", r"\bn\s*:\s*usize\b"]),
                                ("range", "range", T_RANGE, [r"\ba\s*:\s*T\b", r"\bb\s*:\s*T\b", r"\bstep\s*:\s*T\b"])):
        who, src = body_of(repo, LS, name, sig)
        r[key] = must(tpl, src, who, "body")[1]
    if r["range"]["r3"] not in ("CEq", "CNe"): bad(LS + "::range", "the sign test of the remainder is not `==` / `!=`")
    for key, name, tpl, sig in (("crange", "range", T_CRANGE, [r"\bstart\s*:\s*Option<", r"\bend\s*:", r"\bstep\s*:\s*Option<"]),
                                ("clinspace", "linspace", T_CLINSPACE, [r"\bstart\s*:\s*Option<", r"\bend\s*:", r"\bnum\s*:\s*usize\b"])):
        who, src = body_of(repo, CR, name, sig)
        r[key] = must(tpl, src, who, "body")[1]
    return r

def render_c19(r):
    n, nb, sh, li, rg = r["next"], r["next_back"], r["size_hint"], r["linspace"], r["range"]
    return ["(* ---- (b) C19: tea-core/src/linspace.rs, create.rs (conformance: coq/Proofs/SrcTablesMapGen.v) ---- *)",
            "Inductive src_aop := AAdd | ASub | AMul | ADiv.",
            "(* Iterator::next: exhausted when `self.index <op> self.len`; index += k; the element `self.start <o1> self.step <o2> i.cast()` *)",
            "Definition src_ls_next : src_cmp * nat * src_aop * src_aop := (%s, %d%%nat, %s, %s)." % (n["c"], n["inc"], n["o1"], n["o2"]),
            "(* next_back: the same test; len -= k first, then the element at the new len *)",
            "Definition src_ls_next_back : src_cmp * nat * src_aop * src_aop := (%s, %d%%nat, %s, %s)." % (nb["c"], nb["dec"], nb["o1"], nb["o2"]),
            "(* size_hint: `self.len <o> self.index` on usize *)",
            "Definition src_ls_size_hint : src_aop := %s." % sh["o"],
            "(* linspace: step = if n <c> k { (b <o1> a) <o2> (n - k2).cast() } else { T::<dflt>() } *)",
            'Definition src_linspace_step : src_cmp * nat * nat * src_aop * src_aop * string := (%s, %d%%nat, %d%%nat, %s, %s, "%s").' % (li["c"], li["k"], li["k2"], li["o1"], li["o2"], li["dflt"]),
            "(* range: empty = if step <s> zero { b <ep> a } else { b <en> a } *)",
            "Definition src_range_empty : src_cmp * src_cmp * src_cmp := (%s, %s, %s)." % (rg["s"], rg["ep"], rg["en"]),
            "(* span = b <o1> a; steps = (span <o2> step).<rnd>(); rest = span <o3> steps <o4> step *)",
            'Definition src_range_count : src_aop * src_aop * string * src_aop * src_aop := (%s, %s, "%s", %s, %s).' % (rg["o1"], rg["o2"], rg["rnd"], rg["o3"], rg["o4"]),
            "(* if rest <r1> zero && (rest <r2> zero) <r3> (step <r4> zero) { steps += T::<inc>() } *)",
            'Definition src_range_adjust : src_cmp * src_cmp * src_cmp * src_cmp * string := (%s, %s, %s, %s, "%s").' % (rg["r1"], rg["r2"], rg["r3"], rg["r4"], rg["inc"]),
            "(* Vec1Create::range / linspace: the defaults of an omitted start / step *)",
            'Definition src_create_range_defaults : string * string := ("%s", "%s").' % (r["crange"]["d1"], r["crange"]["d2"]),
            'Definition src_create_linspace_default : string := "%s".' % r["clinspace"]["d1"], ""]

# ======================================================================================================================
# (c) C12 — tea-map/src/vec_map.rs: vpartition, varg_partition, vrank
# ======================================================================================================================
VM = "tea-map/src/vec_map.rs"
T_VPART = r"""{ let $n = self.titer().count_valid();
    if ($n ?cmp:g1 kth + ?int:k1) && !sort { return Box::new(self.titer().filter(IsNone::not_none).to_trust(kth + ?int:k1b)); }
    if $n ?cmp:g2 kth + ?int:k2 {
        if !sort { return Box::new( self.titer().filter(IsNone::not_none).chain(?*pad1).take(kth + ?int:t1).to_trust(kth + ?int:t1b) ); }
        else { let mut $vec: Vec<_> = self.titer().collect_trusted_vec1();
               if !rev { $vec.sort_unstable_by(|$a, $b| $a.?id:c1($b)).unwrap(); } else { $vec.sort_unstable_by(|$a, $b| $a.?id:c2($b)).unwrap(); }
               return Box::new( $vec.into_iter().chain(?*pad2).take(kth + ?int:t2).to_trust(kth + ?int:t2b) ); } }
    let mut $outc: Vec<_> = self.titer().collect_trusted_vec1();
    let $sf = if !rev { T::?id:c3 } else { T::?id:c4 };
    $outc.select_nth_unstable_by(?*sel, $sf);
    $outc.truncate(kth + ?int:t3);
    if sort { $outc.sort_unstable_by($sf).unwrap(); }
    Box::new($outc.into_iter().to_trust(kth + ?int:t3b)) }"""
_SORTF = r"""|$a: &i32, $b: &i32| { let ($va, $vb) = unsafe { (self.uget((*$a) as usize), self.uget((*$b) as usize)) }; $va.?id:%s(&$vb) }"""
T_VARGPART = (r"""{ let $n = self.titer().count_valid();
    if $n ?cmp:g2 kth + ?int:k2 {
        if !sort { return Box::new( self.titer().enumerate().filter_map(|($i, $v)| if $v.not_none() { Some($i as i32) } else { None }).chain(std::iter::repeat(- ?int:p1)).take(kth + ?int:t1).to_trust(kth + ?int:t1b) ); }
        else { let mut $idx: Vec<_> = Vec1Create::range(None, self.len() as i32, None);
               if !rev { $idx.sort_unstable_by(""" + _SORTF % "c1" + r""").unwrap() } else { $idx.sort_unstable_by(""" + _SORTF % "c2" + r""").unwrap() }
               return Box::new( $idx.into_iter().take($n).chain(std::iter::repeat(- ?int:p2)).take(kth + ?int:t2).to_trust(kth + ?int:t2b) ); } }
    let mut $outc: Vec<_> = self.titer().collect_trusted_vec1();
    let $slc = $outc.try_as_slice_mut().unwrap();
    let mut $idx: Vec<_> = Vec1Create::range(None, $slc.len() as i32, None);
    if !rev { let $sf = """ + _SORTF % "c3" + r"""; $idx.select_nth_unstable_by(?*sel3, $sf); $idx.truncate(kth + ?int:t3); if sort { $idx.sort_unstable_by($sf).unwrap(); } Box::new($idx.into_iter().to_trust(kth + ?int:t3b)) }
    else { let $sf = """ + _SORTF % "c4" + r"""; $idx.select_nth_unstable_by(?*sel4, $sf); $idx.truncate(kth + ?int:t4); if sort { $idx.sort_unstable_by($sf).unwrap(); } Box::new($idx.into_iter().to_trust(kth + ?int:t4b)) } }""")

def _kth_off(toks, who):
    if tmatch("kth", toks): return 0
    r = tmatch("kth + ?int:k", toks)
    if r: return r[1]["k"]
    bad(who, "index `%s` of select_nth_unstable_by" % " ".join(toks))

def parse_partition(repo):
    sig = [r"\bkth\s*:\s*usize\b", r"\bsort\s*:\s*bool\b", r"\brev\s*:\s*bool\b"]
    who, src = body_of(repo, VM, "vpartition", sig)
    _, c = must(T_VPART, src, who, "body")
    pads = [one_of(c[k], [("std::iter::repeat(T::none())", "PadEager"), ("std::iter::repeat_with(T::none)", "PadLazy"),
                          ("std::iter::repeat_with(|| T::none())", "PadLazy")], who, "padding", {}) for k in ("pad1", "pad2")]
    vp = dict(exact=(c["g1"], c["k1"], c["k1b"]), small=(c["g2"], c["k2"]), arms=[(pads[0], c["t1"], c["t1b"]), (pads[1], c["t2"], c["t2b"])],
              small_dir=[sortcmp(c["c1"], who), sortcmp(c["c2"], who)], dir=[sortcmp(c["c3"], who), sortcmp(c["c4"], who)],
              sel=_kth_off(c["sel"], who), trunc=c["t3"], trust=c["t3b"])
    who, src = body_of(repo, VM, "varg_partition", sig)
    _, c = must(T_VARGPART, src, who, "body")
    va = dict(small=(c["g2"], c["k2"]), arms=[(c["p1"], c["t1"], c["t1b"]), (c["p2"], c["t2"], c["t2b"])],
              small_dir=[sortcmp(c["c1"], who), sortcmp(c["c2"], who)],
              general=[(sortcmp(c["c3"], who), _kth_off(c["sel3"], who), c["t3"], c["t3b"]), (sortcmp(c["c4"], who), _kth_off(c["sel4"], who), c["t4"], c["t4b"])])
    return vp, va

_RK_LOOP = r"""for $i in 0..$len - 1 {
        ($ix, $ix1) = ($idx.uget($i), $idx.uget($i + 1));
        let ($v, $v1) = (self.uget($ix), self.uget($ix1));
        if $v1.is_none() { $sum += $cur; $cur += 1; for $j in 0..$rep { $out.uset($idx.uget($i - $j), (?*avg1).cast()); } $ix = $i + 1; $nan = true; break; }
        else if $v == $v1 { $rep += 1; $sum += $cur; $cur += 1; }
        else if $rep == 1 { $out.uset($ix, (?*one).cast()); $cur += 1; }
        else { $sum += $cur; $cur += 1; for $j in 0..$rep { $out.uset($idx.uget($i - $j), (?*avg2).cast()); } $sum = 0; $rep = 1; } }
    if $nan { for $i in $ix..$len { $out.uset($idx.uget($i), f64::NAN.cast()) } }
    else { $sum += $cur; for $i in $len - $rep..$len { $out.uset($idx.uget($i), (?*avg3).cast()) } }"""
_RK_SORT = r"""$idx.sort_unstable_by(|$a, $b| { let ($va, $vb) = unsafe { (self.uget(*$a), self.uget(*$b)) }; $va.?id:%s(&$vb) }).unwrap();"""
T_VRANK = (r"""{ let $len = self.len();
    if $len == 0 { return O::empty(); }
    else if $len == 1 { let $v = unsafe { self.uget(0) }; return O::full($len, if $v.is_none() { OT::?id:l1null() } else { (?num:l1val).cast() }); }
    let mut $idx: Vec<_> = (0..$len).collect_trusted_to_vec();
    if !rev { """ + _RK_SORT % "c1" + " } else { " + _RK_SORT % "c2" + r""" }
    if unsafe { self.uget($idx.uget(0)) }.is_none() { return O::full($len, OT::none()); }
    let mut $out = O::uninit($len);
    let mut $rep = 1usize; let mut $nan = false; let (mut $cur, mut $sum) = (1usize, 0usize); let mut $ix: usize = 0; let mut $ix1: usize;
    if !pct { unsafe { ?*loopA } } else { let $nn = self.titer().count_valid(); unsafe { ?*loopB } }
    unsafe { $out.assume_init() } }""")

def _rk_expr(toks, env, who):
    """sum.f64() / (rep * nn).f64()   |   cur as f64 / nn as f64   -> Coq src_rk_expr"""
    roles = {env.get("sum"): "RkSum", env.get("rep"): "RkRep", env.get("cur"): "RkCur", env.get("nn"): "RkNotNoneCount"}
    pos = [0]
    def peek(): return toks[pos[0]] if pos[0] < len(toks) else None
    def eat(t):
        if peek() != t: bad(who, "rank expression `%s`" % " ".join(toks))
        pos[0] += 1
    def nat_atom():
        t = peek()
        if t in roles and t is not None: pos[0] += 1; return "(RkN %s)" % roles[t]
        bad(who, "rank expression `%s`: unknown operand `%s`" % (" ".join(toks), t))
    def nat_expr():
        e = nat_atom()
        while peek() == "*": pos[0] += 1; e = "(RkNMul %s %s)" % (e, nat_atom())
        return e
    def term():
        if peek() == "(":
            pos[0] += 1; e = nat_expr(); eat(")")
        else: e = nat_atom()
        if peek() == ".": eat("."); eat("f64"); eat("("); eat(")")
        elif peek() == "as": eat("as"); eat("f64")
        else: bad(who, "rank expression `%s`: an operand is not converted to f64" % " ".join(toks))
        return "(RkF %s)" % e
    e = term()
    while peek() == "/": pos[0] += 1; e = "(RkDiv %s %s)" % (e, term())
    if pos[0] != len(toks): bad(who, "rank expression `%s`" % " ".join(toks))
    return e

def parse_vrank(repo):
    who, src = body_of(repo, VM, "vrank", [r"\bpct\s*:\s*bool\b", r"\brev\s*:\s*bool\b"])
    env, c = must(T_VRANK, src, who, "body")
    loops = []
    for pct, key in ((False, "loopA"), (True, "loopB")):
        e2 = dict(env)
        if not pct: e2.pop("nn", None)
        _, k = must(_RK_LOOP, c[key], who, "loop (pct = %s)" % pct, e2)
        loops.append((pct, [_rk_expr(k[a], e2, who) for a in ("avg1", "avg2", "avg3")], _rk_expr(k["one"], e2, who)))
    return dict(dir=[sortcmp(c["c1"], who), sortcmp(c["c2"], who)], l1null=c["l1null"], l1val=num_lit(c["l1val"], who), loops=loops)

def render_c12(vp, va, rk):
    return ["(* ---- (c) C12: tea-map/src/vec_map.rs vpartition / varg_partition / vrank (conformance: coq/Proofs/SrcTablesMapPart.v) ---- *)",
            "Inductive src_pad := PadEager | PadLazy.     (* repeat(T::none()) | repeat_with(T::none) *)",
            "(* vpartition.  `(n <op> kth + k) && !sort` -> the valid elements as they are, announced as `.to_trust(kth + k')` *)",
            "Definition src_vpartition_exact : src_cmp * nat * nat := (%s, %d%%nat, %d%%nat)." % vp["exact"],
            "(* `n <op> kth + k`: the short path; per value of `sort` (false, true): the padding, the K of `.take(kth + K)` and of `.to_trust(kth + K)` *)",
            "Definition src_vpartition_small : src_cmp * nat := (%s, %d%%nat)." % vp["small"],
            "Definition src_vpartition_small_arms : list (bool * (src_pad * nat * nat)) :=",
            cl(["(%s, (%s, %d%%nat, %d%%nat))" % (cb(s), p, t, tr) for s, (p, t, tr) in zip((False, True), vp["arms"])]) + ".",
            "(* the comparator per value of `rev`, in the sorted short path and in the general path *)",
            "Definition src_vpartition_small_dir : list (bool * src_sortcmp) := [(false, %s); (true, %s)]." % tuple(vp["small_dir"]),
            "Definition src_vpartition_dir : list (bool * src_sortcmp) := [(false, %s); (true, %s)]." % tuple(vp["dir"]),
            "(* general path: select_nth_unstable_by(kth + s, ..); truncate(kth + t); `if sort` sorts what is left; to_trust(kth + t') *)",
            "Definition src_vpartition_select : nat * nat * nat := (%d%%nat, %d%%nat, %d%%nat)." % (vp["sel"], vp["trunc"], vp["trust"]),
            "(* varg_partition.  `n <op> kth + k`; per value of `sort`: the P of `repeat(-P)`, the K of `.take(kth + K)` and of `.to_trust(kth + K)` *)",
            "Definition src_varg_partition_small : src_cmp * nat := (%s, %d%%nat)." % va["small"],
            "Definition src_varg_partition_small_arms : list (bool * (nat * nat * nat)) :=",
            cl(["(%s, (%d%%nat, %d%%nat, %d%%nat))" % (cb(s), p, t, tr) for s, (p, t, tr) in zip((False, True), va["arms"])]) + ".",
            "Definition src_varg_partition_small_dir : list (bool * src_sortcmp) := [(false, %s); (true, %s)]." % tuple(va["small_dir"]),
            "(* general path per value of `rev`: comparator, s of select_nth_unstable_by(kth + s), t of truncate(kth + t), t' of to_trust(kth + t') *)",
            "Definition src_varg_partition_general : list (bool * (src_sortcmp * nat * nat * nat)) :=",
            cl(["(%s, (%s, %d%%nat, %d%%nat, %d%%nat))" % (cb(r), c_, s, t, tr) for r, (c_, s, t, tr) in zip((False, True), va["general"])]) + ".", "",
            "(* vrank: comparator per value of `rev`; the length-1 early return (`OT::<f>()` for a null, else the literal);",
            "   per value of `pct` the three places the average rank of a tie group is written and the rank of a single element *)",
            "Inductive src_rk_role := RkSum | RkRep | RkCur | RkNotNoneCount.",
            "Inductive src_rk_nat := RkN (r : src_rk_role) | RkNMul (a b : src_rk_nat).",
            "Inductive src_rk_expr := RkF (n : src_rk_nat) | RkDiv (a b : src_rk_expr).     (* n.f64() / `n as f64`;  a / b *)",
            "Definition src_vrank_dir : list (bool * src_sortcmp) := [(false, %s); (true, %s)]." % tuple(rk["dir"]),
            'Definition src_vrank_len1 : string * string := ("%s", "%s").' % (rk["l1null"], rk["l1val"]),
            "Definition src_vrank_exprs : list (bool * (list src_rk_expr * src_rk_expr)) :=",
            cl(["(%s, ([%s], %s))" % (cb(p), "; ".join(av), one) for p, av, one in rk["loops"]]) + ".", ""]

# ======================================================================================================================
# (d) C03 — tea-rolling/src/cmp.rs, norm.rs
# ======================================================================================================================
CMP = "tea-rolling/src/cmp.rs"
NORM = "tea-rolling/src/norm.rs"
T_ROLL = "{ ?*hdr self.?id:driver( window, |$p1, $p2 ?*p3| { ?*clo }, out ) }"
T_EXT_CLO = r"""let $v = $v.to_opt();
    unsafe {
        if $v.is_some() { $n += 1; if $mi.is_none() { ?*init } }
        if $mi ?cmp:rs $start {
            let $start = $start.unwrap();
            $m = self.uget($start).to_opt();
            for $i in $start ?rng:rng $end { let $v_ = self.uget($i).to_opt(); match $v_.?id:sc1(&$m) { ?*ords1 => { ($m, $mi) = ($v_, Some($i)); }, _ => {} } } }
        else { match $v.?id:sc2(&$m) { ?*ords2 => { ($m, $mi) = ($v, Some($end)); }, _ => {} } }
        let $out = ?*outexpr;
        if $start.is_some() && self.uget($start.unwrap()).not_none() { $n -= 1; }
        $out }"""
T_EXT_HDR = "let mut $m: Option<T::Inner> = None; let mut $mi: Option<usize> = None; let mut $n = 0;"
EXT_INIT = [("($m, $mi) = ($v, Some($end));", True), ("$mi = Some($end); $m = Some($v.unwrap());", True), ("$m = Some($v.unwrap()); $mi = Some($end);", True)]
T_EXT_OUT = "if $n ?cmp:ge min_periods { $m.cast() } else { None.cast() }"
T_ARG_OUT = ["if $n ?cmp:ge min_periods && $m.is_some() { $mi.map(|%s| (%s - $start.unwrap_or(?int:d) + ?int:p).f64()).unwrap_or(f64::NAN).cast() } else { f64::NAN.cast() }" % (q, q) for q in ("$mi", "$q")]

def _strip_mp_lets(hdr, who):
    """drop the `let window = ..;` / `let min_periods = ..;` statements (validated by the older part of the translator)"""
    out, i = [], 0
    while i < len(hdr):
        if hdr[i] == "let" and i + 1 < len(hdr) and hdr[i + 1] in ("window", "min_periods"):
            while i < len(hdr) and hdr[i] != ";": i += 1
            i += 1
        else: out.append(hdr[i]); i += 1
    return out

def _ords(toks, who):
    names = []
    parts = " ".join(toks).split(" | ")
    for p in parts:
        m = re.fullmatch(r"Ordering :: (Less|Equal|Greater)", p)
        if not m: bad(who, "match pattern `%s`" % " ".join(toks))
        names.append("Ord" + m.group(1))
    if len(set(names)) != len(names): bad(who, "match pattern `%s`" % " ".join(toks))
    return sorted(names, key=["OrdLess", "OrdEqual", "OrdGreater"].index)

def _roll_split(repo, rel, name, driver):
    who, src = body_of(repo, rel, name, [r"\bwindow\s*:\s*usize\b", r"\bmin_periods\s*:\s*Option<usize>"])
    env, c = must(T_ROLL, src, who, "body")
    if c["driver"] != driver: bad(who, "driver `%s`" % c["driver"])
    return who, env, c, _strip_mp_lets(c["hdr"], who)

def parse_ext(repo):
    ext, arg = [], []
    for name, is_arg in (("ts_vmin", False), ("ts_vmax", False), ("ts_vargmin", True), ("ts_vargmax", True)):
        who, env, c, hdr = _roll_split(repo, CMP, name, "rolling_apply_idx")
        p3 = tmatch(", $v", c["p3"])
        if not p3: bad(who, "closure parameters")
        e0 = {"start": env["p1"], "end": env["p2"], "v": p3[0]["v"]}
        e1, _ = must(T_EXT_HDR, hdr, who, "state variables", e0)
        e2, k = must(T_EXT_CLO, c["clo"], who, "closure", e1)
        one_of(k["init"], EXT_INIT, who, "initialisation of the cached extreme", e2)
        if is_arg:
            r = tmatch(T_ARG_OUT[0], k["outexpr"], e2) or must(T_ARG_OUT[1], k["outexpr"], who, "output expression", e2)
            ko = r[1]
            arg.append((name, ko["d"], ko["p"]))
        else:
            _, ko = must(T_EXT_OUT, k["outexpr"], who, "output expression", e2)
        for s in (k["sc1"], k["sc2"]): sortcmp(s, who)
        ext.append((name, k["rs"], k["rng"], sortcmp(k["sc1"], who), _ords(k["ords1"], who), sortcmp(k["sc2"], who), _ords(k["ords2"], who), ko["ge"]))
    return ext, arg

T_TSRANK_HDR = "let $wm1 = window.saturating_sub(?int:s); let mut $n = 0usize;"
T_TSRANK_CLO = r"""let mut $nrep = ?int:r0; let mut $rank = ?num:rk0;
    if $v.not_none() { $n += ?int:ninc; let $v = $v.unwrap();
        for $i in $start.unwrap_or(?int:d) ?rng:rng $end { let $a = unsafe { self.uget($i) };
            if $a.not_none() { let $a = $a.unwrap(); if $a ?cmp:c1 $v { $rank += ?num:inc } else if $a ?cmp:c2 $v { $nrep += ?int:rinc } } } }
    else { $rank = f64::NAN }
    let $out: f64;
    if $n ?cmp:ge min_periods {
        let $res = if !rev { $rank + ?num:h1 * ($nrep - ?int:m1) as f64 } else { ($n + ?int:p) as f64 - $rank - ?num:h2 * ($nrep - ?int:m2) as f64 };
        if pct { $out = $res / $n as f64; } else { $out = $res; } }
    else { $out = f64::NAN; }
    if $end ?cmp:we $wm1 && unsafe { self.uget($start.unwrap()) }.not_none() { $n -= 1; }
    $out.cast()"""

def parse_tsrank(repo):
    who, env, c, hdr = _roll_split(repo, CMP, "ts_vrank", "rolling_apply_idx")
    p3 = tmatch(", $v", c["p3"])
    if not p3: bad(who, "closure parameters")
    e0 = {"start": env["p1"], "end": env["p2"], "v": p3[0]["v"]}
    e1, kh = must(T_TSRANK_HDR, hdr, who, "state variables", e0)
    _, k = must(T_TSRANK_CLO, c["clo"], who, "closure", e1)
    k["s"] = kh["s"]
    for nm in ("rk0", "inc", "h1", "h2"): k[nm] = num_lit(k[nm], who)
    return k

_MM_SCAN_MAX = "if $v.not_none() { let $v = $v.unwrap(); if $v ?cmp:%s $max { ($max, $maxi) = ($v, $i); } }"
_MM_SCAN_MIN = "if $v.not_none() { let $v = $v.unwrap(); if $v ?cmp:%s $min { ($min, $mini) = ($v, $i); } }"
_MM_SCAN_BOTH = "if $v.not_none() { let $v = $v.unwrap(); if $v ?cmp:%s $max { ($max, $maxi) = ($v, $i); } if $v ?cmp:%s $min { ($min, $mini) = ($v, $i); } }"
T_MM_HDR = "let mut $max = T::Inner::?id:i1(); let mut $maxi = 0; let mut $min = T::Inner::?id:i2(); let mut $mini = 0; let mut $n = 0;"
T_MM_CLO = (r"""if let Some($start) = $start {
        match ($maxi ?cmp:x1 $start, $mini ?cmp:x2 $start) {
            (true, false) => { $max = T::Inner::?id:r1(); for $i in $start ?rng:g1 $end { let $v = unsafe { self.uget($i) }; """ + _MM_SCAN_MAX % "s1" + r""" } },
            (false, true) => { $min = T::Inner::?id:r2(); for $i in $start ?rng:g2 $end { let $v = unsafe { self.uget($i) }; """ + _MM_SCAN_MIN % "s2" + r""" } },
            (true, true) => { ($max, $min) = (T::Inner::?id:r3(), T::Inner::?id:r4()); for $i in $start ?rng:g3 $end { let $v = unsafe { self.uget($i) }; """ + _MM_SCAN_BOTH % ("s3", "s4") + r""" } },
            (false, false) => () } }
    let $res = if $v.not_none() { $n += 1; let $v = $v.unwrap();
        if $v ?cmp:u1 $max { ($max, $maxi) = ($v, $end); }
        if $v ?cmp:u2 $min { ($min, $mini) = ($v, $end); }
        if ($n ?cmp:ge min_periods) & ($max ?cmp:ne $min) { (($v - $min).f64() / ($max - $min).f64()).cast() } else { f64::NAN.cast() } }
    else { f64::NAN.cast() };
    if let Some($start) = $start { let $v = unsafe { self.uget($start) }; if $v.not_none() { $n -= 1; } }
    $res""")

def parse_mmnorm(repo):
    who, env, c, hdr = _roll_split(repo, NORM, "ts_vminmaxnorm", "rolling_apply_idx")
    p3 = tmatch(", $v", c["p3"])
    if not p3: bad(who, "closure parameters")
    e0 = {"start": env["p1"], "end": env["p2"], "v": p3[0]["v"]}
    e1, kh = must(T_MM_HDR, hdr, who, "state variables", e0)
    _, k = must(T_MM_CLO, c["clo"], who, "closure", e1)
    k.update(kh)
    for nm in ("i1", "i2", "r1", "r2", "r3", "r4"):
        if k[nm] not in ("min_", "max_"): bad(who, "sentinel `%s`" % k[nm])
    return k

T_ZS_HDR = "let mut $sum = 0.; let mut $sum2 = 0.; let mut $n = 0;"
T_ZS_CLO = r"""let $res = if $v.not_none() { $n += 1; let $v = $v.unwrap().f64(); $sum += $v; $sum2 += $v * $v;
        if $n ?cmp:ge min_periods { let $nf = $n.f64(); let mut $var = $sum2 / $nf; let $mean = $sum / $nf; $var -= $mean.powi(2);
            if $var ?cmp:eps EPS { ($v - $mean) / ($var * $nf / ($n - ?int:dof).f64()).sqrt() } else { f64::NAN } }
        else { f64::NAN } }
    else { f64::NAN };
    if let Some($v) = $vrm { if $v.not_none() { let $v = $v.unwrap().f64(); $n -= 1; $sum -= $v; $sum2 -= $v * $v }; }
    $res.cast()"""

def parse_zscore(repo):
    who, env, c, hdr = _roll_split(repo, NORM, "ts_vzscore", "rolling_apply")
    if c["p3"]: bad(who, "closure parameters")
    e0 = {"vrm": env["p1"], "v": env["p2"]}
    e1, _ = must(T_ZS_HDR, hdr, who, "state variables", e0)
    _, k = must(T_ZS_CLO, c["clo"], who, "closure", e1)
    return k

def render_c03(ext, arg, rk, mm, zs):
    def sent(x): return '"%s"' % x
    return ["(* ---- (d) C03: tea-rolling/src/cmp.rs, norm.rs (conformance: coq/Proofs/SrcTablesMapExt.v) ---- *)",
            "Inductive src_rng := RgExcl | RgIncl.      (* a..b | a..=b *)",
            "Inductive src_ord := OrdLess | OrdEqual | OrdGreater.",
            "(* ts_vmin / ts_vmax / ts_vargmin / ts_vargmax: the rescan condition `idx <op> start`, the range of the rescan loop, the",
            "   comparator and the Ordering patterns under which the scanned element replaces the cached extreme, the same for the",
            "   update with the entering element, and the operator of `n <op> min_periods` *)",
            "Definition src_ext_kernels : list (string * (src_cmp * src_rng * src_sortcmp * list src_ord * src_sortcmp * list src_ord * src_cmp)) :=",
            cl(['("%s", (%s, %s, %s, [%s], %s, [%s], %s))' % (n, rs, rg, s1, "; ".join(o1), s2, "; ".join(o2), ge) for n, rs, rg, s1, o1, s2, o2, ge in ext]) + ".",
            "(* the arg functions emit `idx - start.unwrap_or(d) + p` *)",
            "Definition src_arg_output : list (string * (nat * nat)) :=",
            cl(['("%s", (%d%%nat, %d%%nat))' % a for a in arg]) + ".",
            "(* ts_vrank: a <c1> v -> rank += inc; a <c2> v -> n_repeat += k; start values of rank / n_repeat; the loop range from",
            "   start.unwrap_or(d); `n <ge> min_periods`; res = rank + h1 * (n_repeat - m1) / (n + p) - rank - h2 * (n_repeat - m2);",
            "   the removal test `end <we> w_m1`, w_m1 = window.saturating_sub(s) *)",
            "Definition src_ts_vrank_loop : src_cmp * string * src_cmp * nat * string * nat * nat * src_rng * nat :=",
            '  (%s, "%s", %s, %d%%nat, "%s", %d%%nat, %d%%nat, %s, %d%%nat).' % (rk["c1"], rk["inc"], rk["c2"], rk["rinc"], rk["rk0"], rk["r0"], rk["d"], rk["rng"], rk["ninc"]),
            "Definition src_ts_vrank_out : src_cmp * string * nat * nat * string * nat * src_cmp * nat :=",
            '  (%s, "%s", %d%%nat, %d%%nat, "%s", %d%%nat, %s, %d%%nat).' % (rk["ge"], rk["h1"], rk["m1"], rk["p"], rk["h2"], rk["m2"], rk["we"], rk["s"]),
            "(* ts_vminmaxnorm: start sentinels of max / min; expiry tests `max_idx <x1> start`, `min_idx <x2> start`; per re-search arm the",
            "   sentinel(s), the loop range and the comparison(s) `v <op> max` / `v <op> min`; the update with the entering element; the",
            "   guard `(n <ge> min_periods) & (max <ne> min)` *)",
            "Definition src_mmnorm_init : string * string := (%s, %s)." % (sent(mm["i1"]), sent(mm["i2"])),
            "Definition src_mmnorm_expiry : src_cmp * src_cmp := (%s, %s)." % (mm["x1"], mm["x2"]),
            "Definition src_mmnorm_research : (string * src_rng * src_cmp) * (string * src_rng * src_cmp) * (string * string * src_rng * src_cmp * src_cmp) :=",
            "  ((%s, %s, %s), (%s, %s, %s), (%s, %s, %s, %s, %s))." % (sent(mm["r1"]), mm["g1"], mm["s1"], sent(mm["r2"]), mm["g2"], mm["s2"], sent(mm["r3"]), sent(mm["r4"]), mm["g3"], mm["s3"], mm["s4"]),
            "Definition src_mmnorm_update : src_cmp * src_cmp * src_cmp * src_cmp := (%s, %s, %s, %s)." % (mm["u1"], mm["u2"], mm["ge"], mm["ne"]),
            "(* ts_vzscore: `n <ge> min_periods`, `var <eps> EPS` (else NaN), the sample variance divides by n - dof *)",
            "Definition src_zscore : src_cmp * src_cmp * nat := (%s, %s, %d%%nat)." % (zs["ge"], zs["eps"], zs["dof"]), ""]

# ======================================================================================================================
def section(repo, helpers):
    """the Coq text appended to coq/Gen/SrcTables.v; raises helpers.Unrecognised when a shape is not recognised"""
    global H
    H = helpers
    o = ["", "(* ==== binning / unique (C14), generators (C19), partition / rank (C12), extrema kernels (C03): tools/gen_tables_map.py ==== *)"]
    o += render_c14(parse_vcut(repo), parse_unique(repo))
    o += render_c19(parse_c19(repo))
    vp, va = parse_partition(repo)
    o += render_c12(vp, va, parse_vrank(repo))
    ext, arg = parse_ext(repo)
    o += render_c03(ext, arg, parse_tsrank(repo), parse_mmnorm(repo), parse_zscore(repo))
    return "\n".join(o)
