#!/bin/sh
# tools/retest.sh <seed-id e.g. C06-1> <prop> [props...]: re-run checks against an archived seeded change (quick generators only)
S=$1; shift
git -C /repo status --short | grep -q . && { echo "/repo not clean"; exit 1; }
rm -rf /verif/.build/evidence.bak; cp -a /verif/evidence /verif/.build/evidence.bak   # evidence of a run on a mutated tree must never be committed
git -C /repo apply /verif/seeded/$S/patch.diff || exit 1
for q in "$@"; do
  echo "== $q vs $S (quick generators, no escalation)"
  VERIF_NO_ESCALATE=1 timeout 1800 /verif/check $q --tier quick 2>&1 | grep -E "VIOLATION|^\[C" | head -4
done
git -C /repo checkout -- .
python3 /verif/tools/gen_tables.py >/dev/null   # the generated tables follow the restored source
rm -rf /verif/evidence; mv /verif/.build/evidence.bak /verif/evidence
