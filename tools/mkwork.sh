#!/bin/sh
# tools/mkwork.sh <name>: isolated workspace /work/<name>/{verif,repo} for building one property in parallel.
# verif = git clone of /verif (commit there, merged back with git pull); repo = git worktree of /repo on branch work-<name>.
set -e
N="$1"; W=/work/$N
mkdir -p /work
[ -d "$W" ] && { echo "$W exists"; exit 1; }
mkdir -p "$W"
git clone -q /verif "$W/verif"
git -C /repo worktree add -q "$W/repo" -b "work-$N"
sed -i "s#/repo/#$W/repo/#g" "$W/verif/harness/Cargo.toml"
sed -i "s#/verif/.build/target#$W/verif/.build/target#" "$W/verif/harness/.cargo/config.toml"
sed -i "s#/repo/#$W/repo/#g" "$W/verif/harness-pl/Cargo.toml"
sed -i "s#/verif/#$W/verif/#g" "$W/verif/harness-pl/Cargo.toml" "$W/verif/harness-pl/.cargo/config.toml"
git -C "$W/verif" update-index --assume-unchanged harness/Cargo.toml harness/.cargo/config.toml harness-pl/Cargo.toml harness-pl/.cargo/config.toml
git -C "$W/verif" config user.name builder; git -C "$W/verif" config user.email builder@example.com
echo "$W ready"
