import json, jsonschema, glob, os
ROOT = os.path.dirname(os.path.dirname(os.path.abspath(__file__)))
jsonschema.validate(json.load(open(os.path.join(ROOT, 'MANIFEST.json'))), json.load(open('/root/.vp/MANIFEST.schema.json')))
claimed = {c['property_id'] for c in json.load(open(os.path.join(ROOT, 'MANIFEST.json')))['checks']}
for f in sorted(glob.glob(os.path.join(ROOT, 'evidence', '*.json'))):
    jsonschema.validate(json.load(open(f)), json.load(open('/root/.vp/EVIDENCE.schema.json')))
print('valid; claimed', sorted(claimed))
