#!/usr/bin/env python3
"""tools/coverage.py [Cxx ...] — how much of the anchored Rust text do the correspondence harnesses actually execute?

A measurement of the tie, not a check: the harness crate is built once more with `-C instrument-coverage` (nightly toolchain,
its llvm-tools) into a scratch target directory under /tmp (removed at the end), every property's harness binaries are run at
the quick sizes, and for the files the property is anchored in (properties.jsonl + anchors.EXTRA) the report lists

  * functions that were never compiled into a harness (generic code no harness instantiates, or never called),
  * functions compiled but never executed,
  * the source lines of executed functions that no case reached (with their text).

Written to coverage/Cxx.md and coverage/SUMMARY.md (committed; regenerate after harness changes).  Lines inside
`#[cfg(test)]` modules and the library's own `fn test_*` are skipped.
"""
import os, re, sys, json, subprocess, shutil, glob
ROOT = os.path.dirname(os.path.dirname(os.path.abspath(__file__)))
sys.path.insert(0, os.path.join(ROOT, "tools"))
import anchors as ANCHORS
import props as PROPS
_sib = os.path.join(os.path.dirname(ROOT), "repo")
REPO = os.environ.get("TEVEC_REPO") or (_sib if ROOT != "/verif" and os.path.isdir(_sib) else "/repo")
_tag = "" if ROOT == "/verif" else "-" + os.path.basename(os.path.dirname(ROOT))
TARGET = "/tmp/tevec-cov-target" + _tag
RUN = "/tmp/tevec-cov-run" + _tag
TC = "nightly"

def sh(cmd, **kw):
    return subprocess.run(cmd, stdout=subprocess.PIPE, stderr=subprocess.STDOUT, text=True, **kw)

def llvm_bin():
    r = sh(["rustc", "+" + TC, "--print", "sysroot"]).stdout.strip()
    c = glob.glob(os.path.join(r, "lib", "rustlib", "*", "bin"))
    return c[0]

def fn_ranges(path):
    """[(name, first_line, last_line)] of the `fn` items of a file, test modules skipped (textual, brace-free: a function
    extends to the line before the next `fn` at the same or a lower indentation, or to the end of the file)"""
    lines = open(path, errors="replace").read().split("\n")
    out, in_test, test_indent = [], False, 0
    heads = []
    for i, l in enumerate(lines, 1):
        m = re.match(r"^(\s*)(?:pub(?:\([a-z]+\))?\s+)?(?:const\s+)?(?:unsafe\s+)?fn\s+([A-Za-z_0-9]+)", l)
        if re.match(r"^\s*#\[cfg\(test\)\]", l):
            in_test = True
        if m and not in_test and not m.group(2).startswith("test"):
            heads.append((m.group(2), i, len(m.group(1))))
    for k, (name, start, ind) in enumerate(heads):
        end = len(lines)
        for (n2, s2, i2) in heads[k + 1:]:
            if i2 <= ind:
                end = s2 - 1; break
        # nested fns (deeper indentation) stay inside their parent's range
        out.append((name, start, end))
    return out, lines


def parse_lcov(lcov):
    da, cur = {}, None
    for l in lcov.split("\n"):
        if l.startswith("SF:"): cur = l[3:]; da.setdefault(cur, {})
        elif l.startswith("DA:") and cur:
            ln, cnt = l[3:].split(",")[:2]
            da[cur][int(ln)] = max(da[cur].get(int(ln), 0), int(cnt))
    return da

def report_files(files, da, md, summary, label):
    tot_l = tot_h = 0
    for f in files:
        path = os.path.join(REPO, f)
        if not os.path.exists(path): continue
        d = da.get(os.path.realpath(path), da.get(path, {}))
        ranges, lines = fn_ranges(path)
        absent, dead, partial, full = [], [], [], 0
        for (name, s, e) in ranges:
            inner = {ln: c for ln, c in d.items() if s <= ln <= e}
            if not inner: absent.append("%s (line %d)" % (name, s)); continue
            hit = [ln for ln, c in inner.items() if c > 0]
            tot_l += len(inner); tot_h += len(hit)
            if not hit: dead.append("%s (line %d)" % (name, s)); continue
            miss = sorted(ln for ln, c in inner.items() if c == 0)
            miss = [ln for ln in miss if re.sub(r"[\s{}();,]|else", "", lines[ln - 1])]
            if miss: partial.append((name, s, miss))
            else: full += 1
        md += ["## %s" % f, "",
               "%d functions: %d fully executed, %d partly, %d compiled but never executed, %d never compiled into a harness."
               % (len(ranges), full, len(partial), len(dead), len(absent)), ""]
        if absent: md += ["Never compiled into a harness (no instantiation): " + ", ".join(absent), ""]
        if dead: md += ["Compiled, never executed: " + ", ".join(dead), ""]
        for (name, s, miss) in partial:
            md += ["* `%s` (line %d): lines not reached:" % (name, s)]
            for ln in miss[:12]:
                md += ["    - %d: `%s`" % (ln, lines[ln - 1].strip()[:150])]
            if len(miss) > 12: md += ["    - ... %d more" % (len(miss) - 12)]
        md += [""]
        summary.append((label, f, len(ranges), full, len(partial), len(dead), len(absent)))
    return tot_l, tot_h

def main(argv):
    want = [a for a in argv if re.match(r"C\d+$", a)] or ["C%02d" % i for i in range(1, 21)]
    B = llvm_bin()
    shutil.rmtree(RUN, ignore_errors=True); os.makedirs(RUN)
    env = dict(os.environ, CARGO_TARGET_DIR=TARGET, RUSTFLAGS="-C instrument-coverage --cfg tevec_verif", CARGO_NET_OFFLINE="true",
               LLVM_PROFILE_FILE=os.path.join(RUN, "build-%p.profraw"))   # proc-macros / build scripts are instrumented too
    r = sh(["cargo", "+" + TC, "build", "--offline", "--bins"], cwd=os.path.join(ROOT, "harness"), env=env)
    if r.returncode != 0:
        print(r.stdout[-3000:]); return 1
    os.makedirs(os.path.join(ROOT, "coverage"), exist_ok=True)
    files_of = ANCHORS.anchor_files()
    summary = []
    all_raws, all_bins = [], []
    for prop in want:
        cfg = PROPS.PROPS[prop]
        bins = cfg["bins"]
        raws = []
        for b in bins:
            raw = os.path.join(RUN, "%s-%s.profraw" % (prop, b))
            sh([os.path.join(TARGET, "debug", b), "--seed", "1", "--tier", "quick"], env=dict(os.environ, LLVM_PROFILE_FILE=raw),
               cwd=RUN, timeout=1500)
            if os.path.exists(raw): raws.append(raw)
        pd = os.path.join(RUN, prop + ".profdata")
        sh([os.path.join(B, "llvm-profdata"), "merge", "-sparse"] + raws + ["-o", pd])
        objs = []
        for b in bins: objs += ["-object", os.path.join(TARGET, "debug", b)]
        objs = objs[1:]   # first object is positional
        lcov = sh([os.path.join(B, "llvm-cov"), "export", "-format=lcov", "-instr-profile=" + pd] + objs).stdout
        da = parse_lcov(lcov)
        md = ["# %s — source coverage of the anchored files by the quick correspondence run" % prop, "",
              "Harness binaries: %s (seed 1, quick sizes). Generated by `tools/coverage.py`; a measurement, not a check." % ", ".join(bins), ""]
        tot_l, tot_h = report_files(files_of.get(prop, []) + ANCHORS.EXTRA.get(prop, []), da, md, summary, prop)
        all_raws += raws; all_bins += [b for b in bins if b not in all_bins]
        md += ["Lines of instantiated functions: %d, executed: %d (%.1f %%)." % (tot_l, tot_h, 100.0 * tot_h / max(tot_l, 1))]
        open(os.path.join(ROOT, "coverage", prop + ".md"), "w").write("\n".join(md) + "\n")
        print("%s: %d/%d lines of instantiated anchored functions executed" % (prop, tot_h, tot_l)); sys.stdout.flush()
    if len(want) == 20:
        sm = ["# Source coverage of the anchored files by the quick correspondence runs", "",
              "`tools/coverage.py` (nightly `-C instrument-coverage`, llvm-cov). Per property and anchored file: functions fully "
              "executed / partly / compiled but never executed / never compiled into a harness. Details: coverage/Cxx.md.", "",
              "| property | file | fns | full | partly | never executed | not instantiated |", "|---|---|---|---|---|---|---|"]
        for row in summary: sm.append("| %s | %s | %d | %d | %d | %d | %d |" % row)
        open(os.path.join(ROOT, "coverage", "SUMMARY.md"), "w").write("\n".join(sm) + "\n")
    if len(want) == 20:
        pd = os.path.join(RUN, "ALL.profdata")
        sh([os.path.join(B, "llvm-profdata"), "merge", "-sparse"] + all_raws + ["-o", pd])
        objs = []
        for b in all_bins: objs += ["-object", os.path.join(TARGET, "debug", b)]
        lcov = sh([os.path.join(B, "llvm-cov"), "export", "-format=lcov", "-instr-profile=" + pd] + objs[1:]).stdout
        files = []
        for p in sorted(files_of):
            for f in files_of[p] + ANCHORS.EXTRA.get(p, []):
                if f not in files: files.append(f)
        md = ["# Union — what NO harness reaches", "",
              "All harness binaries of all 20 properties together (seed 1, quick sizes), every file some property is anchored in. "
              "A line listed here is executed by no correspondence case at all: behaviour there is covered by theorems about the "
              "model only, or is outside every property (Display / Debug impls, `unimplemented!` arms, the `dynamic` / serde glue).", ""]
        usum = []
        tl, th = report_files(sorted(files), parse_lcov(lcov), md, usum, "ALL")
        md += ["Lines of instantiated functions: %d, executed: %d (%.1f %%)." % (tl, th, 100.0 * th / max(tl, 1))]
        open(os.path.join(ROOT, "coverage", "UNION.md"), "w").write("\n".join(md) + "\n")
        print("UNION: %d/%d" % (th, tl))
    shutil.rmtree(RUN, ignore_errors=True)
    if os.environ.get("COV_KEEP_TARGET") != "1": shutil.rmtree(TARGET, ignore_errors=True)
    return 0

if __name__ == "__main__":
    sys.exit(main(sys.argv[1:]))
