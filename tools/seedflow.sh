#!/bin/sh
# tools/seedflow.sh <Cxx> <k> [extra props]: confirm a seeded change in its worktree, then run the checks against it
P=$1; K=$2
/verif/tools/confirmseed.sh $P $K > /tmp/confirm-$P-$K.log 2>&1
tail -1 /tmp/confirm-$P-$K.log
grep -q "^CONFIRMED" /tmp/confirm-$P-$K.log || exit 1
/verif/tools/tryseed.sh "$@" 2>&1 | grep -E "^==|VIOLATION|KNOWN|\[C..|not clean|error" 
