"""Per-property configuration of the checks (which harness binaries, which Coq interpreters, what
the evidence says).  The property statements themselves live in properties.jsonl and are not edited."""

TRUSTED_COMMON = [
    "Coq 8.16.1 kernel (coqc, full .vo build); vm_compute used for model evaluation in Run/ and for "
    "closed Examples; native_compute not used",
    "hand-written Gallina model (coq/Model) of the Rust code; tied to /repo by the behavioural "
    "correspondence run of this check (harness built from /repo's working tree by path dependency)",
    "correspondence machinery: harness/ (Rust generators and recorders), tools/driver.py (sharding, "
    "parsing, comparison), coq/Run/Codec.v (cell printers); no extraction, no Extract directives",
]
ASSUMPTIONS_COMMON = [
    "rustc/cargo build of /repo at its current working tree, debug profile (overflow checks on)",
    "Rust std, ndarray, chrono, polars semantics are modelled, not verified (DESIGN.md section 6)",
]

HOOK_COMMITS = []
NOT_CLAIMED = {}
# properties whose check exists but is being adapted (not claimed until it passes on the merged tree)
HOLD = {}

# per-property configuration: tools/propcfg/Cxx.py defines CFG (dict) and optionally
#   compare(cmp, impl_cells, model_cells) -> None | reason   for comparators the driver does not know
import os, glob, importlib.util
PROPS = {}
COMPARATORS = {}
for _f in sorted(glob.glob(os.path.join(os.path.dirname(os.path.abspath(__file__)), "propcfg", "C*.py"))):
    _name = os.path.basename(_f)[:-3]
    _spec = importlib.util.spec_from_file_location("propcfg_" + _name, _f)
    _m = importlib.util.module_from_spec(_spec)
    _spec.loader.exec_module(_m)
    PROPS[_name] = _m.CFG
    if hasattr(_m, "compare"):
        COMPARATORS[_name] = _m.compare
