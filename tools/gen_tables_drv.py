#!/usr/bin/env python3
"""Source-table translator, rolling DRIVERS (DESIGN 10.2, "second tie"; conformance in coq/Proofs/SrcTablesDrv.v).

Called by tools/gen_tables.py (`section(repo, Unrecognised)` returns the Coq text of `Module SrcDrv` appended to
coq/Gen/SrcTables.v).  What is read, from the Rust SOURCE TEXT of the repo working tree (comments stripped):

  tea-core/src/vec_core/cores/view.rs   the twelve `fn rolling*` of trait Vec1View (rolling_custom_iter, rolling_custom, rolling_custom_to,
                                        rolling2_custom, rolling_apply, rolling_apply_to, rolling2_apply, rolling2_apply_to, rolling_apply_idx,
                                        rolling_apply_idx_to, rolling2_apply_idx, rolling2_apply_idx_to)
  tea-core/src/backends_impl/{vec,ndarray,arc}.rs   the overrides of those methods, and the types each impl is instantiated for
  every other .rs file of the workspace must define NO `fn rolling*` (anything else: exit 2)
  harness/src/bin/c02.rs (of the framework)   the three expressions by which the C02 harness decides which body of the model a
                                        backend runs, so that they are proved equal to the routing read from the source

Every function body is PARSED (a small recursive-descent parser for the Rust subset these bodies use) and then evaluated
SYMBOLICALLY: locals are resolved through their bindings (`let len = self.len()` -> the length of self, `let window =
window.min(len)` -> min(window, len), `let (v_rm, v) = (self.uget(start), self.uget(end))` -> the two reads, closure / loop
variables -> their position in the iterator item), so that renaming a local or reordering independent `let`s leaves the table
unchanged, while anything that is not understood raises `Unrecognised` (exit 2: static tie unavailable, never a violation).

The table of a function is (caller-buffer path, returned path); a path is
    DpTo callee fresh          self.<callee>(.., out)            fresh: on `O::uninit(len)` with len = self.len(), then assume_init
    DpIterOf callee sink       self.<callee>(window, f) then written to the buffer / collected
    DpInline stmts sink        the function's own statements, in SOURCE ORDER:
        DsAssert cond msg      assert!(cond, "msg")
        DsReturnIf cond        if cond { return; }
        DsLoop it slot args    the iterator `it` is built HERE (its count expressions are evaluated: an unchecked `window - 1`
                               underflows here) and driven; per item the callback gets `args`; the result goes to `slot`
                               (None: results are collected in iteration order)
    DpDelegate callee          (**self).<callee>(.., out)
"""
import os, re, sys
sys.path.insert(0, os.path.dirname(os.path.abspath(__file__)))
import anchors

ROOT = os.path.dirname(os.path.dirname(os.path.abspath(__file__)))
VIEW = "tea-core/src/vec_core/cores/view.rs"
BACKENDS = [("vec", "tea-core/src/backends_impl/vec.rs"), ("ndarray", "tea-core/src/backends_impl/ndarray.rs"),
            ("arc", "tea-core/src/backends_impl/arc.rs")]
# backends whose impl of Vec1View must exist and define no rolling method (they run the default bodies of view.rs)
PLAIN_BACKENDS = [("vecdeque", "tea-core/src/backends_impl/vecdeque.rs", r"\bimpl\s*<[^{;]*>\s*Vec1View\s*<\s*T\s*>\s*for\s+VecDeque\s*<\s*T\s*>"),
                  ("optiter", "tea-core/src/vec_core/iter.rs", r"\bVec1View\s*<\s*Option\s*<[^{;]*>\s*for\s+OptIter\b")]
VIEW_FNS = ["rolling_custom_iter", "rolling_custom", "rolling_custom_to", "rolling2_custom", "rolling_apply", "rolling_apply_to",
            "rolling2_apply", "rolling2_apply_to", "rolling_apply_idx", "rolling_apply_idx_to", "rolling2_apply_idx",
            "rolling2_apply_idx_to"]
OVERRIDABLE = ["rolling_custom", "rolling_apply", "rolling2_apply", "rolling_apply_idx", "rolling2_apply_idx"]

class _Unrec(Exception):
    pass
Unrec = _Unrec          # replaced by gen_tables.Unrecognised in section()

def bad(who, why):
    raise Unrec("%s: %s" % (who, why))

# ======================================================================================================================
# 1. tokens
# ======================================================================================================================
_TOKEN = re.compile(r"""\s*(?:
    (?P<str>"(?:[^"\\]|\\.)*")
  | (?P<life>'[A-Za-z_]\w*(?!'))
  | (?P<int>\d[\d_]*(?:usize|u32|u64|i32|i64|isize)?)
  | (?P<id>[A-Za-z_]\w*)
  | (?P<op>::|->|=>|\.\.=|\.\.|\|\||&&|>=|<=|==|!=|[-+*/%<>=!&|.,;:(){}\[\]#?@$])
)""", re.X)

def tokenize(text, who):
    toks, i = [], 0
    text = text.rstrip()
    while i < len(text):
        m = _TOKEN.match(text, i)
        if not m or m.end() == i: bad(who, "cannot tokenise near `%s`" % text[i:i + 40])
        k = m.lastgroup
        toks.append((k, m.group(k))); i = m.end()
    return toks

# ======================================================================================================================
# 2. parser (expressions, patterns, blocks) -> tuples
# ======================================================================================================================
class P:
    def __init__(self, toks, who):
        self.t, self.i, self.who = toks, 0, who
    def peek(self, k=0):
        return self.t[self.i + k] if self.i + k < len(self.t) else (None, None)
    def at(self, v, k=0):
        return self.peek(k)[1] == v and self.peek(k)[0] in ("op", "id")
    def next(self):
        t = self.peek(); self.i += 1; return t
    def eat(self, v):
        if not self.at(v): bad(self.who, "expected `%s`, found `%s` (token %d)" % (v, self.peek()[1], self.i))
        self.i += 1
    def ident(self):
        k, v = self.next()
        if k != "id": bad(self.who, "identifier expected, found `%s`" % v)
        return v

    # ---- generics: skip a balanced <...> (turbofish or type arguments)
    def skip_angles(self):
        self.eat("<"); d = 1
        while d:
            k, v = self.next()
            if k is None: bad(self.who, "unbalanced `<`")
            if v == "<": d += 1
            elif v == ">": d -= 1
            elif v == "->": pass

    # ---- patterns
    def pattern(self):
        if self.at("("):
            self.eat("("); ps = []
            while not self.at(")"):
                ps.append(self.pattern())
                if self.at(","): self.eat(",")
            self.eat(")")
            return ("ptuple", ps) if len(ps) != 1 else ps[0]
        if self.at("_"): self.next(); return ("pwild",)
        mut = False
        if self.at("mut"): self.next(); mut = True
        name = self.ident()
        if self.at("("):
            self.eat("("); ps = []
            while not self.at(")"):
                ps.append(self.pattern())
                if self.at(","): self.eat(",")
            self.eat(")")
            return ("pcall", name, ps)
        return ("pid", name, mut)

    # ---- blocks and statements
    def block(self):
        self.eat("{"); stmts, tail = [], None
        while not self.at("}"):
            if self.at("use"):
                while not self.at(";"): self.next()
                self.eat(";"); continue
            if self.at("let"):
                self.next(); pat = self.pattern()
                if self.at(":"):
                    bad(self.who, "a typed `let`")
                self.eat("="); e = self.expr(); self.eat(";")
                stmts.append(("let", pat, e)); continue
            if self.at("for"):
                self.next(); pat = self.pattern(); self.eat("in"); it = self.expr(nostruct=True); body = self.block()
                stmts.append(("for", pat, it, body)); continue
            e = self.expr()
            if self.at(";"):
                self.eat(";"); stmts.append(("expr", e))
            elif self.at("}"):
                tail = e
            elif e[0] in ("if", "iflet", "block"):
                stmts.append(("expr", e))
            else: bad(self.who, "`;` or `}` expected after an expression, found `%s`" % self.peek()[1])
        self.eat("}")
        return ("block", stmts, tail)

    # ---- expressions (precedence climbing)
    def expr(self, nostruct=False):
        return self.range_()
    def range_(self):
        a = self.or_()
        if self.at(".."):
            self.next(); b = self.or_(); return ("range", a, b)
        return a
    def or_(self):
        a = self.and_()
        while self.at("||"):
            self.next(); a = ("bin", "||", a, self.and_())
        return a
    def and_(self):
        a = self.cmp_()
        while self.at("&&"):
            self.next(); a = ("bin", "&&", a, self.cmp_())
        return a
    def cmp_(self):
        a = self.add_()
        if self.peek()[0] == "op" and self.peek()[1] in ("<", "<=", ">", ">=", "==", "!="):
            op = self.next()[1]; return ("bin", op, a, self.add_())
        return a
    def add_(self):
        a = self.mul_()
        while self.peek()[0] == "op" and self.peek()[1] in ("+", "-"):
            op = self.next()[1]; a = ("bin", op, a, self.mul_())
        return a
    def mul_(self):
        a = self.unary()
        while self.peek()[0] == "op" and self.peek()[1] in ("*", "/", "%"):
            op = self.next()[1]; a = ("bin", op, a, self.unary())
        return a
    def unary(self):
        if self.at("&"):
            self.next()
            if self.at("mut"): self.next(); return ("unary", "&mut", self.unary())
            return ("unary", "&", self.unary())
        if self.at("*") or self.at("!") or self.at("-"):
            op = self.next()[1]; return ("unary", op, self.unary())
        return self.postfix()
    def args(self):
        self.eat("("); out = []
        while not self.at(")"):
            out.append(self.expr())
            if self.at(","): self.eat(",")
            elif not self.at(")"): bad(self.who, "`,` or `)` expected in an argument list, found `%s`" % self.peek()[1])
        self.eat(")")
        return out
    def postfix(self):
        e = self.primary()
        while True:
            if self.at("."):
                self.next(); k, v = self.next()
                if k == "int": e = ("field", e, v); continue
                if k != "id": bad(self.who, "method or field name expected after `.`")
                if self.at("::"):
                    self.next(); self.skip_angles()
                if self.at("("): e = ("mcall", e, v, self.args())
                else: e = ("field", e, v)
            elif self.at("("):
                e = ("call", e, self.args())
            elif self.at("?"):
                bad(self.who, "the `?` operator")
            else: return e
    def primary(self):
        k, v = self.peek()
        if k == "int":
            self.next(); return ("int", int(re.sub(r"[a-z_]\w*$|_", "", v)))
        if k == "str":
            self.next(); return ("str", v[1:-1])
        if self.at("("):
            self.eat("("); es, trailing = [], False
            while not self.at(")"):
                es.append(self.expr()); trailing = False
                if self.at(","): self.eat(","); trailing = True
            self.eat(")")
            return es[0] if len(es) == 1 and not trailing else ("tuple", es)
        if self.at("unsafe"):
            self.next(); return self.block()
        if self.at("{"): return self.block()
        if self.at("return"):
            self.next()
            if self.at(";") or self.at("}"): return ("return", None)
            return ("return", self.expr())
        if self.at("if"):
            self.next()
            if self.at("let"):
                self.next(); pat = self.pattern(); self.eat("="); e = self.expr(nostruct=True); th = self.block()
                el = None
                if self.at("else"): self.next(); el = self.block()
                return ("iflet", pat, e, th, el)
            c = self.expr(nostruct=True); th = self.block(); el = None
            if self.at("else"):
                self.next(); el = self.primary() if self.at("if") else self.block()
            return ("if", c, th, el)
        if self.at("move") or self.at("|") or self.at("||"):
            if self.at("move"): self.next()
            pats = []
            if self.at("||"): self.next()
            else:
                self.eat("|")
                while not self.at("|"):
                    pats.append(self.pattern())
                    if self.at(":"): bad(self.who, "a typed closure parameter")
                    if self.at(","): self.eat(",")
                self.eat("|")
            return ("closure", pats, self.expr())
        if k == "id":
            segs = [self.ident()]
            while self.at("::"):
                self.next()
                if self.at("<"): self.skip_angles()
                else: segs.append(self.ident())
            if self.at("!"):
                self.next(); return ("macro", "::".join(segs), self.args())
            return ("path", "::".join(segs))
        bad(self.who, "unexpected token `%s`" % v)

def parse_fn(text, who):
    """`fn name<..>(params) -> R where .. { body }` -> (params: [(name, type text)], body AST)"""
    m = re.match(r"(?:unsafe\s+)?fn\s+(\w+)", text)
    if not m: bad(who, "not a function")
    i = m.end()
    if text[i:].lstrip().startswith("<"):
        j = text.index("<", i); d = 0
        while True:
            if text[j] == "<": d += 1
            elif text[j] == ">" and text[j - 1] != "-":
                d -= 1
                if d == 0: break
            j += 1
        i = j + 1
    p0 = text.index("(", i); d = 0; j = p0
    while True:
        if text[j] in "([": d += 1
        elif text[j] in ")]":
            d -= 1
            if d == 0: break
        j += 1
    params, depth, cur = [], 0, ""
    for ch in text[p0 + 1:j]:
        if ch in "(<[": depth += 1
        elif ch in ")>]": depth -= 1
        if ch == "," and depth == 0: params.append(cur); cur = ""
        else: cur += ch
    if cur.strip(): params.append(cur)
    ps = []
    for p in params:
        p = p.strip()
        if re.fullmatch(r"&\s*(?:'\w+\s+)?(?:mut\s+)?self", p): ps.append(("self", "&Self")); continue
        mm = re.fullmatch(r"(?:mut\s+)?(\w+)\s*:\s*(.*)", p, flags=re.S)
        if not mm: bad(who, "parameter `%s` not recognised" % p)
        ps.append((mm.group(1), re.sub(r"\s+", "", mm.group(2))))
    # the body: the first `{` at bracket depth 0 after the parameter list
    k, d = j + 1, 0
    while k < len(text):
        ch = text[k]
        if ch in "(<[": d += 1
        elif ch in ")]": d -= 1
        elif ch == ">" and text[k - 1] != "-": d -= 1
        elif ch == "{" and d <= 0: break
        k += 1
    if k >= len(text): bad(who, "no body")
    pr = P(tokenize(text[k:], who), who)
    body = pr.block()
    if pr.i != len(pr.t): bad(who, "text after the body")
    return ps, body

# ======================================================================================================================
# 3. symbolic evaluation -> table terms (Coq syntax)
# ======================================================================================================================
MSG_OK = re.compile(r"^[A-Za-z0-9 ,.'()-]*$")
_CMPS = {">": "DcGt", ">=": "DcGe", "<": "DcLt", "<=": "DcLe", "==": "DcEq", "!=": "DcNe"}

def coq_list(xs): return "[" + "; ".join(xs) + "]"
def coq_path(p): return coq_list(p)

class Sym:
    """symbolic evaluator of one function body"""
    def __init__(self, who, params, two):
        self.who, self.two = who, two
        self.eager_sub = False
        self.env = {}
        for name, ty in params:
            if name == "self": self.env["self"] = ("ser", "DSelf")
            elif name == "other": self.env["other"] = ("ser", "DOther")
            elif name == "window":
                if ty != "usize": bad(who, "`window` is not usize")
                self.env["window"] = ("n", "DnWin")
            elif name == "f": self.env["f"] = ("callback",)
            elif name == "out": self.env["out"] = ("out", "opt" if ty.startswith("Option<") else "buf")
            else: bad(who, "unexpected parameter `%s`" % name)

    def fail(self, why): bad(self.who, why)

    # ---- usize expressions
    def nexpr(self, e, env):
        v = self.value(e, env)
        if v[0] != "n": self.fail("a usize expression was expected, found %r" % (v,))
        return v[1]

    def value(self, e, env):
        k = e[0]
        if k == "int": return ("n", "(DnLit %d%%nat)" % e[1])
        if k == "path":
            name = e[1]
            if name in env: return env[name]
            if name == "None": return ("arg", "DaNone")
            self.fail("unknown name `%s`" % name)
        if k == "bin":
            op = e[1]
            if op in ("+", "-"):
                a, b = self.value(e[2], env), self.value(e[3], env)
                if a[0] == "n" and b[0] == "n":
                    return ("n", "(%s %s %s)" % ("DnAdd" if op == "+" else "DnSub", a[1], b[1]))
                if a[0] in ("ix", "item") and b[0] == "n" and op == "+" and re.fullmatch(r"\(DnLit (\d+)%nat\)", b[1]):
                    return ("ix", "(DxPlus %s %s%%nat)" % (self.ix(a), re.fullmatch(r"\(DnLit (\d+)%nat\)", b[1]).group(1)))
                self.fail("arithmetic `%s` on %r and %r" % (op, a, b))
            self.fail("operator `%s` outside a condition" % op)
        if k == "range":
            return ("iter", "(DiRange %s %s)" % (self.nexpr(e[1], env), self.nexpr(e[2], env)))
        if k == "tuple":
            return ("tuple", [self.value(x, env) for x in e[1]])
        if k == "unary" and e[1] in ("&", "&mut"):
            v = self.value(e[2], env)
            if v[0] in ("out", "fresh"): return v
            self.fail("a reference to %r" % (v,))
        if k == "call":
            fn, args = e[1], e[2]
            if fn[0] != "path": self.fail("a call through an expression")
            name = fn[1]
            if name in ("std::iter::repeat_n", "iter::repeat_n", "repeat_n"):
                if len(args) != 2: self.fail("repeat_n takes two arguments")
                if args[0] == ("path", "None"): rep = "DrNone"
                elif args[0] == ("int", 0): rep = "DrZero"
                else: self.fail("repeat_n of something else than None / 0")
                return ("iter", "(DiRepeat %s %s)" % (rep, self.nexpr(args[1], env)))
            if name == "Some":
                if len(args) != 1: self.fail("Some(..) with %d arguments" % len(args))
                v = self.value(args[0], env)
                if v[0] == "fresh_done": return ("some_fresh",)
                if v[0] == "collected": return ("some_collected", v[1])
                return ("arg", "(DaSome %s)" % self.arg(v))
            if name == "O::uninit":
                if len(args) != 1 or self.nexpr(args[0], env) != "(DnLen DSelf)": self.fail("O::uninit(..) is not given self.len()")
                return ("fresh",)
            if name == "O::uninit_ref_mut":
                if len(args) != 1: self.fail("O::uninit_ref_mut")
                v = self.value(args[0], env)
                if v[0] != "fresh": self.fail("O::uninit_ref_mut of something else than the fresh buffer")
                return ("fresh_ref",)
            if name in env and env[name] == ("callback",):
                return ("cbcall", [self.arg(self.value(a, env)) for a in args])
            self.fail("call of `%s`" % name)
        if k == "mcall":
            recv, meth, args = e[1], e[2], e[3]
            # (**self).name(args)
            if recv == ("unary", "*", ("unary", "*", ("path", "self"))):
                return ("delegate", meth, [self.value(a, env) for a in args])
            r = self.value(recv, env)
            if r[0] == "ser":
                if meth == "len" and not args: return ("n", "(DnLen %s)" % r[1])
                if meth == "is_empty" and not args: return ("cond", "(DCmp (DnLen %s) DcEq (DnLit 0%%nat))" % r[1])
                if meth == "titer" and not args: return ("iter", "(DiSer %s)" % r[1])
                if meth == "uget" and len(args) == 1: return ("arg", "(DaUget %s %s)" % (r[1], self.ix(self.value(args[0], env))))
                if meth in ("slice", "uslice") and len(args) == 2:
                    return ("slice_result", "(DaSlice %s %s %s %s)" % ("DslChecked" if meth == "slice" else "DslUnchecked", r[1],
                                                                     self.ix(self.value(args[0], env)), self.ix(self.value(args[1], env))))
                if r[1] == "DSelf" and meth in VIEW_FNS:
                    return ("selfcall", meth, [self.value(a, env) for a in args])
                self.fail("method `%s` on a series" % meth)
            if r[0] == "slice_result":
                if meth == "unwrap" and not args: return ("arg", r[1])
                self.fail("`.%s()` on the result of slice" % meth)
            if r[0] == "n":
                if meth in ("min", "saturating_sub") and len(args) == 1:
                    return ("n", "(%s %s %s)" % ("DnMin" if meth == "min" else "DnSatSub", r[1], self.nexpr(args[0], env)))
                self.fail("method `%s` on a usize" % meth)
            if r[0] == "iter":
                if meth == "chain" and len(args) == 1: return ("iter", "(DiChain %s %s)" % (r[1], self.iter(args[0], env)))
                if meth == "zip" and len(args) == 1: return ("iter", "(DiZip %s %s)" % (r[1], self.iter(args[0], env)))
                if meth == "enumerate" and not args: return ("iter", "(DiEnum %s)" % r[1])
                if meth == "map" and len(args) == 1:
                    a = args[0]
                    if a == ("path", "Some"): return ("iter", "(DiMapSome %s)" % r[1])
                    if a[0] == "closure": return self.callback_map(r[1], a, env)
                    self.fail("map(..) of something else than `Some` or a closure")
                self.fail("iterator method `%s`" % meth)
            if r[0] == "cbiter" and meth == "to_trust" and len(args) == 1:
                if self.nexpr(args[0], env) != "(DnLen DSelf)": self.fail("to_trust(..) is not given self.len()")
                return r
            if r[0] in ("cbiter", "cbiter_built") or (r[0] == "selfcall" and r[1] == "rolling_custom_iter"):       # an iterator of callback results
                if meth == "collect_trusted_vec1" and not args: return ("collected", r)
                if meth == "write" and len(args) == 1:
                    if self.value(args[0], env) != ("out", "bound"): self.fail("write(..) is not given the caller's buffer")
                    return ("written_result", r)
                self.fail("method `%s` on the result iterator" % meth)
            if r[0] == "written_result":
                if meth == "unwrap" and not args: return ("written", r[1])
                self.fail("`.%s()` after write" % meth)
            if r[0] == "fresh":
                if meth == "assume_init" and not args: return ("fresh_done",)
                self.fail("method `%s` on the fresh buffer" % meth)
            if r[0] == "out" and r[1] in ("buf", "bound"):
                if meth == "uset" and len(args) == 2:
                    cb = self.value(args[1], env)
                    if cb[0] != "cbcall": self.fail("uset(..) does not store a callback result")
                    return ("store", self.ix(self.value(args[0], env)), cb[1])
                self.fail("method `%s` on the output buffer" % meth)
            self.fail("method `%s` on %r" % (meth, r[0]))
        if k == "block":
            env2 = dict(env)
            for s in e[1]:
                if s[0] != "let": self.fail("a statement inside an expression block")
                self.bind(s[1], self.value(s[2], env2), env2)
            if e[2] is None: self.fail("an expression block without a value")
            return self.value(e[2], env2)
        self.fail("expression form `%s`" % k)

    def iter(self, e, env):
        v = self.value(e, env)
        if v[0] != "iter": self.fail("an iterator was expected, found %r" % (v[0],))
        return v[1]

    def ix(self, v):
        if v[0] == "ix": return v[1]
        if v[0] == "item": return "(DxItem %s)" % coq_path(v[1])
        if v[0] == "n":
            m = re.fullmatch(r"\(DnLit (\d+)%nat\)", v[1])
            if m: return "(DxLit %s%%nat)" % m.group(1)
        self.fail("an index expression was expected, found %r" % (v,))

    def arg(self, v):
        if v[0] == "arg": return v[1]
        if v[0] == "item": return "(DaItem %s)" % coq_path(v[1])
        if v[0] == "tuple":
            if len(v[1]) != 2: self.fail("a %d-tuple is passed to the callback" % len(v[1]))
            return "(DaPair %s %s)" % (self.arg(v[1][0]), self.arg(v[1][1]))
        self.fail("a callback argument was expected, found %r" % (v,))

    def bind(self, pat, v, env):
        if pat[0] == "pid": env[pat[1]] = v; return
        if pat[0] == "pwild": return
        if pat[0] == "ptuple":
            if v[0] == "tuple":
                if len(v[1]) != len(pat[1]): self.fail("tuple pattern of the wrong size")
                for p, x in zip(pat[1], v[1]): self.bind(p, x, env)
                return
            if v[0] == "item":
                if len(pat[1]) != 2: self.fail("an iterator item is destructured into %d parts" % len(pat[1]))
                self.bind(pat[1][0], ("item", v[1] + ["DFst"]), env); self.bind(pat[1][1], ("item", v[1] + ["DSnd"]), env)
                return
        self.fail("pattern %r cannot bind %r" % (pat[0], v[0]))

    def callback_map(self, it, clo, env):
        """it.map(move |pat| f(args))"""
        if len(clo[1]) != 1: self.fail("the mapped closure takes %d parameters" % len(clo[1]))
        env2 = dict(env)
        self.bind(clo[1][0], ("item", []), env2)
        v = self.value(clo[2], env2)
        if v[0] != "cbcall": self.fail("the mapped closure does not end in a call of the callback")
        return ("cbiter", it, v[1])

    # ---- conditions
    def cond(self, e, env):
        if e[0] == "bin" and e[1] == "||":
            return "(DOr %s %s)" % (self.cond(e[2], env), self.cond(e[3], env))
        if e[0] == "bin" and e[1] in _CMPS:
            return "(DCmp %s %s %s)" % (self.nexpr(e[2], env), _CMPS[e[1]], self.nexpr(e[3], env))
        v = self.value(e, env)
        if v[0] == "cond": return v[1]
        self.fail("condition not recognised")

    # ---- statements: effects are appended to `out` in source order, `env` is updated in place; returns the tail expression
    def stmts(self, block, env, out):
        for s in block[1]:
            if s[0] == "let":
                v = self.value(s[2], env)
                if v[0] == "cbiter":            # the iterator is built here: its count expressions are evaluated now
                    out.append(("loop", v[1], None, v[2])); v = ("cbiter_built", len(out) - 1)
                if s[1] == ("pid", "window", False) and v[0] != "n": self.fail("`window` rebound to something else than a usize")
                # an unchecked subtraction evaluated by a `let` (not inside an iterator that is built into a loop statement here):
                # the table has no statement for "evaluated at this point", so nothing that can panic or return may FOLLOW it
                if v[0] != "cbiter_built" and "DnSub" in repr(v): self.eager_sub = True
                self.bind(s[1], v, env)
            elif s[0] == "for":
                it = self.iter(s[2], env)
                env2 = dict(env); self.bind(s[1], ("item", []), env2)
                inner = s[3]
                # for .. { unsafe { [lets] out.uset(slot, f(args)) } }
                if not inner[1] and inner[2] is not None and inner[2][0] == "block": inner = inner[2]
                elif len(inner[1]) == 1 and inner[2] is None and inner[1][0][0] == "expr" and inner[1][0][1][0] == "block": inner = inner[1][0][1]
                items = list(inner[1]) + ([("expr", inner[2])] if inner[2] is not None else [])
                last = None
                for j, t in enumerate(items):
                    if t[0] == "let": self.bind(t[1], self.value(t[2], env2), env2)
                    elif t[0] == "expr" and j == len(items) - 1: last = self.value(t[1], env2)
                    else: self.fail("statement in a loop body not recognised")
                if last is None or last[0] != "store": self.fail("the loop body does not end in out.uset(slot, f(..))")
                out.append(("loop", it, last[1], last[2]))
            elif s[0] == "expr":
                e = s[1]
                if e[0] == "macro":
                    if e[1] != "assert": self.fail("macro `%s!`" % e[1])
                    if len(e[2]) != 2 or e[2][1][0] != "str": self.fail("assert! without a message")
                    msg = e[2][1][1]
                    if not MSG_OK.match(msg): self.fail("assert! message with unexpected characters")
                    if self.eager_sub: self.fail("an assertion after a `let` that evaluates an unchecked subtraction")
                    out.append(("assert", self.cond(e[2][0], env), msg))
                elif e[0] == "if":
                    th = e[2]
                    if e[3] is not None or th[2] is not None or th[1] != [("expr", ("return", None))]:
                        self.fail("an `if` that is not `if cond { return; }`")
                    if self.eager_sub: self.fail("an early return after a `let` that evaluates an unchecked subtraction")
                    out.append(("retif", self.cond(e[1], env)))
                else:
                    v = self.value(e, env)
                    if v[0] == "written": out.append(("write", v[1]))            # iter.write(&mut out).unwrap();
                    elif v[0] == "selfcall": out.append(("call", v[1], v[2]))     # self.X_to(.., out);
                    else: self.fail("expression statement not recognised (%s)" % v[0])
            else: self.fail("statement `%s`" % s[0])
        return block[2]

def render_stmt(s):
    if s[0] == "assert": return '(DsAssert %s "%s")' % (s[1], s[2])
    if s[0] == "retif": return "(DsReturnIf %s)" % s[1]
    it, slot, args = s[1], s[2], s[3]
    return "(DsLoop %s %s %s)" % (it, "None" if slot is None else "(Some %s)" % slot, coq_list(args))

def inline_path(who, effects, sink):
    if any(s[0] not in ("assert", "retif", "loop") for s in effects): bad(who, "a call next to the function's own loop")
    return "(DpInline %s %s)" % (coq_list([render_stmt(s) for s in effects]), sink)

def analyse(text, who, name):
    """one `fn rolling*` -> (caller-buffer path, returned path) as Coq terms"""
    params, body = parse_fn(text, who)
    pnames = [p for p, _ in params]
    two = "other" in pnames
    want = ["self"] + (["other"] if two else []) + ["window", "f"] + ([] if name == "rolling_custom_iter" else ["out"])
    if pnames != want: bad(who, "parameters %r (expected %r)" % (pnames, want))
    if two != name.startswith("rolling2_"): bad(who, "`other` parameter does not fit the name")
    sym = Sym(who, params, two)
    through = [sym.env[p] for p in want[1:] if p != "out"]      # (other?, window, f) as given

    def forwarded(vals, last, what):
        if vals != through + [last]: bad(who, "%s: the arguments are not (%s) passed through unchanged" % (what, ", ".join(want[1:])))

    kind = sym.env.get("out", (None, None))[1]
    if (kind == "buf") != name.endswith("_to"): bad(who, "the type of `out` does not fit the name")
    env, pre = dict(sym.env), []
    # (**self).name(args): delegation (arc.rs)
    if not body[1] and body[2] is not None and body[2][0] == "mcall" and body[2][1] == ("unary", "*", ("unary", "*", ("path", "self"))):
        v = sym.value(body[2], env)
        if v[1] != name: bad(who, "delegates to `%s`" % v[1])
        forwarded(v[2], sym.env["out"], "delegation")
        return ('(DpDelegate "%s")' % name,) * 2
    tail = sym.stmts(body, env, pre)
    if kind == "buf":                     # a `_to` function: statements only, every loop stores by slot
        if tail is not None: bad(who, "a `_to` body with a value")
        if not any(s[0] == "loop" for s in pre): bad(who, "no loop")
        if any(s[0] == "loop" and s[2] is None for s in pre): bad(who, "a loop without a slot in a `_to` body")
        return inline_path(who, pre, "DkSlots"), "DpNone"
    if name == "rolling_custom_iter":
        if tail is None: bad(who, "no value")
        v = sym.value(tail, env)
        if v[0] != "cbiter": bad(who, "does not return the mapped iterator")
        return "DpNone", inline_path(who, pre + [("loop", v[1], None, v[2])], "DkIter")
    # dispatchers: [shared statements] if let Some(p) = out { CALLER } else { RETURNED }
    if tail is None or tail[0] != "iflet": bad(who, "the body does not end in `if let Some(..) = out {..} else {..}`")
    _, pat, scrut, th, el = tail
    if scrut != ("path", "out") or pat[0] != "pcall" or pat[1] != "Some" or len(pat[2]) != 1 or pat[2][0][0] != "pid" or el is None:
        bad(who, "the dispatch is not `if let Some(out) = out {..} else {..}`")
    if any(s[0] == "retif" for s in pre): bad(who, "an early return before the dispatch")
    n_shared = len(pre)

    def sink(it, effects, snk):
        """`it`: the result iterator that is written / collected"""
        if it[0] == "cbiter": effects = effects + [("loop", it[1], None, it[2])]     # built and driven in one expression
        elif it[0] == "cbiter_built": pass
        elif it[0] == "selfcall":
            if it[1] != "rolling_custom_iter" or name != "rolling_custom": bad(who, "iterator obtained from `%s`" % it[1])
            if it[2] != [sym.env["window"], sym.env["f"]]: bad(who, "rolling_custom_iter is not given (window, f)")
            if effects: bad(who, "statements next to a call of rolling_custom_iter")
            return '(DpIterOf "rolling_custom_iter" %s)' % snk
        else: bad(who, "what is written / collected is not a result iterator (%s)" % it[0])
        loops = [i for i, s in enumerate(effects) if s[0] == "loop"]
        if len(loops) != 1: bad(who, "%d iterators (one expected)" % len(loops))
        # the loop statement stands where the iterator was BUILT: nothing that can panic may come between building and driving it
        if loops[0] != len(effects) - 1: bad(who, "an assertion between building and driving the iterator")
        return inline_path(who, effects, snk)

    def branch(block, bound):
        env2, eff = dict(env), list(pre)
        if bound: env2[pat[2][0][1]] = ("out", "bound")
        if not bound or pat[2][0][1] != "out": env2.pop("out", None)
        t = sym.stmts(block, env2, eff)
        mine = eff[n_shared:]
        calls = [s for s in mine if s[0] == "call"]
        if bound:
            if t != ("path", "None"): bad(who, "the caller-buffer branch does not end in `None`")
            if calls:
                if len(mine) != 1 or n_shared: bad(who, "caller-buffer branch: statements next to the call of `_to`")
                if calls[0][1] != name + "_to": bad(who, "the caller-buffer branch calls `%s`" % calls[0][1])
                forwarded(calls[0][2], ("out", "bound"), "caller-buffer branch")
                return '(DpTo "%s" false)' % calls[0][1]
            writes = [s for s in mine if s[0] == "write"]
            if len(writes) != 1 or mine[-1][0] != "write": bad(who, "the caller-buffer branch neither calls `_to` nor writes an iterator")
            return sink(writes[0][1], [s for s in eff if s[0] != "write"], "DkWrite")
        if t is None: bad(who, "the returned branch has no value")
        v = sym.value(t, env2)
        if v == ("some_fresh",):
            if len(mine) != 1 or not calls or n_shared: bad(who, "returned branch: statements next to the call of `_to` on a fresh buffer")
            if calls[0][1] != name + "_to": bad(who, "the returned branch calls `%s`" % calls[0][1])
            forwarded(calls[0][2], ("fresh_ref",), "returned branch")
            return '(DpTo "%s" true)' % calls[0][1]
        if v[0] != "some_collected": bad(who, "the returned branch does not end in Some(<iterator>.collect_trusted_vec1())")
        return sink(v[1], eff, "DkCollect")

    return branch(th, True), branch(el, False)

# ======================================================================================================================
# 4. files
# ======================================================================================================================
def _fns(repo, rel):
    try: src = open(os.path.join(repo, rel), encoding="utf8").read()
    except OSError as e: raise Unrec("%s: cannot be read (%s)" % (rel, e))
    return src, anchors.functions(src)

def rolling_fns(fns):
    return sorted(k for k in fns if re.match(r"rolling\d*_", k.split("#")[0]))

def parse_view(repo):
    src, fns = _fns(repo, VIEW)
    found = rolling_fns(fns)
    if sorted(found) != sorted(VIEW_FNS): raise Unrec("%s: the `fn rolling*` are %r (expected exactly %r)" % (VIEW, found, sorted(VIEW_FNS)))
    return [(n, analyse(fns[n], "%s::%s" % (VIEW, n), n)) for n in VIEW_FNS]

def impl_types(rel, src):
    """the types an impl of Vec1View is instantiated for in a backend file"""
    s = anchors._strip(src)
    if rel.endswith("vec.rs"):
        m = re.findall(r"\bimpl_vec1!\s*\(\s*view\b(.*?)\)\s*;", s, flags=re.S)
        if len(m) != 1: raise Unrec("%s: `impl_vec1!(view ..)` not found exactly once" % rel)
        tys = []
        for part in _split_top(m[0]):
            part = re.sub(r"^\s*(\{\w+\}\s*)?(--\w+\s+)?", "", part.strip())
            if part: tys.append(re.sub(r"\s+", "", part))
        if not re.search(r"\(\s*view\s*\$\(\s*\$\(\s*\{\s*\$N\s*:\s*ident\s*\}\s*\)\?\s*\$\(\s*--\s*\$slice\s*:\s*ident\s*\)\?\s*\$ty\s*:\s*ty\s*\)\s*,\s*\*", s):
            raise Unrec("%s: the `view` arm of impl_vec1! is not recognised" % rel)
        if len(re.findall(r"\bVec1View\s*<\s*T\s*>\s*for\s+\$ty\b", s)) != 1: raise Unrec("%s: `impl Vec1View<T> for $ty` not found exactly once" % rel)
        return tys
    if rel.endswith("ndarray.rs"):
        tys = [re.sub(r"\s+", "", t) for t in re.findall(r"\bimpl_vec1view_for_ndarray!\s*\(\s*([^,()]*(?:<[^()]*>)?)\s*(?:,\s*'\w+\s*)?\)\s*;", s)]
        if not tys or len(tys) != len(re.findall(r"\bimpl_vec1view_for_ndarray!\s*\(", s)): raise Unrec("%s: instantiations of impl_vec1view_for_ndarray! not recognised" % rel)
        if len(re.findall(r"\bVec1View\s*<\s*T\s*>\s*for\s+\$t\b", s)) != 1: raise Unrec("%s: `impl Vec1View<T> for $t` not found exactly once" % rel)
        return tys
    if rel.endswith("arc.rs"):
        m = re.findall(r"\bimpl\s*<[^{;]*>\s*Vec1View\s*<\s*T\s*>\s*for\s+((?:std::sync::)?Arc\s*<\s*V\s*>)", s)
        if len(m) != 1: raise Unrec("%s: `impl Vec1View<T> for Arc<V>` not found exactly once" % rel)
        return ["Arc<V>"]
    raise Unrec("%s: unknown backend file" % rel)

def _split_top(s):
    parts, d, st = [], 0, 0
    for k, ch in enumerate(s):
        if ch in "([<{": d += 1
        elif ch in ")]>}": d -= 1
        elif ch == "," and d == 0: parts.append(s[st:k]); st = k + 1
    parts.append(s[st:])
    return parts

def parse_backends(repo):
    out, impls = [], []
    for be, rel in BACKENDS:
        src, fns = _fns(repo, rel)
        found = rolling_fns(fns)
        for k in found:
            if "#" in k: raise Unrec("%s: `fn %s` is defined more than once" % (rel, k.split("#")[0]))
            if k not in OVERRIDABLE: raise Unrec("%s: overrides `%s` (only %r are expected to be overridden)" % (rel, k, OVERRIDABLE))
        out.append((be, [(n, analyse(fns[n], "%s::%s" % (rel, n), n)) for n in OVERRIDABLE if n in found]))
        impls.append((be, impl_types(rel, src)))
    for be, rel, pat in PLAIN_BACKENDS:
        src, fns = _fns(repo, rel)
        if rolling_fns(fns): raise Unrec("%s: defines %r (no override expected there)" % (rel, rolling_fns(fns)))
        if len(re.findall(pat, anchors._strip(src))) != 1: raise Unrec("%s: the impl of Vec1View is not found exactly once" % rel)
        out.append((be, [])); impls.append((be, [be]))
    # nothing else in the workspace defines a rolling driver
    known = {VIEW} | {rel for _, rel in BACKENDS}
    for d, dirs, files in os.walk(repo):
        dirs[:] = [x for x in dirs if x not in ("target", ".git", "node_modules") and not x.startswith(".")]
        for f in files:
            if not f.endswith(".rs"): continue
            rel = os.path.relpath(os.path.join(d, f), repo)
            if rel in known: continue
            try: s = open(os.path.join(d, f), encoding="utf8", errors="replace").read()
            except OSError: continue
            if re.search(r"\bfn\s+rolling\d*_(apply|custom)\w*", anchors._strip(s)):
                raise Unrec("%s: defines a rolling driver (only view.rs and the vec / ndarray / arc backends are expected to)" % rel)
    return out, impls

# ---- the C02 harness: which body of the model does a backend run?
def parse_harness():
    rel = "harness/src/bin/c02.rs"
    try: s = anchors._strip(open(os.path.join(ROOT, rel), encoding="utf8").read())
    except OSError as e: raise Unrec("%s: cannot be read (%s)" % (rel, e))
    s = re.sub(r"\s+", " ", s)
    def one(pat, what):
        m = re.findall(pat, s)
        if len(m) != 1: raise Unrec("%s: %s not found exactly once (the routing the harness assumes can no longer be read)" % (rel, what))
        return m[0]
    strs = lambda t: coq_list(['"%s"' % x for x in re.findall(r'"(\w+)"', t)])
    # two-series degenerate part: `let body = buf || be != "deque";`
    r1 = one(r'let body = buf \|\| be != ("\w+")\s*;', '`let body = buf || be != "<backend>";`')
    # slice forms: Vec / ndarray `let fast_body = kind == "custom" || kind == "custom_to";`, VecDeque `let body = kind == "custom_to";`
    r2 = one(r'let fast_body = (kind == "\w+"(?: \|\| kind == "\w+")*)\s*;', '`let fast_body = kind == ".." || ..;`')
    r3 = one(r'let body = (kind == "\w+"(?: \|\| kind == "\w+")*)\s*;', '`let body = kind == "..";`')
    # the apply forms are written out backend by backend: `em.case("exact", &tags("<backend>"), &desc(..), || term(true | buf, <optview>), ..`
    ap = re.findall(r'em\.case\("exact", &tags\("(\w+)"\), &desc\([^()]*\), \|\| term\((true|buf), (?:true|false)\),', s)
    if not ap or len(ap) != len(re.findall(r'\|\| term\((?:true|buf), \w+\)', s)):   # (part=dispatch passes a numeric backend code: its route is computed by the model, Model/DriverDispatch.v)
        raise Unrec("%s: the per-backend model terms `|| term(true | buf, ..)` of the apply forms are not all recognised" % rel)
    apply_rules = ['("%s", %s)' % (tag, "true" if b == "true" else "false") for tag, b in ap]
    return ["(HrBufOrBackendNot %s)" % r1, "(HrFastKinds %s)" % strs(r2), "(HrDequeKinds %s)" % strs(r3)], apply_rules

# ======================================================================================================================
# 5. rendering
# ======================================================================================================================
TYPES = """Inductive drv_ser := DSelf | DOther.
(* usize expressions: DnSub is the UNCHECKED `a - b` (panics on underflow in a debug build), DnSatSub is `a.saturating_sub(b)` *)
Inductive drv_n := DnWin | DnLen (s : drv_ser) | DnLit (k : nat) | DnAdd (a b : drv_n) | DnSub (a b : drv_n) | DnSatSub (a b : drv_n) | DnMin (a b : drv_n).
Inductive drv_cmp := DcGt | DcGe | DcLt | DcLe | DcEq | DcNe.
Inductive drv_cond := DCmp (a : drv_n) (c : drv_cmp) (b : drv_n) | DOr (a b : drv_cond).
Inductive drv_rep := DrNone | DrZero.
(* iterators: titer() of a series, lo..hi, repeat_n(None | 0, count), .map(Some), .chain, .zip, .enumerate() *)
Inductive drv_it := DiSer (s : drv_ser) | DiRange (lo hi : drv_n) | DiRepeat (v : drv_rep) (c : drv_n) | DiMapSome (i : drv_it)
  | DiChain (a b : drv_it) | DiZip (a b : drv_it) | DiEnum (a : drv_it).
(* a closure / loop variable is its position in the iterator item: a path through the nested pairs *)
Inductive drv_dir := DFst | DSnd.
Inductive drv_ix := DxItem (p : list drv_dir) | DxLit (k : nat) | DxPlus (x : drv_ix) (k : nat).
Inductive drv_slk := DslChecked | DslUnchecked.     (* slice(..).unwrap() | uslice(..).unwrap() *)
(* what the callback receives *)
Inductive drv_arg := DaNone | DaSome (a : drv_arg) | DaPair (a b : drv_arg) | DaItem (p : list drv_dir) | DaUget (s : drv_ser) (x : drv_ix)
  | DaSlice (k : drv_slk) (s : drv_ser) (lo hi : drv_ix).
Inductive drv_stmt := DsAssert (c : drv_cond) (msg : string) | DsReturnIf (c : drv_cond) | DsLoop (it : drv_it) (slot : option drv_ix) (args : list drv_arg).
Inductive drv_sink := DkCollect | DkWrite | DkSlots | DkIter.
Inductive drv_path := DpNone | DpTo (callee : string) (fresh : bool) | DpIterOf (callee : string) (k : drv_sink)
  | DpInline (body : list drv_stmt) (k : drv_sink) | DpDelegate (callee : string).
"""

def render(view, backends, impls, harness):
    def entry(n, paths): return '("%s",\n     (%s,\n      %s))' % (n, paths[0], paths[1])
    o = ["(* ---- the rolling drivers (conformance: coq/Proofs/SrcTablesDrv.v; generator: tools/gen_tables_drv.py) --------------------------",
         "   Every `fn rolling*` of %s: (caller-buffer path, returned path).  Locals are resolved through their" % VIEW,
         "   bindings; a loop statement stands where its iterator is BUILT (count expressions are evaluated there). *)",
         "Module SrcDrv.", TYPES,
         "Definition src_drivers : list (string * (drv_path * drv_path)) :=",
         "  [" + ";\n   ".join(entry(n, p) for n, p in view) + "].", "",
         "(* the overrides of the backends (%s; vecdeque / optiter: an impl with NO override)," % ", ".join(rel for _, rel in BACKENDS),
         "   and the types each impl is instantiated for *)",
         "Definition src_driver_overrides : list (string * list (string * (drv_path * drv_path))) :=",
         "  [" + ";\n   ".join('("%s",\n    [%s])' % (be, ";\n     ".join(entry(n, p) for n, p in fs)) for be, fs in backends) + "].",
         "Definition src_driver_impls : list (string * list string) :=",
         "  [" + ";\n   ".join('("%s", %s)' % (be, coq_list(['"%s"' % t for t in tys])) for be, tys in impls) + "].", "",
         "(* harness/src/bin/c02.rs: the expressions by which the C02 harness picks the model body (true: index body) for a backend:",
         '   HrBufOrBackendNot b: `let body = buf || be != "b";` (two-series forms); HrFastKinds ks: `let fast_body = kind == k1 || ..`',
         '   (slice forms on Vec / ndarray); HrDequeKinds ks: `let body = kind == k1 || ..` (slice forms on VecDeque) *)',
         "Inductive drv_harness_rule := HrBufOrBackendNot (b : string) | HrFastKinds (ks : list string) | HrDequeKinds (ks : list string).",
         "Definition src_harness_c02_rules : list drv_harness_rule := %s." % coq_list(harness[0]),
         "(* the apply forms, backend tag by backend tag: true = `term(true, ..)` (index body on both paths), false = `term(buf, ..)` *)",
         "Definition src_harness_c02_apply : list (string * bool) := %s." % coq_list(harness[1]),
         "End SrcDrv.", ""]
    return o

def section(repo, unrecognised=None):
    """the Coq text (list of lines) of the driver section; raises `unrecognised` when a shape is not understood"""
    global Unrec
    if unrecognised is not None: Unrec = unrecognised
    try:
        view = parse_view(repo)
        backends, impls = parse_backends(repo)
        harness = parse_harness()
    except (IndexError, ValueError, KeyError, RecursionError) as e:
        raise Unrec("rolling drivers: cannot parse (%r)" % (e,))
    return render(view, backends, impls, harness)

if __name__ == "__main__":
    try: print("\n".join(section(os.environ.get("TEVEC_REPO", "/repo"))))
    except _Unrec as e:
        print("gen_tables_drv: rolling drivers, shape not recognised: %s" % (e,)); sys.exit(2)
