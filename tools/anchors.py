#!/usr/bin/env python3
"""Source fingerprints of the anchored Rust files (DESIGN.md section 10.3).

The Coq model is hand-written, so nothing in a proof notices that the Rust text it mirrors has been edited.  This module
makes the tie visible: for every file named in the `anchors.files` of a property it computes one hash per function
(comments and whitespace removed) plus one for the text outside all function bodies, and compares them with the committed
baseline `anchors/baseline.json` (the tree the model was written against, i.e. the pinned commit plus the recorded `fix:`
commits).  A difference is NOT a violation — a harmless rewrite changes the text too — but the check then
  * lists the changed functions in its evidence (`source_drift`), and
  * escalates the correspondence run of that property to the thorough generator sizes,
so that an edit of modelled code is always met by the deepest comparison the check has.

  python3 tools/anchors.py --update     rewrite the baseline from the current /repo tree (after a reviewed fix: commit)
  python3 tools/anchors.py --diff       print what differs from the baseline
"""
import os, re, sys, json, hashlib

ROOT = os.path.dirname(os.path.dirname(os.path.abspath(__file__)))
BASELINE = os.path.join(ROOT, "anchors", "baseline.json")

def _strip(src):
    """remove comments; keep string literals (their content matters); collapse whitespace"""
    out, i, n = [], 0, len(src)
    while i < n:
        c = src[i]
        if src.startswith("//", i):
            j = src.find("\n", i)
            i = n if j < 0 else j
        elif src.startswith("/*", i):
            depth, i = 1, i + 2
            while i < n and depth:
                if src.startswith("/*", i): depth += 1; i += 2
                elif src.startswith("*/", i): depth -= 1; i += 2
                else: i += 1
        elif c == '"':
            j = i + 1
            while j < n and src[j] != '"':
                j += 2 if src[j] == "\\" else 1
            out.append(src[i:j + 1]); i = j + 1
        elif c == "'" and i + 2 < n and (src[i + 2] == "'" or (src[i + 1] == "\\" and "'" in src[i + 2:i + 6])):
            j = src.index("'", i + 2 if src[i + 1] != "\\" else i + 3)
            out.append(src[i:j + 1]); i = j + 1
        else:
            out.append(c); i += 1
    return "".join(out)

def functions(src):
    """{name(#k): normalised text} for every `fn name ... { ... }` (nested functions included in their parent as well),
    and '(outside functions)' for the rest of the file"""
    s = _strip(src)
    res, spans, counts = {}, [], {}
    for m in re.finditer(r"\bfn\s+([A-Za-z_][A-Za-z0-9_]*)", s):
        # signature ends at the first `{` or `;` at bracket depth 0
        i, depth, body_start = m.end(), 0, None
        while i < len(s):
            ch = s[i]
            if ch in "([<": depth += 1 if ch != "<" or True else 0
            elif ch in ")]>":
                if not (ch == ">" and s[i - 1] == "-"): depth -= 1
            elif ch == "{" and depth <= 0: body_start = i; break
            elif ch == ";" and depth <= 0: break
            elif ch == '"':
                j = i + 1
                while j < len(s) and s[j] != '"': j += 2 if s[j] == "\\" else 1
                i = j
            i += 1
        if body_start is None: continue
        i, depth = body_start, 0
        while i < len(s):
            ch = s[i]
            if ch == '"':
                j = i + 1
                while j < len(s) and s[j] != '"': j += 2 if s[j] == "\\" else 1
                i = j
            elif ch == "{": depth += 1
            elif ch == "}":
                depth -= 1
                if depth == 0: break
            i += 1
        name = m.group(1)
        k = counts.get(name, 0); counts[name] = k + 1
        key = name if k == 0 else "%s#%d" % (name, k)
        res[key] = re.sub(r"\s+", " ", s[m.start():i + 1]).strip()
        spans.append((m.start(), i + 1))
    # text outside every top-level function span
    spans.sort()
    outside, pos = [], 0
    for a, b in spans:
        if a >= pos:
            outside.append(s[pos:a]); pos = b
    outside.append(s[pos:])
    res["(outside functions)"] = re.sub(r"\s+", " ", "".join(outside)).strip()
    return res

def fingerprint(path):
    try:
        src = open(path, encoding="utf8", errors="replace").read()
    except OSError:
        return None
    return {k: hashlib.sha1(v.encode()).hexdigest()[:16] for k, v in functions(src).items()}

def anchor_files():
    files = {}
    for line in open(os.path.join(ROOT, "properties.jsonl")):
        p = json.loads(line)
        files[p["id"]] = list(p.get("anchors", {}).get("files", []))
    return files

# files a check depends on beyond the ones its property names (the drivers under every rolling function, the
# proc-macro that generates the `_to` twins, the null / cast algebra under everything numeric)
EXTRA = {
    "C01": ["tea-core/src/vec_core/cores/view.rs", "tea-core/src/backends_impl/vec.rs", "tea-macros/src/lib.rs", "tevec/src/rolling.rs"],
    "C03": ["tea-core/src/vec_core/cores/view.rs", "tea-core/src/backends_impl/vec.rs", "tea-dtype/src/isnone.rs"],
    "C04": ["tea-core/src/vec_core/cores/view.rs", "tea-core/src/backends_impl/vec.rs", "tea-core/src/agg.rs", "tea-agg/src/lib.rs"],
    "C05": ["tea-core/src/backends_impl/vec.rs", "tea-core/src/backends_impl/ndarray.rs", "tevec/src/rolling.rs"],
    "C06": ["tea-core/src/backends_impl/vec.rs", "tevec/src/rolling.rs"],
    "C07": ["tea-core/src/vec_core/cores/view.rs"],
    "C08": ["tea-rolling/src/cmp.rs", "tea-rolling/src/norm.rs", "tea-rolling/src/binary.rs", "tea-rolling/src/reg.rs", "tea-map/src/valid_iter.rs", "tea-map/src/vec_map.rs"],
    "C20": ["tea-core/src/agg.rs"],
    # observed by the C16 / C17 harnesses although only C18 names it (a mutation campaign found a mutant of TimeDelta::nat() that
    # only C16 / C17 see)
    "C16": ["tea-time/src/timedelta.rs"],
    "C17": ["tea-time/src/timedelta.rs"],
}

def drift(prop, repo):
    """list of 'file::function' whose text differs from the baseline (added / removed / changed), for the files property
    `prop` is anchored in"""
    if not os.path.exists(BASELINE):
        return ["(no baseline)"]
    base = json.load(open(BASELINE))
    out = []
    for f in anchor_files().get(prop, []) + EXTRA.get(prop, []):
        cur = fingerprint(os.path.join(repo, f))
        old = base.get(f)
        if cur is None and old is None: continue
        if cur is None: out.append(f + " (file removed)"); continue
        if old is None: out.append(f + " (file not in baseline)"); continue
        for k in sorted(set(cur) | set(old)):
            if cur.get(k) != old.get(k):
                out.append("%s::%s%s" % (f, k, "" if k in cur and k in old else (" (added)" if k in cur else " (removed)")))
    return sorted(set(out))

def not_named(prop, repo, root=ROOT):
    """functions of the property's anchored files whose name occurs nowhere in any harness source: a rough, textual measure of API surface the correspondence never calls by name (operators, trait
    plumbing and the library's own tests excluded by name pattern)"""
    hs = ""
    import glob
    for f in sorted(glob.glob(os.path.join(root, "harness", "src", "bin", "*.rs")) + glob.glob(os.path.join(root, "harness", "src", "*.rs"))
                    + glob.glob(os.path.join(root, "harness-pl", "src", "bin", "*.rs"))):
        try: hs += open(f).read()
        except OSError: pass
    out = []
    for f in anchor_files().get(prop, []):
        fp = fingerprint(os.path.join(repo, f)) or {}
        for k in fp:
            name = k.split("#")[0]
            if name.startswith("(") or name.startswith("test") or name in ("fmt", "from", "into", "default", "eq", "cmp", "partial_cmp", "add", "sub", "mul", "div", "neg", "deref", "clone", "next", "next_back", "size_hint", "len"):
                continue
            if not re.search(r"\b%s\b" % re.escape(name), hs):
                out.append("%s::%s" % (f.split("/")[-1], name))
    return sorted(set(out))

def main(argv):
    repo = os.environ.get("TEVEC_REPO", "/repo")
    allf = sorted({f for fs in anchor_files().values() for f in fs} | {f for fs in EXTRA.values() for f in fs})
    if "--update" in argv:
        os.makedirs(os.path.dirname(BASELINE), exist_ok=True)
        data = {f: fingerprint(os.path.join(repo, f)) for f in allf}
        data = {f: v for f, v in data.items() if v is not None}
        json.dump(data, open(BASELINE, "w"), indent=1, sort_keys=True)
        print("baseline: %d files, %d functions" % (len(data), sum(len(v) for v in data.values())))
        return 0
    for pid in sorted(anchor_files()):
        d = drift(pid, repo)
        if d: print(pid, d)
    return 0


# ---- the models are pure functions: the library must hold no mutable state that outlives a call -----------------
STATE_PAT = re.compile(r"thread_local!|\bstatic\s+mut\b|lazy_static!|\b(OnceCell|OnceLock|LazyLock|LazyCell|RefCell|Mutex|RwLock)\b|"
                       r"\bCell\s*<|\bAtomic[A-Z][A-Za-z0-9]*\b|\bstatic\s+[A-Z_0-9]+\s*:\s*(?!&'static\s+str|&\[|\[|usize|u8|u16|u32|u64|i8|i16|i32|i64|f32|f64|bool|&str)")
def mutable_statics(repo):
    """places of the workspace's library sources (comments stripped, tests / target / examples skipped) that declare
    state outliving a call: thread_local!, static mut, lazy / once cells, interior mutability, atomics"""
    hits = []
    for root, dirs, files in os.walk(repo):
        dirs[:] = [d for d in dirs if d not in ("target", ".git", "tests", "examples", "benches")]
        if os.sep + "src" not in root + os.sep and not root.endswith("src"):
            continue
        for f in files:
            if not f.endswith(".rs"): continue
            path = os.path.join(root, f)
            try: txt = _strip(open(path, errors="replace").read())
            except OSError: continue
            for m in STATE_PAT.finditer(txt):
                hits.append("%s: %s" % (os.path.relpath(path, repo), m.group(0).strip()))
    return sorted(set(hits))

if __name__ == "__main__":
    sys.exit(main(sys.argv[1:]))
