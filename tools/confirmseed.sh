#!/bin/sh
# tools/confirmseed.sh <Cxx> <k>: confirm a seeded change myself in its scratch worktree /tmp/seed-Cxx-k:
#  (1) the patch is what the worktree holds, (2) the library's own suite passes with it, (3) the demo fails with it,
#  (4) the demo passes without it.  Prints CONFIRMED or the step that failed.  Leaves the worktree with the change applied.
P=$1; K=$2; WT=/tmp/seed-$P-$K; OUT=/tmp/seedout-$P-$K
export CARGO_NET_OFFLINE=true
cd $WT || exit 2
git diff > /tmp/confirm-$P-$K.diff
[ -s /tmp/confirm-$P-$K.diff ] || { git apply $OUT/patch.diff || { echo "FAILED: patch does not apply"; exit 1; }; }
git diff | diff -q - $OUT/patch.diff >/dev/null || echo "note: worktree diff differs textually from patch.diff (using patch.diff semantics: re-applying)"
git checkout -- . && git apply $OUT/patch.diff || { echo "FAILED: patch.diff does not apply to HEAD"; exit 1; }
echo "== suite with the change"
timeout 2400 cargo test --workspace --no-fail-fast --offline 2>&1 | grep -E "^test result|FAILED|panicked|error(\[|:)" > /tmp/confirm-$P-$K.suite
cat /tmp/confirm-$P-$K.suite | sort | uniq -c
grep -qE "FAILED|failed;|error" /tmp/confirm-$P-$K.suite && ! grep -q " 0 failed" /tmp/confirm-$P-$K.suite && { echo "FAILED: suite does not pass"; exit 1; }
grep -E "test result" /tmp/confirm-$P-$K.suite | grep -vq " 0 failed" && { echo "FAILED: suite has failures"; exit 1; }
NPASS=$(grep -E "test result: ok" /tmp/confirm-$P-$K.suite | sed 's/.*ok\. \([0-9]*\) passed.*/\1/' | paste -sd+ | bc)
echo "suite: $NPASS tests passed"
cd $OUT/demo || { echo "FAILED: no demo"; exit 1; }
[ -f Cargo.lock ] || cp $WT/Cargo.lock .
RUNCMD="cargo run --offline"; grep -q "#\[test\]" -r src tests 2>/dev/null && ! [ -f src/main.rs ] && RUNCMD="cargo test --offline"
echo "== demo with the change ($RUNCMD)"
timeout 1500 $RUNCMD >/tmp/confirm-$P-$K.with 2>&1; W=$?
echo "exit $W"
cd $WT && git checkout -- . && cd $OUT/demo
echo "== demo without the change"
timeout 1500 $RUNCMD >/tmp/confirm-$P-$K.without 2>&1; WO=$?
echo "exit $WO"
cd $WT && git apply $OUT/patch.diff
rm -rf $OUT/demo/target
if [ $W -ne 0 ] && [ $WO -eq 0 ] && [ "$NPASS" -ge 65 ]; then echo "CONFIRMED $P-$K: suite $NPASS passed (cargo test incl. doctests, 0 failed) with change; demo exit $W with, 0 without"; else echo "NOT CONFIRMED $P-$K (suite=$NPASS with=$W without=$WO)"; tail -5 /tmp/confirm-$P-$K.with; exit 1; fi
