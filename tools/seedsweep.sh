#!/bin/sh
# tools/seedsweep.sh <VERIF_SEED> [seed-ids...]: run every archived seeded change against the check(s) that caught it, with
# another generator seed and the plain quick generators (no escalation) — how robust is the detection to the PRNG seed?
# Works on the repo named by TEVEC_REPO (default /repo; use a snapshot: vp run --with-repo).
SEED=$1; shift
REPO=${TEVEC_REPO:-/repo}
ROOT=$(cd "$(dirname "$0")/.." && pwd)
IDS="$@"; [ -z "$IDS" ] && IDS=$(ls $ROOT/seeded)
git -C $REPO status --short | grep -q . && { echo "$REPO not clean"; exit 1; }
for S in $IDS; do
  P=$(python3 -c "import json;print(json.load(open('$ROOT/seeded/$S/meta.json'))['caught_by'][0])")
  git -C $REPO apply $ROOT/seeded/$S/patch.diff || { echo "$S: patch does not apply"; continue; }
  OUT=$(cd $ROOT && VERIF_SEED=$SEED VERIF_NO_ESCALATE=1 TEVEC_REPO=$REPO timeout 1800 ./check $P --tier quick 2>&1 | grep -E "^\[C" | tail -1)
  git -C $REPO checkout -- .
  M=$(echo "$OUT" | sed 's/.*mismatches \([0-9]*\).*/\1/')
  echo "seed=$SEED $S vs $P: mismatches $M"
done
(cd $ROOT && TEVEC_REPO=$REPO python3 tools/gen_tables.py >/dev/null)
