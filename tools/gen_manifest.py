#!/usr/bin/env python3
"""Regenerates MANIFEST.json from tools/props.py (claimed properties) — run after editing props.py."""
import json, os, sys
ROOT = os.path.dirname(os.path.dirname(os.path.abspath(__file__)))
sys.path.insert(0, os.path.join(ROOT, "tools"))
import props
ids = [json.loads(l)["id"] for l in open(os.path.join(ROOT, "properties.jsonl"))]
checks, na = [], []
for pid in ids:
    cfg = props.PROPS.get(pid)
    if pid in getattr(props, 'HOLD', {}):
        na.append(dict(property_id=pid, reason=props.HOLD[pid])); continue
    if cfg is None or cfg.get("disabled"):
        na.append(dict(property_id=pid, reason=props.NOT_CLAIMED.get(pid, "check not built yet (model and proofs in progress); not claimed")))
        continue
    checks.append(dict(
        property_id=pid,
        quick_cmd="./check %s --tier quick" % pid,
        thorough_cmd="./check %s --tier thorough" % pid,
        evidence_file="evidence/%s.json" % pid,
        replay_cmd_template="./check --replay {path}",
        engine="coq-model+correspondence",
        level_claimed=dict(category="proof", text=cfg["level_text"], design_ref=cfg.get("design_ref", "DESIGN.md section 4, " + pid)),
        level_note=cfg["level_note"],
        technique="machine-checked proof in Coq 8.16 of a hand-written Gallina model + differential correspondence check against the Rust implementation"
                  + (" + finite tables regenerated from the Rust source by a translator (tools/gen_tables.py) and proved equal to the model's" if cfg.get("src_tables") else ""),
    ))
m = dict(
    version=1,
    setup_cmd="./check --setup",
    hooks=dict(guard="tevec_verif", enable="RUSTFLAGS='--cfg tevec_verif' (set by ./check for every harness build; no source hook is needed so far)",
               baseline_off_cmd="cd /repo && cargo test --workspace --no-fail-fast --offline",
               source_commits=props.HOOK_COMMITS, add_only=True),
    engines=[dict(name="coq-model+correspondence", path="coq/ harness/ harness-pl/ tools/ anchors/ check",
                  serves_properties=[c["property_id"] for c in checks],
                  kind_free_text="Coq 8.16.1 development (model, proofs, property theorems; Flocq for the binary64 rounding theorems) + Rust differential harness crates built against /repo by path (harness-pl: Polars backend, thorough tier) + python driver (source fingerprints, table translator, coqchk in the thorough tier)")],
    checks=checks,
    notes="See DESIGN.md. KNOWN_FINDINGS lists recorded findings and fixed defects.",
    not_applicable=na,
)
json.dump(m, open(os.path.join(ROOT, "MANIFEST.json"), "w"), indent=1)
print("claimed:", [c["property_id"] for c in checks])
