#!/bin/sh
# tools/trypatch.sh <patch.diff> <prop> [props...]: run checks (quick generators, no escalation) against an arbitrary patch
PATCH=$1; shift
git -C /repo status --short | grep -q . && { echo "/repo not clean"; exit 1; }
rm -rf /verif/.build/evidence.bak; cp -a /verif/evidence /verif/.build/evidence.bak
git -C /repo apply $PATCH || exit 1
for q in "$@"; do
  echo "== $q vs $PATCH (quick generators, no escalation)"
  VERIF_NO_ESCALATE=1 timeout 1800 /verif/check $q --tier quick 2>&1 | grep -E "VIOLATION|^\[C" | head -4
done
git -C /repo checkout -- .
python3 /verif/tools/gen_tables.py >/dev/null   # the generated tables follow the restored source
rm -rf /verif/evidence; mv /verif/.build/evidence.bak /verif/evidence
