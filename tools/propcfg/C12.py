"""C12 — quantiles, percentile ranks, ranks and partitions are true order statistics."""
from fractions import Fraction

CFG = dict(
    bins=["c12"],
    imports=["Run.RunC12", "Run.RunC12Q"],
    exhaustive=True,
    rule="series: exhaustive over the alphabet {-1, 2, 3, null} for every length 0..=3 (thorough 0..=4) with every "
         "parameter combination, lengths 4..=5 (thorough 5..=6) every series with <= 2 valid elements (the only valid "
         "element in every position) + a sample of the others, + 150 (thorough 1500) structured random series of "
         "length 4..12 (24) (uniform / 3-letter alphabet with ties / monotone with ties / constant / random walk; "
         "integral or k/4 values) x 9 null patterns; vquantile: q in {0,.1,.25,1/3,.5,2/3,.75,.9,1} + j/(n-1), +-1ulp, "
         "+-1e-10 for every j + 0.5+ulp + one random q + invalid q (-0.1, 1+1e-9, NaN), x 4 interpolation methods; vmedian; "
         "vpercentile_of: scores null / members / non-members x {rank, weak, strict}; vrank: pct x rev x output f64 / "
         "Option<f64>; vpartition and varg_partition: k in 0..=len+1 x sort x rev; element types f64, Option<f64>, and on "
         "integral series Option<i32>, i32 (null-free); sources Vec, VecDeque (wrapped ring), ndarray owned and stride-2 view "
         "(primary f64/Vec always + a rotating second configuration). Comparison with the model at Coq's binary64: quantiles "
         "within 1e-9 (and, DESIGN 5.5, against the exact-rational evaluation of the same model with either neighbour "
         "accepted when (n-1)q is within 1e-9 of an integer); ranks / percentile ranks within 1e-12; partitions: announced "
         "length, sorted output positionally, unsorted output as a multiset of (padding?, value) entries; arg-partitions "
         "through the values at the returned positions plus a flag: indices in range, distinct, never of a null. "
         "nt=0 marks the empty series",
    theorem_hint="Props/C12.v: C12_quantile_*, C12_percentile_of, C12_rank_*, C12_partition_*, C12_arg_partition_*, "
                 "C12_binary64_*, C12_quantile_index_binary64, C12_quantile_index_law_binary64, C12_quantile_total_binary64, "
                 "C12_*_any_carrier, C12_quantile_elements_binary64, C12_interpolation_binary64_*",
    level_text="Proof (Coq, carrier option R): 17 theorems about the Gallina model of vquantile / vmedian, vpercentile_of, "
               "vrank, vpartition and varg_partition, for every series and every parameter, stated against ANY sorted "
               "arrangement s of the non-null elements: quantile = value at fractional index (n-1)q of s under the four "
               "interpolations on both branches of the code (q <= 1/2 ascending select, q > 1/2 descending select with 1-q), "
               "null iff no valid element; percentile_of = the rank / weak / strict proportions; rank = #before + (#equal+1)/2 "
               "(/ valid count when pct), nulls get null, every slot written (loop invariant of the run-length loop); "
               "partition = permutation of (k+1 first of s ++ null padding), exactly that when sorted, with the length / "
               "sub-multiset / dominance consequences; arg-partition = distinct in-range indices of non-null elements with "
               "those values ++ -1 padding. Sorting is a verified insertion sort under the model's sort_cmp (nulls last). "
               "AT BINARY64 (9 further theorems, Coq's primitive float = the carrier the correspondence run evaluates, through "
               "Flocq's specification of IEEE 754 arithmetic): the model's floor/ceil are the mathematical floor/ceiling of every "
               "finite float; (n-1) as f64 is exact below 2^53; the guard 0 <= q <= 1 means q finite with value in [0,1]; THE INDEX "
               "LAW: on the branch the code takes (q <= 0.5: fl((n-1) q), q > 0.5: fl((n-1) fl(1-q))) the fractional index h is "
               "finite and 0 <= floor h <= ceil h <= n-1, ceil h - floor h <= 1, for every q in [0,1] and EVERY n >= 1 "
               "(rounding to nearest is monotone and fixes representable numbers; the factor is <= 0.5 on either branch, which "
               "absorbs the rounding of the length cast beyond 2^53); for n-1 < 2^53 the same for both products whatever the "
               "branch, and a witness that this needs the bound; hence TransQuantile.QIdxLaw at binary64 and totality of "
               "vquantile / vmedian at binary64 for every null dictionary (never a panic; Err exactly for q outside [0,1], NaN "
               "included). Still NOT proved at binary64: the VALUE of the quantile (interpolation arithmetic vi + (vj - vi) * "
               "fraction is rounded; compared within 1e-9 by the correspondence run) and which of two neighbouring order "
               "statistics is selected when (n-1)q is within rounding distance of an integer (DESIGN 5.5). "
               "AUDIT EXTENSION (16 further theorems, Proofs/Audit12.v + Audit12Float.v; matrix in notes/C12.md). At EVERY carrier "
               "and every null dictionary (binary64, integers, Option<_>; no order law, axiom-free): vpartition returns Ok with "
               "exactly k+1 entries = non-null elements of the series (a sub-multiset of size min(k+1,n)) followed by nulls only, "
               "for every k incl. k >= len, both sort flags, both directions, whenever T::none() is a null; when T::none() panics "
               "(integer element types) it panics exactly when padding is needed; varg_partition always returns k+1 entries = "
               "min(k+1,n) distinct positions of NON-NULL elements followed by -1 only; vquantile, given floor <= ceil < n, is "
               "qvalue(vi, vj) of two non-null ELEMENTS of the series (lower / higher / exact index return an element unchanged), "
               "n = 0 gives null, n = 1 the only valid element; vpercentile_of is the documented proportion of the three counters "
               "(# non-null below / equal / total, in the carrier's comparisons); vrank output has the input's length. AT BINARY64: "
               "the index premises hold, so the quantile of every series with >= 2 valid elements is computed from two elements of "
               "the input; the interpolation fl(vi + fl(fl(vj - vi) * fraction)) with 0 <= fraction <= 1 and no overflow is finite "
               "and lies between vi and fl(vi + fl(vj - vi)) on vj's side of vi; it lies in [vi, vj] when vj - vi is exact "
               "(Sterbenz: within a factor 2); and witnesses that WITHOUT exactness 'in [vi, vj]' is false at fraction = 1, reachable through vquantile itself (50 elements, q = fl(1/49): linear above higher by 2^-53). "
               "Still partial: the upper bound for fraction < 1 without exactness, fraction in [0,1] as computed by the code, "
               "average ranks at a generic ordered carrier (proved at option R), which arrangement the selection picks on ties. "
               "The model is tied to the code by the differential run described in the rule. "
               "Second, static tie (translator): the interpolation-method tables of vquantile (final match and the early returns of the descending branch: which of vi / vj / midpoint / linear each arm returns), its branch test, comparators and count guards, and the counting closure and kind table of vpercentile_of are re-extracted from the Rust source text on every run and Proofs/SrcTablesAgg.v re-proves, for every q / method / score / series, that Model/Quantile.v uses exactly those (src_vquantile_conforms, src_vpercentile_of_conforms). Likewise (Proofs/SrcTablesMapPart.v) the guards, padding, comparators, select_nth / truncate constants of vpartition / varg_partition and the comparator, length-1 return and tie-group rank expressions of vrank are re-extracted from vec_map.rs and proved to be those of Model/Partition.v / Model/Rank.v for every carrier, series, kth and flags (src_vpartition_conforms, src_varg_partition_conforms, src_rk_avg_conforms, src_rk_one_conforms, src_vrank_conforms).",
    src_tables=True,   # tools/gen_tables.py + Proofs/SrcTablesAgg.v: decision tables regenerated from the Rust source on every run
    src_tables_proofs=["Proofs/SrcTablesAgg.vo", "Proofs/SrcTablesMapPart.vo"],
    level_note="Trusted: Coq kernel + Reals axioms for the theorems stated over option R; for the binary64 theorems "
               "additionally the standard library's specification of the primitive float operations (Floats/FloatAxioms.v: "
               "Prim2SF_valid, SF2Prim_Prim2SF, Prim2SF_SF2Prim, mul_spec, sub_spec, opp_spec, abs_spec, of_uint63_spec, "
               "leb_spec, eqb_spec) and the Flocq library (no axiom of its own); std's sort_unstable_by / "
               "select_nth_unstable_by post-conditions (modelled by a sort; order of ties unspecified, hence the "
               "multiset comparison); the model; harness and comparator.",
    trusted=["std::slice::sort_unstable_by / select_nth_unstable_by satisfy their documented post-conditions (modelled "
             "by a verified stable insertion sort; nothing compared depends on the order of ties)",
             "Reals axioms of the Coq standard library for the theorems over option R",
             "binary64 rounding of the quantile VALUE is not modelled by the proof instance (option R); the float instance "
             "mirrors the operation order and is compared within 1e-9; DESIGN 5.5 for (n-1)q at rounding distance of an "
             "integer (the INDEX arithmetic is proved at binary64: C12_quantile_index_binary64)",
             "Coq's primitive floats implement IEEE 754 binary64 as specified by Floats/FloatAxioms.v (stdlib axioms), and "
             "`usize as f64` is the correctly rounded conversion that `of_uint63` is (lengths below 2^63)"],
)


def _val(c):
    t, a, b = c
    if t == 0:
        return ("n", Fraction(a))
    if t == 1:
        return ("n", Fraction(a) * Fraction(2) ** b)
    if t == 5:
        return ("panic", a)
    return ("t", t)


def _close(x, y, rtol):
    if x[0] != y[0]:
        return False
    if x[0] != "n":
        return x == y
    if x[1] == y[1]:
        return True
    fx, fy = float(x[1]), float(y[1])
    return abs(fx - fy) <= rtol * max(1.0, abs(fx), abs(fy))


def _split(cells):
    groups, cur = [], []
    for c in cells:
        if c[0] == 9:
            groups.append(cur)
            cur = []
        else:
            cur.append(c)
    groups.append(cur)
    return groups


def compare(cmp, impl, model):
    kind = cmp.split(":")[1]
    if kind == "quant":
        # model: mirror (binary64) result [sep exact-rational alternatives...]
        groups = _split(model)
        mirror, alts = groups[0], groups[1:]
        if len(impl) != 1 or len(mirror) != 1:
            return "quantile: expected one cell, impl %d, model %d" % (len(impl), len(mirror))
        a = _val(impl[0])
        if not _close(a, _val(mirror[0]), 1e-9):
            return "impl %s, model (binary64 mirror) %s" % (impl[0], mirror[0])
        if alts and not any(len(g) == 1 and _close(a, _val(g[0]), 1e-9) for g in alts):
            return "impl %s matches none of the exact evaluations %s (DESIGN 5.5)" % (impl[0], alts)
        return None
    if kind in ("seq", "mset"):
        if len(impl) != len(model):
            return "length: impl %d cells, model %d cells" % (len(impl), len(model))
        vi, vm = [_val(c) for c in impl], [_val(c) for c in model]
        hdr = 1 if len(vi) % 2 == 1 else 2
        if vi[:hdr] != vm[:hdr]:
            return "header: impl %s, model %s" % (impl[:hdr], model[:hdr])
        pi = [tuple(vi[k:k + 2]) for k in range(hdr, len(vi), 2)]
        pm = [tuple(vm[k:k + 2]) for k in range(hdr, len(vm), 2)]
        if kind == "mset":
            pi, pm = sorted(pi, key=repr), sorted(pm, key=repr)
        for k, (x, y) in enumerate(zip(pi, pm)):
            if x != y:
                return "%s entry %d: impl %s, model %s" % ("sorted-multiset" if kind == "mset" else "sequence", k, x, y)
        return None
    return "unknown comparator " + cmp
