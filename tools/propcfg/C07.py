"""C07 — results are independent of input backend, output container and out-buffer path."""

def _split(cells):
    parts, cur = [], []
    for c in cells:
        if c[0] == 9:
            parts.append(cur); cur = []
        else:
            cur.append(c)
    parts.append(cur)
    return parts

def compare(cmp, impl, model):
    # custom:same2 — implementation result on some (input backend, output container, path), SEP,
    # the reference result (Vec -> Vec, returned): must be identical bit for bit (NaN = NaN)
    parts = _split(impl)
    if len(parts) != 2:
        return "malformed"
    a, b = parts
    if a != b:
        k = next((i for i, (x, y) in enumerate(zip(a, b)) if x != y), min(len(a), len(b)))
        return "differs from the Vec->Vec reference at cell %d: got %s, reference %s (lengths %d / %d)" % (
            k, a[k] if k < len(a) else None, b[k] if k < len(b) else None, len(a), len(b))
    return None

CFG = dict(
    bins=["c07"],
    # second harness crate harness-pl/ (tevec with the `polars` feature), built into .build/target-pl and run in the
    # THOROUGH tier only (cold build 37-60 s / ~1 GB of artefacts, warm < 1 s); the quick tier never touches it
    bins_thorough_pl=["c07pl"],
    imports=["Run.RunC07"],
    src_tables=True,   # tools/gen_tables.py (+ tools/gen_tables_drv.py) + Proofs/SrcTablesDrv.v: the driver bodies are re-read from the Rust source on every run
    src_tables_proofs=["Proofs/SrcTablesDrv.vo"],
    rule="part=access: containers of length 0..=6 (thorough 9): VecDeque built by random push/pop/rotate sequences (every head "
         "offset, wrapped and contiguous; observed layout read back with as_slices), Arc<VecDeque>, Vec, [T], [T;3], Arc<Vec>, the "
         "option view, ndarray owned arrays and views with step in {1,2,3,-1,-2} from two start offsets (layout read back as "
         "offset/stride/len): len, checked get(0..=len), forward and backward iteration, every slice(a,b), try_as_slice — compared "
         "exactly with the container model. part=matrix (fn=...): 5 (thorough 14) series x 12 representative rolling functions "
         "(one per driver kind and family) x input backends (Vec, Arc<Vec>, VecDeque at 3 ring offsets, Arc<VecDeque>, ndarray "
         "owned / steps 2,3,-1,-2 / mutable view) x output containers (Vec, VecDeque, Array1) x {returned, caller buffer}: each "
         "result must equal the Vec->Vec reference bit for bit. nt=0: empty. "
         "THOROUGH TIER ONLY, binary c07pl of harness-pl/ (tevec built with feature polars): part=access on Polars "
         "ChunkedArray<f64> and &ChunkedArray<f64> for EVERY composition of len 0..=8 into 1, 2 and 3 chunks (every chunk "
         "boundary, empty chunks), random validity (all-null / all-valid chunks, bitmap present or absent, a poison value "
         "under every null slot), arrays produced by append / slice / slice of slice (bitmap offsets) / rechunk / collect / "
         "from_vec / full_null and by the glue's own collect_from_iter / collect_from_trusted / uninit, plus i64, i32, f32, "
         "bool arrays; the chunk layout given to the model (run_chunked) is read back with arrow's per-chunk iterator. "
         "part=matrix: 12 series x 5 windows x {ts_vsum, ts_vstd, ts_vargmin, ts_vzscore, ts_vrank, ts_vcorr with a Vec / "
         "a Polars second series} x Polars inputs (1, 2, 3 chunks, by reference, a slice of a longer array) x outputs "
         "(Vec, Float64Chunked, Vec<Option<f64>>, VecDeque, Array1 returned; Vec caller buffer) and Vec / VecDeque / "
         "reversed ndarray view / option view -> Float64Chunked, each equal to the Vec->Vec reference bit for bit; the "
         "caller-buffer path into a Polars buffer must panic (documented unimplemented) unless there is nothing to write. "
         "part=valid (same containers, ndarray base memory with NaNs of both signs): vget(0..=len), uvget(0..len), to_opt_iter, "
         "iter_cast::<f64|i32>, opt_iter_cast::<f64|i32> compared exactly with valid_get / the element-wise models over the "
         "container model's own get. part=mut (every Vec1Mut container: Vec, VecDeque in every ring layout, Array1, ArrayViewMut1 "
         "with step in {1,2,3,-1,-2} x two offsets): for every i a marker is written through get_mut(i) (0..=len, None beyond), "
         "uget_mut(i) and try_as_slice_mut()[i] (Null when not offered, else slice length and every index), the whole sequence is "
         "re-observed with titer() after each write and compared with the model's set (ring: buf[(head+i) mod cap]; strided: "
         "base[off+i*step]; slice: buf[head+k] / base[off+k]); the element is restored through the same accessor.",
    theorem_hint="Props/C07.v",
    level_text="Proof: the accessor laws of the container models (ring buffer = VecDeque, strided view = ndarray, chunked array "
               "with validity = Polars, Arc, option view): checked get, iteration, length, slicing and the contiguous-slice view "
               "all describe one logical sequence (try_as_slice sound for every head offset / stride; refuted for the "
               "pre-repair memory-order accessor with a witness); the returned and caller-buffer paths agree for every "
               "add-emit-remove callback (C02_bodies_agree) and every rolling feature is total with one output per input "
               "(Proofs/Generic.v). A Polars array as OUTPUT container (Model/PolarsOut.v, after the repair of polars.rs): results "
               "stored by index go through a staging buffer (all slots null, uset, assume_init -> one chunk); 11 theorems: for "
               "any store sequence the staged array is slot-by-slot `join` of the generic MaybeUninit buffer (equal when that is "
               "fully written, null instead of uninitialised memory where not), always of the requested length; hence the five "
               "index bodies (rolling_apply / _idx / rolling2_apply / _idx / rolling_custom) staged into a Polars array equal the "
               "generic caller-buffer result for every window >= 1, callback and series (and any window through lift_uninit), "
               "the slice form equals the default iterator path collected into an array, and every rolling feature staged into "
               "Polars equals either body collected into Polars. Before the repair the staged path panicked (refuted on "
               "w=1, xs=[x]: see notes/C07.md). "
               "Mutable accessors (34 further theorems): a write through get_mut / uget_mut at logical index i is "
               "`update (to_list c) i v` for the ring buffer (any head offset) and the strided view (any non-zero stride), rejected "
               "out of range, preserves well-formedness and layout, get-after-set laws; try_as_slice_mut is offered exactly when "
               "try_as_slice is and a write through it at k IS the logical write at k (so a reversed view offers no mutable "
               "slice; the memory-order variant is refuted with a witness); vget = get then to_opt on every container, position i "
               "of to_opt_iter is vget(i), opt_iter_cast = cast after to_opt_iter, iter_cast = cast after get. "
               "Audit YB (58 further theorems, notes/C07.md has the clause-by-clause matrix): the VecDeque laws under the weaker "
               "ring_wf0 (also the deque without allocation, which ring_wf excluded and the run produces); iteration = the two halves "
               "of as_slices() concatenated, reverse iteration, sub-slicing and checked get for ring / strided (any stride) / chunked "
               "(also a slice that keeps its chunks); the reversed view IS the reversed sequence (involutive), the stepped view takes "
               "every k-th element; try_as_slice is offered EXACTLY when the ring has not wrapped / the view has stride 1 or at most one "
               "element, and is then complete; Arc is transparent; the option view's len / get / slice / rev over every backend; a view "
               "is determined by (len, uget): two containers of any kinds with equal length and equal uget have the same logical "
               "sequence (the bridge to the generic algorithms); the MaybeUninit output buffer: uset slot / length / commutation laws, "
               "uninit exposes nothing, assume_init exactly when every slot is written, stores in any order (slot j = last value stored "
               "at j) and as a permutation (slot j = THE value), a missing store is detected; a fresh VecDeque / Array1 / Arc / single "
               "chunk reads back the collected sequence; the lazy forms collected / written through write_trust_iter; the returned and "
               "caller-buffer paths of every rolling feature agree for EVERY window (hypothesis 1 <= w dropped; window 0 rejected alike). "
               "REFUTED for the slice form at window 0 (C07_out_path_custom_window0_refuted): the lazy path underflows on `window - 1` "
               "before the assertion, so the two paths differ on every series and on the empty series one returns [] while the other "
               "panics - the known row of the degenerate table in notes/C02.md, a clean panic in C10's sense. Element type of the chunked model (2 further theorems, Proofs/LooseEnds.v): every C07_chunked_* law is quantified over an ARBITRARY element type, so it covers the hand-written Polars string impl (Vec1View<Option<&str>> for &ChunkedArray<StringType>, observed by c07pl.rs observe_str / tag pl_str against run_chunked) as it stands; only the interpreter is instantiated at float, and C07_chunked_accessors_natural_any_element / C07_chunked_observation_any_element prove that rendering the elements (strings as the numerals they spell) commutes with len / get / iteration / slices (sequence and chunk layout) and that run_chunked of the rendered array is the observation of the array itself, for every element type and rendering. All model functions are functions of that logical sequence by construction. The container "
               "semantics of std/ndarray/Polars are modelled; the tie is the accessor correspondence plus the exhaustive "
               "backend x container x path matrix run on the implementation. Second tie (translator): the bodies of the twelve `fn rolling*` of view.rs and the Vec / ndarray / Arc overrides are parsed from the Rust source on every run (tools/gen_tables_drv.py) and proved (Proofs/SrcTablesDrv.v, 23 axiom-free theorems, every window / series / pair of lengths) to denote exactly the guards (check2_default / check2_to / check2_custom, by assertion message), the call lists (args_iter, args_iter_idx, args_iter_idx2, slices_iter, calls_to, calls_to_idx, slices_to) and the backend routing of Model/Driver.v.",
    level_note="Trusted: Coq kernel; the container models (std VecDeque, ndarray views, Polars chunked arrays are external "
               "libraries); the matrix part compares the implementation with itself across backends (relational), the "
               "per-function model ties are C01/C03/C04. Polars backend: the chunked model is tied to polars.rs by the "
               "c07pl binary of the separate crate harness-pl/ in both tiers (pre-built by ./check --setup).",
)
