"""C07 — results are independent of input backend, output container and out-buffer path."""

def _split(cells):
    parts, cur = [], []
    for c in cells:
        if c[0] == 9:
            parts.append(cur); cur = []
        else:
            cur.append(c)
    parts.append(cur)
    return parts

def compare(cmp, impl, model):
    # custom:same2 — implementation result on some (input backend, output container, path), SEP,
    # the reference result (Vec -> Vec, returned): must be identical bit for bit (NaN = NaN)
    parts = _split(impl)
    if len(parts) != 2:
        return "malformed"
    a, b = parts
    if a != b:
        k = next((i for i, (x, y) in enumerate(zip(a, b)) if x != y), min(len(a), len(b)))
        return "differs from the Vec->Vec reference at cell %d: got %s, reference %s (lengths %d / %d)" % (
            k, a[k] if k < len(a) else None, b[k] if k < len(b) else None, len(a), len(b))
    return None

CFG = dict(
    bins=["c07"],
    imports=["Run.RunC07"],
    rule="part=access: containers of length 0..=6 (thorough 9): VecDeque built by random push/pop/rotate sequences (every head "
         "offset, wrapped and contiguous; observed layout read back with as_slices), Arc<VecDeque>, Vec, [T], [T;3], Arc<Vec>, the "
         "option view, ndarray owned arrays and views with step in {1,2,3,-1,-2} from two start offsets (layout read back as "
         "offset/stride/len): len, checked get(0..=len), forward and backward iteration, every slice(a,b), try_as_slice — compared "
         "exactly with the container model. part=matrix (fn=...): 5 (thorough 14) series x 12 representative rolling functions "
         "(one per driver kind and family) x input backends (Vec, Arc<Vec>, VecDeque at 3 ring offsets, Arc<VecDeque>, ndarray "
         "owned / steps 2,3,-1,-2 / mutable view) x output containers (Vec, VecDeque, Array1) x {returned, caller buffer}: each "
         "result must equal the Vec->Vec reference bit for bit. Polars is not built into this harness (see DESIGN). nt=0: empty. "
         "part=valid (same containers, ndarray base memory with NaNs of both signs): vget(0..=len), uvget(0..len), to_opt_iter, "
         "iter_cast::<f64|i32>, opt_iter_cast::<f64|i32> compared exactly with valid_get / the element-wise models over the "
         "container model's own get. part=mut (every Vec1Mut container: Vec, VecDeque in every ring layout, Array1, ArrayViewMut1 "
         "with step in {1,2,3,-1,-2} x two offsets): for every i a marker is written through get_mut(i) (0..=len, None beyond), "
         "uget_mut(i) and try_as_slice_mut()[i] (Null when not offered, else slice length and every index), the whole sequence is "
         "re-observed with titer() after each write and compared with the model's set (ring: buf[(head+i) mod cap]; strided: "
         "base[off+i*step]; slice: buf[head+k] / base[off+k]); the element is restored through the same accessor.",
    theorem_hint="Props/C07.v",
    level_text="Proof: the accessor laws of the container models (ring buffer = VecDeque, strided view = ndarray, chunked array "
               "with validity = Polars, Arc, option view): checked get, iteration, length, slicing and the contiguous-slice view "
               "all describe one logical sequence (try_as_slice sound for every head offset / stride; refuted for the "
               "pre-repair memory-order accessor with a witness); the returned and caller-buffer paths agree for every "
               "add-emit-remove callback (C02_bodies_agree) and every rolling feature is total with one output per input "
               "(Proofs/Generic.v). Mutable accessors (34 further theorems): a write through get_mut / uget_mut at logical index i is "
               "`update (to_list c) i v` for the ring buffer (any head offset) and the strided view (any non-zero stride), rejected "
               "out of range, preserves well-formedness and layout, get-after-set laws; try_as_slice_mut is offered exactly when "
               "try_as_slice is and a write through it at k IS the logical write at k (so a reversed view offers no mutable "
               "slice; the memory-order variant is refuted with a witness); vget = get then to_opt on every container, position i "
               "of to_opt_iter is vget(i), opt_iter_cast = cast after to_opt_iter, iter_cast = cast after get. All model functions are functions of that logical sequence by construction. The container "
               "semantics of std/ndarray/Polars are modelled; the tie is the accessor correspondence plus the exhaustive "
               "backend x container x path matrix run on the implementation.",
    level_note="Trusted: Coq kernel; the container models (std VecDeque, ndarray views, Polars chunked arrays are external "
               "libraries); the matrix part compares the implementation with itself across backends (relational), the "
               "per-function model ties are C01/C03/C04. Polars backend: modelled (chunked) but not exercised by the harness.",
)
