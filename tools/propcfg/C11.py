"""C11 — aggregations equal their textbook definitions over the non-null elements."""
CFG = dict(
    bins=["c11"],
    imports=["Run.RunC11"],
    rule="single series: exhaustive over the alphabet {-1, 0, 2, null} up to length 5 (thorough 6) and over the quarter "
         "alphabet {-0.75, 0.25, 2.5, null} up to length 3 (4) + 300 (2000) structured random series of length 1..40 "
         "(integers or dyadic k/4; uniform / 3-letter alphabet with heavy ties / monotone up / down / constant / random walk) "
         "x 9 null patterns; every function is called for EVERY min_periods 0..=len+1; element types f64, f32, Option<f64>, "
         "i32, i64, Option<i32>, bool, Option<bool>; sources: owned Vec, borrowed titer(), option view opt(), VecDeque "
         "(wrapped ring; titer and owned), ndarray (owned and reversed view), plain std iterator; permuted copies (reverse, "
         "rotate, shuffle) of the implementation's input against the model on the original for the symmetric functions; "
         "two series (vcov, vcorr_pearson with f64/f32/Option<f64> output, the Vec1View-level vcorr wrapper with omitted "
         "min_periods): all pairs over the alphabet up to length 2 (3), x {0,2,null} at length 3, random pairs that are "
         "independent / affine images (|r| = 1) / constant second series / of unequal length, independent null patterns; "
         "masked sum / mean: all (series, mask) over {-1,0,2,null} x {true,false,null} up to length 3 ({-1,2,null} x {true,false,null} at length 4) + random, masks of "
         "bool, Option<bool>, i32 0/1, f64 0/1/NaN, unequal lengths; booleans: all Option<bool> series up to length 5 (7) + "
         "random. Counts, indices, extrema, sums, first/last are compared exactly; mean/var/std/cov/masked mean within 1e-9 "
         "and skew/kurt/corr within 1e-7 of the model evaluated in Coq's binary64 (f32 output 1e-6), nullness exact. "
         "A case is non-trivial when the series is non-empty (nt=0 otherwise). "
         "Audit additions (exact comparison): group number = Number::{min_with, max_with, floor, ceil, abs, n_add, n_prod, kh_sum} on all ordered "
         "pairs of 18 f64 specials (both NaN signs, +-inf, +-0, 2^52+1, +-2.5e15+-0.5, +-1e300, 5e-324, MAX) with series on which Kahan's "
         "compensation matters, 300 (1500) random dyadic / decimal / mixed-magnitude cases, f32, i32, i64, u64, usize; number_range = min_ / max_ "
         "of the six types; group casts = Number::{to, fromas} between f64 / f32 / i32 / i64 / usize on 16 floats x 10 integers (NaN, +-inf, out of "
         "range, 2^24+1, 2^53+1) against the C15 cast model; groups vfold2 / vapply = IterBasic::{vfold2, vapply} with order-sensitive callbacks, "
         "exhaustive over {-1,0,2,null} up to 3 x 3 + random, f64 / Option<f64> / mixed, unequal lengths; group zero_sign = sign bit of vmin / vmax "
         "over {+0,-0,NaN,1,-1} up to length 3.",
    theorem_hint="Props/C11.v: C11_* (counts, first/last, any/all, sum, mean, var/std, skew, kurt, extrema, arg-extrema, "
                 "masked, cov, corr, nullness, permutation invariance); audit (A1)-(A8): C11_number_*, C11_vfold2, C11_vapply, "
                 "C11_arg_points_at_extreme_unconditional, C11_*_ordered_carrier, C11_*_binary64, C11_perm_extrema_bitwise_refuted, "
                 "C11_plain_*, C11_two_series_truncate, C11_masked_perm_*, C11_null_below_*, C11_valid_nan_poisons",
    level_text="Proof (Coq): the one-pass folds of agg.rs / tea-agg (Model/Agg.v, written once over the numeric carrier and the "
               "null dictionary) are proved equal to the textbook definitions over the non-null elements for every input: "
               "exact equalities over option R for sum, mean, sample variance / std (EPS floor explicit and bounded), adjusted "
               "skewness and excess kurtosis, sample covariance, Pearson correlation, masked sum / mean; order-theoretic "
               "characterisations (any carrier with a strict total order on the valid values: reals and integers) for "
               "min / max and the FIRST arg-extreme with an index that counts nulls; counts, first / last valid, any / all; "
               "nullness exactly below max(min_periods, intrinsic minimum); permutation invariance of the symmetric ones. "
               "Binary64 rounding of the one-pass SUM is a theorem too (Proofs/RoundSum.v, (R1)-(R4), about the execution instance "
               "at Coq's primitive float with Flocq's IEEE addition): whenever the computed sum is finite, |vsum_float xs - sum of "
               "the valid elements| <= ((1+u)^n - 1) * sum |valid elements| (u = 2^-53, n valid elements; <= n u (1+u)^n), the float "
               "and option-R models are null together, a finite result certifies finite inputs, and on dyadic-grid inputs (the "
               "generated k/4 values) no addition rounds: model(float) = model(option R). The one-pass MEAN likewise (Proofs/RoundMean.v, "
               "(R5)-(R8); Flocq's IEEE division, which can underflow): whenever the computed mean is finite and n < 2^53, "
               "|vmean_float xs - mean of the valid elements| <= ((1+u)^(n+1) - 1) * (sum |valid|) / n + eta with eta = 2^-1075 "
               "(no eta when the quotient is in the normal range; an example shows eta cannot be dropped), the option-R model is "
               "non-null and within the bound, a finite mean certifies n >= 1 and finite inputs (these theorems additionally rest on "
               "the standard library's FloatAxioms.div_spec / of_uint63_spec). Still partial: no rounding bound for "
               "var / std / skew / kurt / cov / corr — notes/C11.md (X19) states which bounds are provable (accumulator errors, "
               "exactness on a grid, an ABSOLUTE bound for the population variance) and which are false without the condition "
               "number (relative bounds for the closed forms under cancellation, stability of the EPS branch); there rounding "
               "remains the comparator tolerance. "
               "Audit (notes/C11.md, matrix clause x theorem; 49 more theorems): the Number helpers of number.rs are modelled (Model/AggNumber.v) and "
               "characterised — n_add / n_prod (a null `other` is skipped, `self` never inspected; folding them is the vsum fold, so the rounding bound "
               "(R2) covers it), Kahan's kh_sum (compensation identically 0 and sum = plain sum on Z and option R; no null test: one NaN poisons sum "
               "and compensation; at binary64 the step operation by operation and a witness that the compensation is effective), floor / ceil "
               "(identity on integers; integer-valued with f <= x < f+1 on reals, null stays null), min_with / max_with on EVERY operand (Rmin / Rmax / "
               "Z.min / Z.max; a NaN `other` is ignored, a NaN `self` stays — also at binary64), to / fromas (= the Cast of C15); vfold2 (= fold over the "
               "pairwise-complete pairs, zip truncation) and vapply. Extrema and first arg-extrema hold over every strict WEAK order (OrdLaws: reals, "
               "integers, binary64 with +0 / -0) instead of a strict total one, with binary64 instances for f64 and canonical Option<f64>; that the "
               "arg-extreme indexes a valid element holding exactly the value vmin / vmax return (and is None iff there is no valid element) needs NO "
               "order hypothesis at all. Permutation invariance of vmin / vmax at binary64 holds up to == and is REFUTED bit for bit ([+0; -0] vs [-0; +0], "
               "C11_perm_extrema_bitwise_refuted; the witness is replayed on the code on every run, group zero_sign) — compatible with DESIGN 5.1. "
               "The plain family is described totally (first / last / n_sum on every carrier, integer and real arg-extrema incl. argmax, min / max on "
               "input WITH NaN: a leading NaN is returned, a later one skipped). Zip truncation of two-series and masked functions; permutation "
               "invariance of the masked sum / mean. 'Null when fewer than the required number of valid observations' (the if-direction) for EVERY "
               "carrier, dictionary and cast with no canonical-null hypothesis, incl. binary64 and min_periods above the length; the converse stays "
               "carrier specific (option R). What a valid NaN (Some(NaN), excluded by DESIGN 5.4) does: counted as an observation, poisons sum / "
               "mean / variance (C11_valid_nan_poisons). The executable f64::floor / ceil of the run (no primitive in Coq's float) is proved to be the "
               "mathematical floor / ceiling of the real value for every finite float (C11_f64_floor_is_floor, C11_f64_ceil_is_ceil; Flocq). "
               "Still open after the audit: a rounding bound for kh_sum at binary64 (only a witness that the compensation works), valid-NaN "
               "behaviour of skew / kurt / cov / corr. "
               "The model is tied to the code by ~130k differential cases per run through every iterator source. "
               "Second, static tie (translator): on every run the guards of vsum / vmean / vmean_var / vvar / vstd / vskew / vkurt / vcov / vcorr_pearson / n_sum_filter / vmean_filter (comparison operator, constant, side of EPS, the max_with(2) floor) and the EPS literal are re-extracted from the Rust source text and Proofs/SrcTablesAgg.v re-proves, for every series and min_periods, that Model/Agg.v makes exactly those decisions (src_*_conforms).",
    src_tables=True,   # tools/gen_tables.py + Proofs/SrcTablesAgg.v: decision tables regenerated from the Rust source on every run
    src_tables_proofs=["Proofs/SrcTablesAgg.vo"],
    level_note="Trusted: Coq kernel + Reals axioms for the option-R theorems (integer / order theorems are axiom-free); the "
               "hand-written model; binary64 rounding is outside the theorems (except the one-pass sum, (R1)-(R4)) and absorbed by the tolerance (generated values "
               "are dyadic so the power sums are exact); f64::powi modelled as compiler-rt square-and-multiply; the numeric "
               "cast to bool of mask elements (C15) is applied by the harness when rendering a mask.",
    trusted=["Reals axioms of the Coq standard library (ClassicalDedekindReals.sig_forall_dec, sig_not_dec, "
             "FunctionalExtensionality.functional_extensionality_dep) under the theorems stated over option R",
             "under the binary64 theorems (R1)-(R4): Classical_Prop.classic and the standard library's specification of the "
             "primitive floats (FloatAxioms.add_spec, abs_spec, eqb_spec, Prim2SF_valid, SF2Prim_Prim2SF, Prim2SF_SF2Prim), on which "
             "Flocq.IEEE754.PrimFloat rests; Flocq 4.1.0 is checked by Coq and declares no axiom",
             "binary64 rounding / overflow is not modelled by the proof instance (option R); apart from vsum the float instance is compared "
             "with tolerance; integer overflow of vsum / n_sum on i32 / i64 is out of scope (DESIGN 5.2)",
             "tools/propcfg/C11.py expands the model's back-reference cells (12 j 0 = same as cell j) before the driver's "
             "standard comparators run"],
    assumptions=["inputs use canonical nulls only (DESIGN 5.4): no Some(NaN) in Option<f64> series",
                 "numeric masks contain only 0 / 1 / null (other values panic in Cast<bool> by design, C15)"],
)


def compare(cmp, impl_cells, model_cells):
    """custom:<standard comparator>.  The model packs its output (Run/RunC11.v `pack`): a repeated float cell is
    printed once and then referred to as (12, j, 0).  Expand, then use the driver's own comparator."""
    import sys
    drv = sys.modules.get("driver")
    if drv is None:
        import driver as drv
    inner = cmp.split(":", 1)[1]
    out = []
    for c in model_cells:
        if c[0] == 12:
            if not (0 <= c[1] < len(out)):
                return "bad back-reference %r in the model output" % (c,)
            out.append(out[c[1]])
        else:
            out.append(c)
    return drv.compare(inner, [x for c in impl_cells for x in c], [x for c in out for x in c])
