"""C10 — kernels never index out of bounds and initialise every output slot exactly once."""
import collections

def _split(cells):
    parts, cur = [], []
    for c in cells:
        if c[0] == 9:
            parts.append(cur); cur = []
        else:
            cur.append(c)
    parts.append(cur)
    return parts

def _decode(v):
    """inverse of enc_acc"""
    if v < 0: return ("uset", 0, -v - 1, 0)
    if v >= 60_000_000:
        v -= 50_000_000; view = v // 10_000_000 - 1; r = v % 10_000_000
        return ("slice", view, r // 1000, r % 1000)
    if v >= 10_000_000:
        view = v // 10_000_000 - 1; r = v % 10_000_000
        return ("uslice", view, r // 1000, r % 1000)
    view = v // 1_000_000 - 1
    return ("uget", view, v % 1_000_000, 0)

def _fmt(nums):
    out = []
    for v in nums:
        k, view, a, b = _decode(v)
        out.append("%s(%s%d)" % (k, "" if k == "uset" else "view %d, " % view, a))
    return "[" + ", ".join(out) + "]"

def _ksteps_parse(cells):
    """len len2 SEP step* status  ->  (len, len2, [(drv, cb reads, writes, panic)], status cells)"""
    parts = _split(cells)
    if len(parts) < 2 or len(parts[0]) != 2:
        return None
    steps = []
    for p in parts[1:-1]:
        ints = [c[1] for c in p if c[0] == 0]
        panic = [c[1] for c in p if c[0] == 5]
        if not ints:
            return None
        nd = ints[0]
        drv = ints[1:1 + nd]
        rest = ints[1 + nd:]
        steps.append((drv, [v for v in rest if v >= 0], [-v - 1 for v in rest if v < 0], panic))
    return parts[0][0][1], parts[0][1][1], steps, parts[-1]

def _direct_steps(length, length2, steps, status, reads_of=lambda st: st[0] + st[1]):
    """the property itself on the implementation's trace"""
    lens = {0: length, 1: length2}
    seen = collections.Counter()
    for n, st in enumerate(steps):
        for v in reads_of(st):
            k, view, a, b = _decode(v)
            if k == "uget" and not a < lens.get(view, 0):
                return "step %d: unchecked element access at index %d of a view of length %d" % (n, a, lens.get(view, 0))
        for w in st[2]:
            if not w < length:
                return "step %d: write to output slot %d of a buffer of length %d" % (n, w, length)
            seen[w] += 1
    dup = sorted(i for i, v in seen.items() if v > 1)
    if dup:
        return "output slot written more than once: %s" % dup
    if status and status[0][0] == 0 and len(status) > 1:
        slots = [c[1] for c in status[1:]]
        if any(x == 0 for x in slots):
            return "output exposed with slot(s) %s never written" % [i for i, x in enumerate(slots) if x == 0]
    return None

def _status_cmp(si, sm):
    pi = [c for c in si if c[0] == 5]; pm = [c for c in sm if c[0] == 5]
    if bool(pi) != bool(pm):
        return "panic mismatch: impl %s, model %s" % (si[:1], sm[:1])
    if pi:
        # an assert! with a message the harness does not classify (kind 4, e.g. "the second series must not be
        # shorter than the first") and the model's AssertFail (kind 2) are the same deliberate panic; arithmetic
        # overflow / underflow (0, 1) and unwrap (3) must agree exactly
        norm = lambda k: 2 if k in (2, 4) else k
        return None if norm(pi[0][1]) == norm(pm[0][1]) else "panic kind differs: impl %d, model %d" % (pi[0][1], pm[0][1])
    if not si or not sm or si[0][1] != sm[0][1]:
        return "number of outputs differs: impl %s, model %s" % (si[:1], sm[:1])
    return None

def _reads_cmp(n, what, ri, rm, first_segment_inclusion=False):
    """model multiset <= impl multiset (the implementation performs every read of the model, as often), and
       support(impl) = support(model) (it reads no index the model never reads; a re-read is not an alarm)"""
    ci, cm = collections.Counter(ri), collections.Counter(rm)
    missing = cm - ci
    if missing:
        return "%s %d: the model reads %s, the implementation does not (impl %s, model %s)" % (
            what, n, _fmt(sorted(missing.elements())), _fmt(sorted(ri)), _fmt(sorted(rm)))
    if not first_segment_inclusion:
        extra = sorted(set(ci) - set(cm))
        if extra:
            return "%s %d: the implementation reads %s, the model never does (impl %s, model %s)" % (
                what, n, _fmt(extra), _fmt(sorted(ri)), _fmt(sorted(rm)))
    return None

def _compare_ksteps(impl, model):
    pi = _ksteps_parse(impl)
    if pi is None:
        return "malformed implementation step trace"
    length, length2, si, sti = pi
    d = _direct_steps(length, length2, si, sti)
    if d:
        return d
    pm = _ksteps_parse([(0, length, 0), (0, length2, 0), (9, 0, 0)] + list(model))
    if pm is None:
        return "malformed model step trace"
    _, _, sm, stm = pm
    for n in range(min(len(si), len(sm))):
        (di, ri, wi, xi), (dm, rm, wm, xm) = si[n], sm[n]
        if di != dm:
            return "step %d: driver reads differ: impl %s, model %s" % (n, _fmt(di), _fmt(dm))
        r = _reads_cmp(n, "step", ri, rm)
        if r:
            return r
        if sorted(wi) != sorted(wm):
            return "step %d: writes differ: impl %s, model %s" % (n, sorted(wi), sorted(wm))
        if bool(xi) != bool(xm):
            return "step %d: panic mismatch: impl %s, model %s" % (n, xi, xm)
    if len(si) != len(sm):
        return "number of callback steps differs: impl %d, model %d" % (len(si), len(sm))
    return _status_cmp(sti, stm)

def _compare_vsegs(impl, model):
    """vrank cut at its writes; a segment = (reads as class representatives, [rep of the slot, raw slot])"""
    pi = _ksteps_parse_segs(impl)
    if pi is None:
        return "malformed implementation segment trace"
    length, _, si, sti = pi
    d = _direct_steps(length, length, [([], r, w[1:], []) for (r, w) in si], sti, reads_of=lambda st: st[1])
    if d:
        return d
    pm = _ksteps_parse_segs([(0, length, 0), (0, length, 0), (9, 0, 0)] + list(model))
    if pm is None:
        return "malformed model segment trace"
    _, _, sm, stm = pm
    for n in range(min(len(si), len(sm))):
        (ri, wi), (rm, wm) = si[n], sm[n]
        # segment 0 of the implementation also holds the comparator reads of sort_unstable_by (not modelled)
        r = _reads_cmp(n, "segment", ri, rm, first_segment_inclusion=(n == 0))
        if r:
            return r
        if wi[:1] != wm[:1]:
            return "segment %d: write order differs modulo ties: impl writes class %s, model class %s" % (n, wi[:1], wm[:1])
    if len(si) != len(sm):
        return "number of writes differs: impl %d segments, model %d" % (len(si), len(sm))
    wri = collections.Counter(w[1] for (_, w) in si if len(w) > 1)
    wrm = collections.Counter(w[1] for (_, w) in sm if len(w) > 1)
    if wri != wrm:
        return "slots written differ: impl %s, model %s" % (sorted(wri.elements()), sorted(wrm.elements()))
    return _status_cmp(sti, stm)

def _ksteps_parse_segs(cells):
    parts = _split(cells)
    if len(parts) < 2 or len(parts[0]) != 2:
        return None
    segs = []
    for p in parts[1:-1]:
        ints = [c[1] for c in p if c[0] == 0]
        segs.append(([v for v in ints if v >= 0], [-v - 1 for v in ints if v < 0]))
    return parts[0][0][1], parts[0][1][1], segs, parts[-1]

def compare(cmp, impl, model):
    if cmp == "custom:ksteps":
        return _compare_ksteps(impl, model)
    if cmp == "custom:vsegs":
        return _compare_vsegs(impl, model)
    return _compare_flat(cmp, impl, model)

def _compare_flat(cmp, impl, model):
    parts = _split(impl)
    if len(parts) < 2 or len(parts[0]) != 2:
        return "malformed implementation trace"
    length, length2 = parts[0][0][1], parts[0][1][1]
    lens = {0: length, 1: length2}
    body = parts[1]
    panicked = any(c[0] == 5 for c in body)
    accs = [] if panicked else [_decode(c[1]) for c in body if c[0] == 0]
    # ---- the property, checked directly on the implementation's trace --------------------
    for (k, view, a, b) in accs:
        n = lens.get(view, 0)
        if k == "uget" and not a < n:
            return "unchecked element access at index %d of a view of length %d" % (a, n)
        if k in ("uslice", "slice") and not (a <= b <= n):
            return "%s %d..%d outside 0..%d" % (k, a, b, n)
        if k == "uset" and not a < length:
            return "write to output slot %d of a buffer of length %d" % (a, length)
    writes = collections.Counter(a for (k, _, a, _) in accs if k == "uset")
    if any(v > 1 for v in writes.values()):
        return "output slot written more than once: %s" % sorted(i for i, v in writes.items() if v > 1)
    if not panicked and len(parts) > 2 and parts[2]:
        slots = [c[1] for c in parts[2][1:]]
        if any(s == 0 for s in slots):
            return "output exposed with slot(s) %s never written" % [i for i, s in enumerate(slots) if s == 0]
    if cmp == "custom:direct":
        return None
    # ---- correspondence with the model's trace ----------------------------------------------
    mpanic = [c for c in model if c[0] == 5]
    if mpanic or panicked:
        if bool(mpanic) != panicked:
            return "panic mismatch: impl %s, model %s" % (body[:1], model[:1])
        return None   # a clean panic on both sides; the message / kind is not part of the property
    maccs = [_decode(c[1]) for c in model if c[0] == 0]
    mw = collections.Counter(a for (k, _, a, _) in maccs if k == "uset")
    if writes != mw:
        return "output writes differ: impl %s, model %s" % (sorted(writes.elements()), sorted(mw.elements()))
    if cmp == "custom:writes":
        return None
    ri = set(x for x in accs if x[0] != "uset")
    rm = set(x for x in maccs if x[0] != "uset")
    if ri != rm:
        return "reads differ: only impl %s, only model %s" % (sorted(ri - rm)[:6], sorted(rm - ri)[:6])
    return None

CFG = dict(
    bins=["c10"],
    imports=["Run.RunC10"],
    src_tables=True,   # tools/gen_tables.py (+ tools/gen_tables_drv.py) + Proofs/SrcTablesDrv.v: the driver bodies are re-read from the Rust source on every run
    src_tables_proofs=["Proofs/SrcTablesDrv.vo"],
    exhaustive=False,
    rule="part=driver (exhaustive): len 0..=7 (thorough 12) x window 0..=len+3 x second-series length {len, len-1, len+1; at window 0 "
         "also 0, and there the returned two-series paths are run at the true window 0 with the shorter / empty second series} x the "
         "driver entry points on an instrumented input view (logs uget / uslice / slice with the length at that moment) and an "
         "instrumented output container (logs uset, checks written-exactly-once at assume_init), returned / caller-buffer / "
         "Vec-fast-path output; the trace is compared with the model's (set of reads, multiset of writes, panic kind). "
         "part=kernel (sampled): 12 (thorough 60) structured series x windows 0..=len+2 x min_periods {omitted, 0, random} x all 27 "
         "rolling entry points (returned, caller buffer, Vec fast path) and vrank / vpartition / varg_partition / vquantile / "
         "vmedian: the trace is checked directly (reads in bounds, slices inside 0..=len, every slot written exactly once before "
         "exposure, clean panic otherwise). "
         "part=ktrace (structured): 9 series families (increasing / decreasing = the minimum / maximum expires at every step, zigzag, "
         "plateau, null newcomers, extremes then nulls, all null, trailing nulls, random) x len {0,1,2,4,6} (thorough {0,1,2,3,5,6,8,9}) x "
         "windows {0,1,2,3,len-1,len,len+1} x min_periods {omitted, 1, w, 0} x ts_vmin / ts_vmax / ts_vargmin / ts_vargmax / ts_vrank / "
         "ts_vminmaxnorm / ts_vregx_resid_{mean,std,skew} (second series equal / shorter / longer), caller-buffer path (two-phase index "
         "body) and returned path (iterator body, collected into a container that marks every item): the implementation's access trace is "
         "cut into callback steps and compared with the model's steps cell by cell (driver reads exactly; callback reads: model multiset "
         "<= impl multiset and equal support; writes exactly; number of steps; panic / number of outputs); tag rescan=1: some callback "
         "read at least two different indices. vrank on the same series x (pct, rev): trace cut at its writes, compared modulo ties. "
         "nt=0 marks empty input. part=driver kind=custom_write_buf (audit YB): the default rolling_custom with a caller buffer of "
         "another length lo in {0, 1, 3, len-1, len+1} for every len and window (tags buf=empty|bcast|mismatch): cells (lo, len), the "
         "writes are bounded by the buffer, an exposed unwritten slot is reported; model term run_custom_write.",
    theorem_hint="Props/C10.v",
    level_text="Proof, drivers: running the driver model on the list of positions makes every fetched argument the index "
               "it was fetched from; theorems (all series lengths, all windows incl. 0 and > len): every unchecked read of every "
               "two-phase body is < len, every slice is start <= end <= len, the output slots written are exactly 0..len-1 once "
               "each, window 0 on a non-empty series and a shorter second series panic before anything is exposed, and a callback "
               "that reads only inside [start, end] stays in bounds. Two-series entry points (X12; the model of the returned paths "
               "now asserts the window on the FIRST series like view.rs - before, window 0 with an empty second series was `Done []` "
               "in the model and an assertion in the code): for every window and every pair of lengths each of the five entry "
               "points is the panic of its FIRST failing check (order of the code) or a complete output of the stated length - "
               "never an unwritten slot; the residual statistics at window 0 assert on both bodies whatever the second series. "
               "Proof, kernels (now inside the trace model, at EVERY carrier - no law of the numeric class or of its order is used): "
               "the rescanning callbacks of cmp.rs (ts_vmin/vmax/vargmin/vargmax/vrank), norm.rs (ts_vminmaxnorm) and reg.rs "
               "(ts_vregx_resid_mean/std/skew) are written a second time in a traced result monad that logs every uget; erasure "
               "theorems show the traced text computes exactly the model callback, read theorems show every logged access is an "
               "unchecked read at an index of start.unwrap_or(0)..=end for every state and series; hence the access trace of a "
               "whole call (driver reads, callback reads, slot writes, threaded through the callback state) is in bounds for every "
               "series, window, min_periods, both bodies and both series lengths, unconditionally, and its writes are 0..len-1 once "
               "each whenever the window is accepted. The model's uget is a checked read (out of range = panic), n -= 1 is a checked "
               "subtraction, start.unwrap() a checked unwrap: idx_run = Done out with length out = len (or the documented "
               "AssertFail for window 0 on non-empty input) is proved for every series / window / min_periods / body through the "
               "carrier-generic counting invariant (counter = number of non-null elements seen and not yet removed; uses not_none "
               "only); for the arg-extrema the offset min_idx - start additionally needs that every non-null element equals itself "
               "(all integers, all non-NaN floats, all reals; false only for Some(NaN), DESIGN 5.4) - proved outright at the integer "
               "carrier. The residual statistics: the checked text (uget, usub) equals the pure model for every window, pair of "
               "lengths and body. vrank: the checked traced text (series and internal idx_sorted through checked reads, i - j and "
               "len - repeat_num through checked subtraction, out.uset logged) performs only in-bounds accesses, never panics and "
               "returns the model value, for every series incl. empty / one element / all null. varg_partition / vpartition: the "
               "to_trust(kth+1) length claim holds for all parameters, every index returned is -1 or < len, select_nth(kth) has "
               "kth < len, the only panic is T::none() of an integer type when padding is needed. vquantile: q outside [0,1] (NaN "
               "included) is Err; under the carrier's index law ceil((n-1)q) <= n-1 (proved at option R) the selected index is "
               "< n <= len and vquantile / vmedian never panic. "
               "Every output slot of vrank is written exactly once: on the uninitialised-buffer path the slots written are a "
               "permutation of 0..len-1 (positional invariant), the O::empty / O::full paths perform no uset. "
               "Partial: the index "
               "law and x == x at binary64 are not proved in Coq (no theory of primitive floats) and are exercised by the "
               "correspondence; std's sort_unstable_by / select_nth_unstable_by enter only as 'a permutation of the input' "
               "(insertion-sort model) and their comparator calls are not traced; the internal Vec<usize> of vrank is a std "
               "container: its model is a list and the harness cannot instrument it (exploration-strength on the Rust side: the "
               "instrumented TraceView / TraceOut monitor every kernel run directly). "
               "Kernel traces step by step (part 12): the model trace is also given as a list of steps (one per callback invocation: "
               "driver reads, callback accesses, slot write, panic); theorems: the steps concatenate to kernel_trace (nothing added, dropped "
               "or reordered) for every traced callback / window / body; step i is position i (driver reads of position i, write of slot i "
               "and nothing else, callback reads inside the window of position i - for each of the five kernels, both bodies, both series "
               "lengths); at most one step per position, only the last can carry a panic, exactly one per position and no panic whenever "
               "the erased run returns; the emitted sorted read numbers are a permutation of the callback's reads; vrank cut at its writes "
               "concatenates to the observable trace, writes every slot exactly once, every segment in bounds; vrank_tr_fast (the bind "
               "evaluated once, runnable under vm_compute) = vrank_tr. These step traces ARE compared cell by cell with the instrumented "
               "implementation on every run (part=ktrace), so the model-side kernel traces are now tied to the code by a trace "
               "correspondence, not only through the values of the erased models. Still not traced on the model side: the comparator "
               "reads of sort_unstable_by inside vrank (the implementation's first segment is compared by inclusion), the reads of the "
               "internal Vec<usize>. Model corner reported: rolling2_apply_idx_default (Model/Driver.v) tests window 0 on the zipped series, "
               "the code on self (differs only for window 0, non-empty self, empty second series, iterator body: code panics, model "
               "returns an empty result; no access on either side). "
               "Audit YB (parts 14-20, 21 further theorems, notes/C10.md has the clause-by-clause matrix): a WHOLE call of every driver "
               "(driver_call: the checks of the code in their order, then the trace; Run/RunC10.v run_trace is proved to be its encoding) is, "
               "for every window and every pair of lengths and with NO hypothesis, either a panic before any access or an in-bounds trace "
               "that writes 0..len-1 once each (nothing for the collected lazy forms) - the former hypotheses len <= len2, 1 <= w, "
               "bad_window = false are replaced by the guards themselves, which are those of the value model (check2_to / check2_custom / "
               "bad_window); the two-series window-index body's write-once statement (was missing); the clamp window.min(len): a larger "
               "window IS window = len (traces, outcomes, rejection); all six one-series entry points for every window are a complete "
               "result of the input's length or the panic of the code's check; a caller buffer of ANY length handed to the default "
               "rolling_custom (write_trust_iter: empty buffer - nothing; one-element series - its item in every slot of the buffer once; "
               "otherwise Err and a clean unwrap panic with no access; writes bounded by the BUFFER) - now also exercised "
               "(kind=custom_write_buf); the trusted-length forms: the size_hint the raw collector trusts equals the number of items every "
               "lazy body yields (every window incl. 0, every pair of lengths), so collect_trusted(hint, items) IS the returned outcome, "
               "and likewise for varg_partition / vpartition (kth+1); the exact panic condition of vpartition (iff); the write lists fed to "
               "the MaybeUninit buffer model: in-order writes and vrank's permuted writes leave a complete buffer whose slot j holds the "
               "value stored at j, any store sequence that misses a slot is never exposed. Nothing found false; nothing partial. Still open: "
               "norm.rs lines 146-151 (body of the both-extremes-expired rescan) are never executed by the run (believed unreachable, not "
               "proved). Second tie (translator): the bodies of the twelve `fn rolling*` of view.rs and the Vec / ndarray / Arc overrides are parsed from the Rust source on every run (tools/gen_tables_drv.py) and proved (Proofs/SrcTablesDrv.v, 23 axiom-free theorems, every window / series / pair of lengths) to denote exactly the guards (check2_default / check2_to / check2_custom, by assertion message), the call lists (args_iter, args_iter_idx, args_iter_idx2, slices_iter, calls_to, calls_to_idx, slices_to) and the backend routing of Model/Driver.v.",
    level_note="Trusted: Coq kernel; model of view.rs driver bodies; the instrumented containers implement tevec's public traits "
               "in the harness (Vec's own fast-path reads cannot be observed, only its writes); std Vec internals of vrank "
               "(idx_sorted) are not instrumented; memory effects themselves (an actual out-of-bounds write) are outside Coq.",
    trusted=["instrumented containers TraceView/TraceOut (harness/src/trace.rs) faithfully log the accessor calls made through the "
             "Vec1View / Vec1 / UninitVec / UninitRefMut traits",
             "StepOut (harness/src/bin/c10.rs): collect_from_iter pulls the lazy iterator one item at a time and logs a marker after "
             "each item, so the reads between two markers are the reads of one callback invocation"],
)
