"""C04 — rolling covariance, correlation and regressions equal per-window least squares."""
from fractions import Fraction

CFG = dict(
    bins=["c04"],
    imports=["Run.RunC04"],
    rule="audit corner inputs: 9 length pairs (equal / second shorter / second longer / empty) x w in 0..=3 x mp in "
         "{omitted, 0, 1} x the 8 two-series functions x 6 paths, and the 5 trend functions with w = 0, comparing the "
         "identity of the failing check (custom:chk); then two-series family (ts_vcov, ts_vcorr, ts_vregx_alpha/beta/all, ts_vregx_resid_mean/std/skew): pairs of "
         "equal-length series, exhaustive over the alphabet {-1, 0, 2, null}^2 per position up to length 2 (every "
         "(w, mp); every function up to length 1, a rotating third of the functions at length 2; thorough adds length 3 "
         "with a rotating 1/36 of the (w, mp) configurations) + 260 (thorough 1200) structured random pairs of length "
         "3..24 of dyadic values (uniform / small alphabet with ties / exactly collinear a = c + d*b / constant regressor / "
         "constant response / random walks / collinear with one outlier / monotone regressor) x independent null patterns "
         "(9 patterns each); time-trend family (ts_vreg, ts_vtsf, ts_vreg_slope, ts_vreg_intercept, ts_vreg_resid_mean): "
         "exhaustive over {-1, 0, 2, null} up to length 3 (thorough 4) + 220 (1200) random series (uniform / alphabet / "
         "exact line over the non-null ranks / constant / walk / line with one outlier) x 9 null patterns; windows "
         "1..=len+2, min_periods omitted or 0..=w (all of them in the exhaustive scope, 3 random (w, mp) per random "
         "series); backends Vec (index body; returned and caller-buffer), VecDeque (iterator body when returned, index "
         "body with a caller buffer), Vec against VecDeque; element types f64, Option<f64>, mixed f64/Option<f64>, "
         "i32/i64; outputs f64, f32, Option<f64>, (f64,f64,f64); compared with the model at Coq's binary64 within 1e-7 "
         "relative to max(1,|x|,S) with S the window magnitude (M^2 for cov/sse, M*len for first-order outputs, "
         "(M*len)^2 for the trend mean squared residual; measured agreement is < 1e-13 relative), nullness and panics "
         "exact; at a position whose window is singular in exact arithmetic (regressor without spread over the "
         "pairwise-complete observations / fewer than two non-null values; flag computed from scratch by the model run) "
         "neither value nor nullness is compared (DESIGN 5.6), only that the implementation produced a value; a case "
         "is non-trivial when the series is non-empty; EPS boundary block: three zero-sum series ([x, -x, 0, .., 0], [x, -x, y, -y]; "
         "x found by a deterministic scan of neighbouring doubles) whose variance computed in the closure's operation order is "
         "bit-equal to EPS = 1e-14 at the last position, as first and as second argument of ts_vcorr against a series with spread x "
         "w in {len, len+1} x min_periods {omitted, 0, 2} x Vec / caller buffer / VecDeque / Option<f64>: the correlation is null "
         "there (strict guard)",
    theorem_hint="Props/C04.v: C04_ts_vcov, C04_ts_vcorr, C04_ts_vregx_*, C04_ols_*, C04_ts_vreg*, C04_perfect_line*",
    level_text="Proof (Coq, carrier option R): the add-emit-remove sliding invariant instantiated with the cross power sums "
               "(n, Sa, Sb, Sab, Saa, Sbb) of the pairwise-complete window and with (n, Sx, S t*x, Sxx) of the non-null "
               "window gives, for every pair of equal-length series, window >= 1, min_periods, position and both driver "
               "bodies, closed-form theorems output_i = textbook statistic of the window for all 13 entry points; the OLS "
               "coefficients are characterised by the normal equations, uniqueness and SSE-minimality; a perfect linear "
               "window has zero residuals (also end to end on the two-series model). Audit (21 more theorems, "
               "Proofs/Audit04.v; notes/C04.md has the clause x theorem matrix): the hypotheses 'window >= 1' and 'equal "
               "lengths' are replaced by a total description of the two-series entry points - the first failing check of "
               "the code (index body: length assertion, then window assertion; iterator body: window assertion on the "
               "first series only), window 0, and on every accepted input the value theorems over the common prefix; the "
               "pairwise-complete selection positionally; and, for EVERY numeric carrier (binary64 included) and every "
               "pair of null dictionaries, the accumulator's count = number of pairwise-complete positions of the window, "
               "hence all 13 statistics are null below min_periods (axiom-free). Closed forms remain exact-real only. "
               "The model is tied to the code by the differential run, which now includes window 0 and unequal lengths "
               "and compares which assertion fired. "
               "Second, static tie (translator): the min_periods shape of every entry point (Proofs/SrcTablesRoll.v) and, inside the closures, the guard that compares the count with min_periods, every comparison with EPS (ts_vcorr: both variances > EPS) and the aggregation the residual statistics end with (.vmean() / .vstd(2) / .vskew(3)) are re-extracted from the Rust source text on every run and proved to be the model's for every accumulator state (Proofs/SrcTablesAgg.v).",
    src_tables=True,   # tools/gen_tables.py + Proofs/SrcTablesAgg.v: decision tables regenerated from the Rust source on every run
    src_tables_proofs=["Proofs/SrcTablesRoll.vo", "Proofs/SrcTablesAgg.vo"],
    level_note="Trusted: Coq kernel + Reals axioms; the model of binary.rs / reg.rs / agg.rs (vmean, vmean_var, vskew); "
               "f64::mul_add modelled unfused (two roundings); IEEE rounding is outside the theorems (exact reals) and absorbed "
               "by the 1e-7 tolerance; f64::powi modelled as compiler-rt's square-and-multiply.",
    trusted=["Reals axioms of the Coq standard library (ClassicalDedekindReals.sig_forall_dec, sig_not_dec, "
             "FunctionalExtensionality.functional_extensionality_dep)",
             "binary64 rounding/overflow is not modelled by the proof instance (option R); the float instance is compared with tolerance",
             "f64::mul_add (fused) is modelled as a*b+c with two roundings",
             "the exact-singularity flag of the comparator's blind spot (DESIGN 5.6) is computed by the model run with float "
             "equality on the window's regressor values, which is exact"],
    assumptions=["generated values are dyadic (k/4, k/8, |value| <= 400) so that all cross power sums of a window are exact in binary64"],
)


def _fval(c):
    t, a, b = c
    if t == 0:
        return Fraction(a)
    if t == 1:
        return Fraction(a) * (Fraction(2) ** b)
    return None


def compare(cmp, ci, cm):
    """custom:sing:<rtol>,<scale> (and custom:chk:<rtol>,<scale>: the same after an exactly compared leading cell) — model cells are values ++ [sep] ++ one singular flag per value cell.
    Where the flag is 1 the implementation must have produced *a value* (number / null / inf), nothing else is checked;
    elsewhere: nullness, infinities, panics and uninitialised slots exact, numbers within rtol*max(1,|a|,|b|,scale)."""
    parts = cmp.split(":")
    rtol, scale = 1e-7, 0.0
    if len(parts) > 2:
        ps = parts[2].split(",")
        rtol = float(ps[0])
        if len(ps) > 1:
            scale = float(ps[1])
    if len(parts) > 1 and parts[1] == "chk":
        # audit corner inputs: the first cell is the identity of the check that stopped the run (0 = none)
        if not ci or not cm or tuple(ci[0]) != tuple(cm[0]):
            return "first failing check: impl %s, model %s" % (ci[:1], cm[:1])
        ci, cm = ci[1:], cm[1:]
    seps = [k for k, c in enumerate(cm) if c[0] == 9]
    if not seps:
        return "model output has no separator"
    vals, flags = cm[:seps[0]], cm[seps[0] + 1:]
    if any(c[0] == 5 for c in vals) or any(c[0] == 5 for c in ci):
        if list(ci) != list(vals):
            return "panic: impl %s, model %s" % (ci[:3], vals[:3])
        return None
    if len(ci) != len(vals):
        return "length: impl %d cells, model %d cells" % (len(ci), len(vals))
    if len(flags) != len(vals):
        return "model emitted %d flags for %d values" % (len(flags), len(vals))
    for k, (a, b, f) in enumerate(zip(ci, vals, flags)):
        if f[1] == 1:
            if a[0] not in (0, 1, 2, 3, 4):
                return "cell %d (singular window): impl %s is not a value" % (k, a)
            continue
        na, nb = a[0] in (0, 1), b[0] in (0, 1)
        if na != nb:
            return "cell %d: impl %s, model %s" % (k, a, b)
        if not na:
            if a[0] != b[0]:
                return "cell %d: impl %s, model %s" % (k, a, b)
            continue
        x, y = _fval(a), _fval(b)
        if x == y:
            continue
        fx, fy = float(x), float(y)
        if abs(fx - fy) > rtol * max(1.0, abs(fx), abs(fy), scale):
            return "cell %d: impl %r, model %r (rtol %g, scale %g)" % (k, fx, fy, rtol, scale)
    return None
