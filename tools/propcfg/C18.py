"""C18 — parsers are total and round-trip with their formatters."""
def compare(cmp, impl, model):
    # custom:agree — totality plus a relation on the implementation alone (the model is not consulted): no cell may be a
    # panic, and the cells after the separator (parse(s, None), s.parse::<T>(), <T as FromStr>::from_str(s)) must be one value
    if any(c[0] == 5 for c in impl):
        return "implementation panicked"
    k = next((i for i, c in enumerate(impl) if c[0] == 9), None)
    if k is None:
        return "malformed (no separator)"
    rest = impl[k + 1:]
    if len(rest) < 2:
        return "malformed (nothing to relate)"
    if any(c != rest[0] for c in rest[1:]):
        return "FromStr disagrees with parse(s, None): %s" % (rest,)
    return None

CFG = dict(
    src_tables=True,   # tools/gen_tables.py + Proofs/SrcTablesOk.v: tables regenerated from the Rust source on every run
    bins=["c18"],
    imports=["Run.RunC18"],
    exhaustive=False,
    rule="TimeDelta::parse (also FromStr and the str/String casts): every string up to length 4 (thorough 5) over the "
         "alphabet {1 - + d m o e-acute space}; every well-formed sequence of 1 term (3 signs x 8 numbers x 10 units), "
         "2 terms (3 signs x 2 numbers x 10 units, squared) and 3 terms (2 signs (thorough 3) x 10 units, cubed); "
         "sampled sequences of 1-6 terms with 1-21 digit numbers; ~330 boundary strings (sign runs, letter first, digits "
         "only, trailing digits/sign, unknown units, multi-byte characters, 19-21 digit numbers, n*unit, running sums, i32 "
         "month counts and chrono Duration limits +-1); random 1-2 edit mutations over a 40-character alphabet; compared "
         "exactly (months, total ns | Err | panic) with the Gallina scanner. DateTime<U>::strftime then parse(text, "
         "Some(fmt)) and parse(text, None) for U in {s, ms, us, ns}, the default format and the 11 listed formats, on "
         "boundary instants (epoch, leap days, years 0/1/9999/10000, the i64-ns and chrono limits +-1) and random "
         "instants in 6 bands up to the chrono range: rendered text and both parse results compared exactly with the "
         "text model, and the round trip checked directly when the format can express the instant; mutated date-time "
         "strings through the rule list (exact) and arbitrary strings (totality). Time::parse: valid HH:MM:SS[.f] strings "
         "(exact) and arbitrary strings (totality). FromStr by both routes (`s.parse::<T>()` and `<T as FromStr>::from_str(s)`) "
         "for TimeDelta (every duration string), DateTime<U> (rendered texts, mutated, hand-picked and arbitrary strings) and Time "
         "(valid and arbitrary strings) must return exactly what parse(s, None) returns and must not panic (tag fromstr=1; "
         "comparator custom:agree on the arbitrary strings, an extra marker cell elsewhere); `TimeDelta::from(&str)` must give "
         "the parsed value on accepted strings and its documented panic (never a value) on rejected ones. "
         "Audit: Time::parse(s, Some(fmt)) for %H:%M:%S, %H:%M:%S.%f, %H%M%S, %H:%M on rendered times, leap seconds, out-of-range "
         "fields, cross-format texts, short fractions and 600 mutations, compared exactly with the model time_parse_with; the Timelike "
         "getter on the parsed leap second; Debug and Display text of Time, Debug text / String cast of TimeDelta, Debug text of "
         "DateTime<U> (NaT, unrepresentable instants, ordinary instants), each compared exactly with its model and fed back to the "
         "parser of its type (must be Err for Time and TimeDelta). "
         "Non-trivial = distinct non-empty inputs.",
    theorem_hint="Props/C18.v: C18_wellformed_iff, C18_wellformed_run, C18_strftime_default_parse_back, C18_strftime_nano_total, C18_nat_text, C18_time_parse_hms, C18_total, C18_wellformed, C18_parse_accepts_grammar, C18_parse_rejects, C18_parse_whitespace_*, C18_datetime_roundtrip, C18_earlier_rule_unambiguous, C18_datetime_roundtrip_listed_all_years",
    level_text="Proof: 42 theorems of Props/C18.v (axiom-free; the first 17 are described first, the 25 of the audit at the end) about the Gallina model of the repaired TimeDelta::parse scanner "
               "(for every string: no panic, fuel never exhausted; for every well-formed term list whose numbers, products and "
               "running sums stay in range: Ok of the sums; conversely every ACCEPTED string is a sequence of well-formed terms "
               "plus a degenerate tail (empty, or one character followed by digits only) and the value returned is the sum of "
               "those terms, hence every string outside that language is Err; the empty string and a lone tail are the zero "
               "duration; a bad first character is rejected; white space is in no term, so it is rejected everywhere except as "
               "the head of the tail) and about the date-time text model (calendar inverse law for every day number; the FULL "
               "round-trip statement C18_datetime_roundtrip: all four units, each of the 11 listed formats, every instant chrono "
               "represents and the format can express, years -262143..262142 with the signed rendering +12345 / -0001 (0000..9999 "
               "for the four formats whose %Y is followed directly by digits), rendered, parsed back with the format given "
               "explicitly AND through the rule list of DateTime::parse(s, None): for each of the 55 rule pairs j < k the earlier "
               "rule rejects the text of format k (53 pairs) or reads the same instant (the pairs (4,7), (6,8)), proved through a "
               "sound abstraction of the parser to character classes whose finite check (55 pairs x 7 year shapes) is a "
               "vm_compute with the bound in the statement). Nothing is partial any more (the two theorems still named "
               "_partial are the years-0000..9999 lemmas the full theorem was built from). "
               "The audit (Proofs/Audit18.v, notes/C18.md 'Audit matrix') added: the three range premises of C18_wellformed are exactly "
               "what the code rejects (C18_wellformed_iff: a well-formed string is accepted with the sum of its terms iff they hold, Err "
               "otherwise; C18_wellformed_run: with no range premise the scanner on a well-formed string is the checked fold over its terms, "
               "number first, then the unit's closure); the unit table (exactly the ten lower-case tokens; what each contributes); two "
               "non-digits at the head (sign runs) are always Err; an i64-overflowing number anywhere is Err; strftime panics exactly on "
               "non-NaT instants chrono cannot represent; whenever strftime(None) returns, parse(text, None) and parse(text, Some(default)) "
               "return the instant with no hypothesis on year or fields, and at the default unit (ns) for EVERY non-NaT i64 (year bound by a "
               "sweep of 213506 day numbers); NaT renders as \"NaT\" under every format, \"NaT\" is rejected by every rule, no valid date-time "
               "renders as \"NaT\" under a listed format; models of Debug / Display (DateTime, Time, TimeDelta) whose text is never a duration; "
               "a model of Time::parse with an explicit format (HH:MM:SS[.f] give the time of day; the leap second is accepted and yields a "
               "Time of a whole day on which the getters panic — an observation). Still correspondence-only: Time::parse(s, None) "
               "(chrono NaiveTime::from_str). The models are tied to the code by the differential run described in `rule`.",
    level_note="Trusted: Coq kernel; the hand-written scanner model (character positions instead of byte offsets); the models of "
               "i64::from_str, chrono Duration range checks, chrono format/parse_from_str for %Y %m %d %H %M %S %f, literals and "
               "spaces; the harness and comparator. chrono's NaiveTime::from_str (Time::parse(s, None)) is only exercised, not modelled; "
               "Time::parse(s, Some(fmt)) is modelled through the same chrono parse / to_naive_time model; Debug of chrono::TimeDelta is derived ({ secs, nanos }).",
    trusted=["model of <i64 as FromStr>::from_str ([+-]?[0-9]+, range check)",
             "model of chrono::TimeDelta::{try_seconds, nanoseconds, checked_add, new} range checks",
             "model of chrono strftime formatting and format::parse for the items %Y %m %d %H %M %S %f, literals, space "
             "(NaiveDateTime/NaiveDate::parse_from_str, Parsed::to_naive_date/to_naive_time)",
             "character positions stand for the byte offsets of str::char_indices (all slice bounds come from char_indices)"],
    assumptions=["chrono 0.4.x NaiveTime::from_str / parse_from_str never panic (exercised on ~1100 strings, not modelled)",
                 "strftime is only claimed for instants chrono can represent (years -262143..=262142); outside it `as_cr().unwrap()` "
                 "panics, which the model reproduces"],
)
