"""C02 — rolling drivers call back once per position with exactly the right window."""
CFG = dict(
    bins=["c02"],
    # harness-pl/ (tevec with the `polars` feature), both tiers (the key keeps its historical name) — see tools/propcfg/C07.py
    bins_thorough_pl=["c02pl"],
    imports=["Run.RunC02"],
    src_tables=True,   # tools/gen_tables.py (+ tools/gen_tables_drv.py) + Proofs/SrcTablesDrv.v: the driver bodies are re-read from the Rust source on every run
    src_tables_proofs=["Proofs/SrcTablesDrv.vo"],
    exhaustive=True,
    rule="exhaustive: every len 0..=7 (thorough 0..=12) x window 1..=len+3 x 10 driver entry points "
         "(rolling_apply, rolling_apply_idx, rolling2_apply, rolling2_apply_idx, rolling_custom, "
         "rolling_custom_to, rolling_custom_iter, rolling2_custom; returned and caller-buffer paths) x "
         "backends (Vec, [T], [T;N], Arc<Vec>, VecDeque at 3 ring offsets, ndarray owned / step 2 / "
         "reversed views, option view); one series per length with NaNs sprinkled in; a recording "
         "callback logs every invocation; compared exactly with the model's call trace and output; "
         "non-trivial = every case (each is a distinct configuration); tags nt=0 mark trivial ones. part=deg (both tiers, "
         "exhaustive): the two-series entry points (rolling2_apply / rolling2_apply_idx returned and caller-buffer, "
         "rolling2_apply_to, rolling2_apply_idx_to, rolling2_custom returned and caller-buffer) x len xs 0..=3 x len ys 0..=3 "
         "(second series empty / shorter / equal / longer) x window 0..=2 x first series on Vec / VecDeque / ndarray x second "
         "series on Vec / VecDeque / ndarray; a panic is compared by kind AND by the identity of the check that fired (read "
         "from the panic message) against check2_default / check2_to / check2_custom of the model. THOROUGH TIER ONLY, "
         "binary c02pl of harness-pl/ (tevec built with feature polars): the same recording callback, len 0..=12 x window "
         "1..=len+3 x the 10 entry points x Polars Float64Chunked inputs of 1, 2, 3 chunks (nulls where the series has NaN; "
         "by value and by reference), the second series a Vec or a Polars array with another chunking, slice forms "
         "receiving Polars slices that span chunk boundaries; compared with the default-body model (iterator body "
         "returned, index body into the caller's buffer) over Option<f64> elements. part=dispatch (YA, both tiers, exhaustive): "
         "len 0..=3 (thorough 5) x window 0..=len+2 x {rolling_apply, rolling_apply_idx, rolling_custom} x returned / caller buffer "
         "x {Vec, boxed slice, ndarray owned / stride-2 view / mutable view, VecDeque, option view, Arc<Vec>, Arc<VecDeque>, "
         "Arc<Arc<Array1>>} against Model/DriverDispatch.v (rolling_*_on (be_of b) out): WHICH body the backend runs is compared, "
         "with the removed value / start index at the final position of a too-long window UNMASKED (the only observation that "
         "separates the bodies). part=lazy: rolling_custom_iter pulled k = 0..=len+1 times and dropped: the callback ran exactly "
         "min(k, len) times on the first windows",
    theorem_hint="Props/C02.v: C02_once_in_order_*, C02_removed_arg_*, C02_slice_arg_*, C02_every_window_*, C02_two_series_*, C02_backend_*, C02_lazy_iterator*, C02_call_trace",
    level_text="Proof: 64 theorems (Props/C02.v, axiom-free) about the Gallina model of all eight drivers and both "
               "bodies, for every series and every stateful callback. Window >= 1: one call per position in order, "
               "the removed argument, the slice argument = positions max(0,i-w+1)..=i, output placement, and agreement "
               "of the two bodies for add-emit-remove callbacks. EVERY window, 0 included (X12): each one-series entry point "
               "equals `if <window assertion / window-1 underflow> then Panicked .. else Done (run f s0 <call list>)`, and the "
               "two bodies agree with no hypothesis on the window. Two-series entry points, every window and every pair of "
               "lengths (second series empty / shorter / equal / longer): closed forms with the panics in the order of the code "
               "(index body: lengths assertion, then window assertion; returned default path: window assertion on the FIRST "
               "series only, then one call per zipped pair; rolling2_custom: lengths, then window-1), the start iterator of "
               "rolling2_apply_idx, the exact corner where a window check on the zipped series would differ (w = 0, xs non-empty, "
               "ys empty - the model error repaired by X12), agreement of the two bodies when the second series is not shorter, "
               "and their designed difference when it is. "
               "Audit (YA, notes/C02.md has the clause x theorem matrix): the number / order / arguments of the invocations as an "
               "observation of ANY callback (C02_call_trace: result k was computed after exactly the first k+1 arguments); the window as "
               "a set of positions (C02_slice_positions); the corners of the statement for every entry point and both bodies - window = 1, "
               "len = 0, window > len (what each body reports at the final position); the two bodies differ exactly when len < w at "
               "i = len-1 and a callback can observe it there (C02_bodies_differ_exactly_at / _observably) while every callback sees "
               "equal bodies once the window fits; the hypothesis w <= len dropped from the index-form agreement theorems; EVERY backend "
               "x both output paths through a dispatch model (Vec, [T], [T; N], three ndarray types: index body on both paths; VecDeque, "
               "option view, Polars: trait default; Arc<V> = V) with closed forms for all eight entry points, what does not depend on the "
               "backend, and the one place that does (slice form at window 0: assertion vs window-1 underflow); the lazy iterator "
               "(k pulls run the callback on the first k windows, draining = the returned slice form). Nothing is partial. Not covered: "
               "a caller buffer whose length differs from the series, panicking callbacks. The model is tied to the code by an exhaustive "
               "small-scope differential run (recording callback, all entry points x backends x output paths, and the "
               "degenerate two-series combinations with the identity of the failing check). Second tie (translator): the bodies of the twelve `fn rolling*` of view.rs and the Vec / ndarray / Arc overrides are parsed from the Rust source on every run (tools/gen_tables_drv.py) and proved (Proofs/SrcTablesDrv.v, 23 axiom-free theorems, every window / series / pair of lengths) to denote exactly the guards (check2_default / check2_to / check2_custom, by assertion message), the call lists (args_iter, args_iter_idx, args_iter_idx2, slices_iter, calls_to, calls_to_idx, slices_to) and the backend routing of Model/Driver.v.",
    level_note="Trusted: Coq kernel; the hand-written model of view.rs/vec.rs/ndarray.rs driver bodies and of std's "
               "repeat_n/chain/zip/enumerate; the harness and comparator. Polars backend: exercised by c02pl (separate crate "
               "harness-pl/) in both tiers.",
    trusted=["the model of std iterator adaptors (repeat_n, chain, zip, enumerate) used by the iterator bodies"],
)
