"""C02 — rolling drivers call back once per position with exactly the right window."""
CFG = dict(
    bins=["c02"],
    # harness-pl/ (tevec with the `polars` feature), thorough tier only — see tools/propcfg/C07.py
    bins_thorough_pl=["c02pl"],
    imports=["Run.RunC02"],
    exhaustive=True,
    rule="exhaustive: every len 0..=7 (thorough 0..=12) x window 1..=len+3 x 10 driver entry points "
         "(rolling_apply, rolling_apply_idx, rolling2_apply, rolling2_apply_idx, rolling_custom, "
         "rolling_custom_to, rolling_custom_iter, rolling2_custom; returned and caller-buffer paths) x "
         "backends (Vec, [T], [T;N], Arc<Vec>, VecDeque at 3 ring offsets, ndarray owned / step 2 / "
         "reversed views, option view); one series per length with NaNs sprinkled in; a recording "
         "callback logs every invocation; compared exactly with the model's call trace and output; "
         "non-trivial = every case (each is a distinct configuration); tags nt=0 mark trivial ones. THOROUGH TIER ONLY, "
         "binary c02pl of harness-pl/ (tevec built with feature polars): the same recording callback, len 0..=12 x window "
         "1..=len+3 x the 10 entry points x Polars Float64Chunked inputs of 1, 2, 3 chunks (nulls where the series has NaN; "
         "by value and by reference), the second series a Vec or a Polars array with another chunking, slice forms "
         "receiving Polars slices that span chunk boundaries; compared with the default-body model (iterator body "
         "returned, index body into the caller's buffer) over Option<f64> elements",
    theorem_hint="Props/C02.v: C02_once_in_order_*, C02_removed_arg_*, C02_slice_arg_*",
    level_text="Proof: 13 theorems (Props/C02.v, axiom-free) about the Gallina model of all eight drivers and both "
               "bodies, for every series, window >= 1 and every stateful callback: one call per position in order, "
               "the removed argument, the slice argument = positions max(0,i-w+1)..=i, output placement, and agreement "
               "of the two bodies for add-emit-remove callbacks. The model is tied to the code by an exhaustive "
               "small-scope differential run (recording callback, all entry points x backends x output paths).",
    level_note="Trusted: Coq kernel; the hand-written model of view.rs/vec.rs/ndarray.rs driver bodies and of std's "
               "repeat_n/chain/zip/enumerate; the harness and comparator. Polars backend: exercised by c02pl (separate crate "
               "harness-pl/) in the thorough tier only.",
    trusted=["the model of std iterator adaptors (repeat_n, chain, zip, enumerate) used by the iterator bodies"],
)
