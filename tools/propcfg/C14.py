"""C14 — binning assigns the unique enclosing bin; run de-duplication keeps run ends."""
CFG = dict(
    bins=["c14"],
    imports=["Run.RunC14"],
    exhaustive=True,
    rule="vcut: exhaustive over every strictly ascending edge vector of size 0..=5 drawn from 6-letter alphabets "
         "(i32 small / i32 extremes incl. MIN, MIN+1, MAX-1, MAX / f64 small / f64 extremes incl. +-inf, +-f64::MAX; "
         "thorough adds a dense i32 and a subnormal f64 alphabet) x 0..=6 labels x right/left closed x add_bounds "
         "on/off; the value vector of each configuration holds every letter of the alphabet, its neighbours (+-1; "
         "f64: adjacent binary64 values and +-0.25), the type's MIN/MAX (f64: +-inf, +-MAX, -0.0, 5e-324), random "
         "values and nulls; element types i32, Option<i32>, f64; label types i32, Option<i32>, f64; Vec / VecDeque / "
         "ndarray containers; Option<i32> edge vectors with a None at every position and f64 edge vectors with a NaN "
         "(audit: guard first, unwrap panic at call time, NaN edge semantics); plus 1500 (thorough 5000) random configurations with up to 10 edges and matching "
         "label count (about a fifth of them with a repeated edge or unsorted edges: outside the quantifier, pins "
         "first-match-wins). unique: every series over {1,2,3} with a null prefix and/or suffix of every length up to "
         "len 7 (thorough 9) - sorted ascending, descending, constant and unsorted - every series over {null,1,2} "
         "with an inner null up to len 6 (thorough 8), 600 (thorough 2000) long sorted series with runs up to 12, "
         "null blocks and the type's extremes; each case runs vsorted_unique_idx(First), (Last) and vsorted_unique; "
         "element types i32, Option<i32>, f64; Vec / VecDeque / ndarray. All compared exactly with the model; "
         "non-trivial = distinct case descriptions not tagged nt=0 (empty / all-null input)",
    theorem_hint="Props/C14.v: C14_cut_*, C14_unique_*, C14_carrier_laws, C14_generic_spec_at_Z (Proofs/Binning.v, Unique.v, Audit14.v)",
    level_text="Proof: 41 theorems of Props/C14.v about the Gallina model of vcut, vsorted_unique_idx and vsorted_unique. "
               "(1)-(16), over Z with an explicit null, axiom-free: for strictly ascending edges and a matching label count "
               "a non-null value gets label j iff interval j contains it, that interval is unique, Err iff no interval "
               "contains it, null gives the null label, a wrong label count gives Err, with open outer bounds every "
               "non-null value is labelled; on run-structured inputs (null prefix/suffix, adjacent runs distinct) "
               "Keep::First / Keep::Last return exactly the first / last index of each run and vsorted_unique one "
               "representative per run. (17)-(28), the audit (Proofs/Audit14.v): the same for EVERY carrier - first "
               "match / Err iff no interval / label among the given labels / independence of T::MIN,T::MAX / length and "
               "positions / null label iff null value for an arbitrary element type with arbitrary comparison functions "
               "(no law); label iff enclosing interval, uniqueness and totality with open bounds on every carrier whose "
               "non-null elements form a strict weak order (instances proved: Z, binary64 = Coq's primitive float, every "
               "Num carrier with OrdLaws); law-free: every index reported by either Keep is in range, holds a non-null "
               "value, indices strictly ascending; under a partial equivalence `==` (Z, binary64) Keep::Last and "
               "Keep::First are characterised positionally for ANY series (nulls anywhere; the old hypothesis "
               "nulls-at-ends of the Keep::First characterisation is dropped: the predecessor is the nearest non-null "
               "cell) and vsorted_unique is exactly the values at the Keep::First indices; the excluded inputs are "
               "characterised too: label-count guard first (Err whatever the edges hold), then a None edge of an Option "
               "edge vector panics at call time, a label type without a null unwinds iff the input holds a null, and a NaN "
               "edge loses totality (witness). Binary64 theorems depend on FloatAxioms.{eqb,ltb,leb}_spec only. Not "
               "restated: the run form (9),(10) on carriers other than Z (subsumed by the positional theorems); no f32 "
               "instance of its own. The model is tied to the code by an exhaustive small-scope differential run. "
               "Second, static tie (translator): the label-count guards, the materialised edge vector, the comparison operators / bounds / open ends of both vcut closures, the null and unmatched results, and the Keep::First / Keep::Last / vsorted_unique decision tables (run test, sentinel chain(once(None)), what is emitted and stored) are re-extracted from valid_iter.rs on every run and Proofs/SrcTablesMapBin.v re-proves, for every element type, comparison functions, edges, labels and series, that Model/Binning.v uses exactly those (src_vcut_conforms, src_vcut_call_conforms, src_uidx_first_conforms, src_uidx_last_conforms, src_vsorted_unique_conforms).",
    src_tables=True,   # tools/gen_tables.py (+ gen_tables_map.py): decision tables regenerated from the Rust source on every run
    src_tables_proofs=["Proofs/SrcTablesMapBin.vo"],
    level_note="Trusted: Coq kernel; the hand-written model of valid_iter.rs (vcut, vsorted_unique_idx, vsorted_unique) "
               "and of itertools::tuple_windows / zip / enumerate / filter_map / chain(once); the harness and comparator. "
               "Edges are assumed non-null (a None edge of an Option<T> edge vector unwraps and panics; out of the "
               "property's quantifier). PrimFloat comparison is used only to run the model on f64 cases.",
    trusted=["the model of itertools::tuple_windows and std zip/enumerate/filter_map/chain(once) used by vcut and "
             "vsorted_unique_idx",
             "Coq PrimFloat ltb/leb/eqb = IEEE-754 binary64 comparison (only for evaluating the model on f64 cases; "
             "no theorem depends on it)"],
    assumptions=["edge vectors contain no null (Option<T> edge vectors hold only Some(_), f64 edge vectors no NaN) for "
                 "the label / uniqueness / totality theorems; what the code does on null edges is theorem (27) and the "
                 "NaN-edge witness, both compared with the real code (fn=vcut_call, fn=vcut_nan_edge)",
                 "binary64 series for the unique theorems hold no Some(NaN) (DESIGN 5.4)"],
)
