"""C06 — rolling and lagging results never depend on later (or pre-window) data."""
from fractions import Fraction

def _split(cells):
    parts, cur = [], []
    for c in cells:
        if c[0] == 9:
            parts.append(cur); cur = []
        else:
            cur.append(c)
    parts.append(cur)
    return parts

def _val(c):
    t, a, b = c
    if t == 0: return Fraction(a)
    if t == 1: return Fraction(a) * (Fraction(2) ** b)
    return None

def _close(a, b, rtol, scale):
    if a[0] in (0, 1) and b[0] in (0, 1):
        x, y = _val(a), _val(b)
        if x == y: return True
        fx, fy = float(x), float(y)
        return abs(fx - fy) <= rtol * max(1.0, abs(fx), abs(fy), scale)
    # DESIGN 5.6: +-inf can only come from dividing a rounding residue by an exactly-zero denominator, i.e. at a position
    # whose window is singular in exact arithmetic (e.g. ts_vewm with min_periods 0 on an all-null window: q/(1-oma^0));
    # there neither value nor nullness is compared.  A finite number against a null is still a difference.
    if a[0] in (3, 4) and b[0] in (2, 3, 4): return True
    if b[0] in (3, 4) and a[0] in (2, 3, 4): return True
    # nulls, panics: identical tags
    return a[0] == b[0]

def compare(cmp, impl, model):
    parts = _split(impl)
    if len(parts) != 2:
        return "malformed implementation cells"
    A, B = parts
    if cmp.startswith("custom:prefixm"):
        # (1) the prefix law on the implementation, bit for bit
        if A != B:
            k = next((i for i, (x, y) in enumerate(zip(A, B)) if x != y), min(len(A), len(B)))
            return "f(prefix) differs from the prefix of f(whole) at position %d: %s vs %s (lengths %d / %d)" % (
                k, A[k] if k < len(A) else None, B[k] if k < len(B) else None, len(A), len(B))
        # (2) the tie: implementation on the prefix vs the model run on the prefix
        mparts = _split(model)
        mv = mparts[0]
        flags = [c[1] for c in mparts[1]] if len(mparts) > 1 else []
        if cmp.endswith(":L") and mv and mv[0][0] == 0:
            mv = mv[1:]   # announced length cell of the map interpreters
        ip = [c for c in A if c[0] == 5]; mp = [c for c in mv if c[0] == 5]
        if ip or mp:
            return None if bool(ip) == bool(mp) else "panic mismatch: impl %s, model %s" % (A[:1], mv[:1])
        if len(A) != len(mv):
            return "length: impl %d, model %d" % (len(A), len(mv))
        for k, (a, b) in enumerate(zip(A, mv)):
            if k < len(flags) and flags[k] == 1: continue
            if not _close(a, b, 1e-7, 4e4):
                return "position %d: impl %s, model %s" % (k, a, b)
        return None
    if cmp.startswith("custom:window"):
        arg = cmp.split(":", 2)[2]
        if len(A) != len(B):
            return "lengths differ: %d / %d" % (len(A), len(B))
        if arg == "exact":
            if A != B:
                k = next(i for i, (x, y) in enumerate(zip(A, B)) if x != y)
                return "window-only violated (exact statistic): tail position %d: %s with history A, %s with history B" % (k, A[k], B[k])
            return None
        rtol, scale = [float(x) for x in arg.split(",")]
        for k, (a, b) in enumerate(zip(A, B)):
            if not _close(a, b, rtol, scale):
                return "window-only violated: tail position %d: %s with history A, %s with history B" % (k, a, b)
        return None
    return "unknown comparator " + cmp

CFG = dict(
    src_tables=True,   # tools/gen_tables.py + Proofs/SrcTablesRoll.v: tables regenerated from the Rust source on every run
    src_tables_proofs=["Proofs/SrcTablesRoll.vo"],   # the rolling-family part of the generated tables (min_periods shapes)
    bins=["c06"],
    imports=["Run.RunC01", "Run.RunC03", "Run.RunC04", "Run.RunC13"],
    rule="part=prefix: 40 (thorough 90) structured series of length 1..9 (14) with nulls x 2 random (window, explicit min_periods) x all "
         "37 rolling entry points (Vec = index body / VecDeque = iterator body alternating) + ts_vregx_all (audit block: equal / longer / shorter second series) x EVERY cut point 0..=len (omitted "
         "min_periods added for cuts >= w): f(xs[..k]) must equal f(xs)[..k] bit for bit and agree with the model run on the prefix "
         "(1e-7, nullness exact, exactly-singular windows skipped); shift / vshift / vdiff / vpct_change for every lag 0..=len+1, "
         "null and non-null fill, every cut. part=window: 90 (thorough 240) configurations of two different finite histories (one "
         "rescaled by 8x+3, sometimes all null; length 1..12) followed by the same tail: every output whose window lies inside the tail "
         "must be identical for min / max / arg-extrema / rank and within 1e-9 relative to the history magnitude otherwise, for all 37 "
         "entry points. nt=0 marks the empty prefix.",
    theorem_hint="Props/C06.v",
    level_text="Proof (Coq, 70 theorems in Props/C06.v; audit matrix in notes/C06.md). AUDIT (Proofs/Audit06.v, section (D)): the prefix law at the level "
               "of the OUTCOME of the call for EVERY window (whenever the whole call returns, the prefix call returns the prefix of its result "
               "and does not panic), by name for the 14 one-series add-emit-remove entry points and the two fractional differences; the "
               "two-series ENTRY points with their length assertion / truncation on series of any lengths (prefix law; window-only law in exact "
               "reals for two pairs of series with independently chosen bodies; the out_of form refuted when the whole call is rejected); the "
               "rejected fill value of vshift / vdiff (same panic on every prefix). (A) No look-ahead, bit for bit: the prefix law out(firstn k xs) = firstn k "
               "(out xs) for EVERY add-emit-remove rolling feature over every carrier (no law of the numeric class is used, so it "
               "holds at binary64 too), both driver bodies, every window >= 1 and cut k (moments, ewm, wma, z-score, cov / corr / "
               "regression-on-x over the zipped series, trend regressions); for the slice-form drivers (fdiff) with any stateful "
               "callback; for the INDEX-FORM callbacks that re-read the series through uget, by a generic rule for the window-index "
               "driver (C06_prefix_index_form_rule: callbacks that agree below the cut and give the same output at the last "
               "position of the prefix, where the start index may differ) instantiated, at EVERY carrier and null dictionary "
               "(axiom-free; read-locality of every scan loop plus a warm-up invariant per callback), for ts_vmin / vmax / vargmin "
               "/ vargmax / vrank (explicit min_periods at every cut, omitted min_periods when prefix and series are >= w long; a "
               "refutation witness shows the DESIGN 5.3 restriction is needed), ts_vminmaxnorm (every cut, any min_periods) and "
               "ts_vregx_resid_mean / std / skew (every cut) in the form 'the whole call returns out -> the call on the prefix "
               "returns firstn k out'; UNCONDITIONALLY (the whole call returns out of the input length and the prefix call returns "
               "firstn k out) for ts_vmin / vmax / vargmin / vargmax at every carrier satisfying the order laws OrdLaws of "
               "Spec/ExtremaOrd.v on series whose valid elements are not NaN (C06_prefix_ordered_*, Proofs/MaskOrd.v: totality from "
               "the C03 closed forms) — the integer carrier, option R, and Coq's primitive binary64: f64 with NaN as the null with "
               "no premise (C06_prefix_extrema_binary64) and Option<f64> without Some(NaN), DESIGN 5.4 "
               "(C06_prefix_extrema_option_binary64), resting only on FloatAxioms.{eqb,ltb,leb}_spec — and for ts_vrank at EVERY "
               "input and output carrier with no law and no premise (C06_prefix_unconditional_ts_vrank, axiom-free; binary64 in and "
               "out: C06_ts_vrank_binary64_no_lookahead); at option R for ts_vminmaxnorm on data bounded by the sentinels; for shift / vshift / vdiff / "
               "vpct_change with every n >= 0 (a witness shows n < 0 reads ahead). (B) No dependence on pre-window data: two "
               "series whose windows at positions i and j coincide give equal outputs there — exactly for min / max / arg-extrema "
               "/ rank (integer carrier, axiom-free; at every OrdLaws carrier incl. binary64 f64 / Option<f64> in the strong form "
               "'both calls return, either driver body each, and the two outputs are the same value': C06_window_only_ordered_*, "
               "C06_window_only_extrema_binary64 / _option_binary64; ts_vrank at every input and output carrier, binary64 rank "
               "arithmetic included, because its output is one function g_rank_any of the window: "
               "C06_ts_vrank_is_a_function_of_the_window, C06_window_only_any_carrier_ts_vrank) and for the stateless slice form, and in exact arithmetic (option R) for the moment, ewm, wma, "
               "cross-sum and trend accumulators with ANY emit function, for ts_vzscore (the state also remembers the current "
               "element; the emitted value is still determined by the window), for ts_vminmaxnorm (bounded data) and for the three "
               "regression-residual statistics (windows of both series). Still partial: for ts_vminmaxnorm at carriers other than option R the "
               "index-form prefix law still assumes that the call on the whole series returns (no panic) — shown by the "
               "correspondence runs, not proved for binary64 (its closed form is over option R with the sentinel bound); for "
               "Option<f64> series containing Some(NaN) nothing is claimed (DESIGN 5.4; the model of ts_vargmin underflows there); "
               "the window-only law of the accumulator families holds up to rounding in binary64 "
               "(DESIGN 5.1/5.2): for the rolling SUM this is now a theorem about the execution instance (Coq's primitive "
               "binary64, Flocq's IEEE addition; Proofs/RoundSum.v, (13)-(17)) — after any history the emitted sum is within "
               "((1+u)^m - 1) * H of the exact window sum (u = 2^-53, m <= 2i+1 operations performed so far, H <= 2 * sum of |x| "
               "over the history; also (2i+1) * u * max accumulator), two histories with the same window differ by at most the "
               "two bounds (C06_history_independence_up_to_rounding_ts_vsum), the only premise being that the emitted value is "
               "finite, and on dyadic-grid data (the generated k/4 inputs) no operation rounds, so the binary64 run equals the "
               "exact run; the rolling MEAN likewise ((18)-(19), Proofs/RoundMean.v; the division can underflow): within "
               "((1+u)^(m+1) - 1) * H / n + 2^-1075 of the exact window mean after any history, two histories with the same window "
               "differ by at most the two bounds (C06_history_independence_up_to_rounding_ts_vmean; premise w < 2^53, also rests on "
               "FloatAxioms.div_spec / of_uint63_spec), and (20) the exactness of the rolling sum on grid data needs only every WINDOW in "
               "range, not the history (all four power sums: C01_moment_state_exact_on_grid); for the other accumulator families "
               "(var, skew, kurt, ewm, wma, cross sums, trend) the rounding "
               "bound is still only the tolerance of the two-history runs. Tied to the code by relational runs on the implementation (all "
               "cuts, bit for bit; two histories) plus the model run on every prefix, and statically (translator, Proofs/SrcTablesRoll.v, "
               "re-checked on every run): which entry points clamp the window to the series length before computing min_periods — the one "
               "thing that makes a prefix behave differently (DESIGN 5.3) — is re-extracted from the Rust source text of all 38 `fn ts_*` and "
               "proved equal to the models (exactly the five cmp.rs functions; every other effective min_periods is length-independent).",
    level_note="Trusted: Coq kernel (+ Reals axioms for the window-only statements; + Classical_Prop.classic and the standard library's FloatAxioms.{Prim2SF_valid, SF2Prim_Prim2SF, Prim2SF_SF2Prim, add_spec, sub_spec, opp_spec, abs_spec, eqb_spec} under the binary64 rounding theorems of the rolling sum, which go through Flocq's IEEE754.PrimFloat bridge); the models of the rolling families; DESIGN 5.2 "
               "(finite bounded histories: an infinite or overflowing history poisons the accumulators forever) and 5.3 (omitted "
               "min_periods of the extrema/rank family only for len >= w).",
    trusted=["Reals axioms of the Coq standard library under the window-only theorems",
             "under the binary64 rounding theorems (13)-(17): additionally Classical_Prop.classic and the standard library's "
             "specification of the primitive floats (FloatAxioms.add_spec, sub_spec, opp_spec, abs_spec, eqb_spec, Prim2SF_valid, "
             "SF2Prim_Prim2SF, Prim2SF_SF2Prim) on which Flocq.IEEE754.PrimFloat rests; the Flocq 4.1.0 library itself is "
             "checked by Coq and declares no axiom"],
)
