"""C01 — rolling moments and weighted averages equal from-scratch window evaluation."""
CFG = dict(
    bins=["c01"],
    imports=["Run.RunC01"],
    rule="series: exhaustive over the alphabet {-1, 0.5, 2, null} up to length 2 (thorough 4) + 250 (thorough 2500) "
         "structured random series of length 4..24 (48) of dyadic values k/4 (uniform / small alphabet with ties / monotone / "
         "constant / random walk) x 9 null patterns; windows 1..=len+2, min_periods omitted or 0..=w (all of them in the "
         "exhaustive scope, 3 random (w, mp) otherwise); functions ts_v{sum,mean,ewm,wma,std,var,skew,kurt}, the plain family "
         "ts_{sum..kurt}, ts_fdiff and ts_vfdiff with d in {0.3,0.5,0.75,1,1.5,2}; element types f64, Option<f64>, i32; outputs "
         "f64, f32, Option<f64>; backends Vec (index body, returned and caller buffer), VecDeque / option view (iterator body); "
         "compared with the model at Coq's binary64 within 1e-9 (1e-7 skew/kurt) relative to max(1,|x|,4e4), nullness "
         "exact; a case is non-trivial when the series is non-empty (nt=0 otherwise)",
    theorem_hint="Props/C01.v: C01_state_tracks_window, C01_ts_v{sum,mean,var,std,skew,kurt,ewm,wma}, C01_ts_fdiff",
    level_text="Proof (Coq, carrier option R = exact reals + absorbing NaN): the generic add-emit-remove sliding invariant "
               "(Proofs/Sliding.v) gives, for every series, window >= 1, min_periods, position and both driver bodies, that the "
               "accumulator holds exactly the count and power sums of the non-null window (C01_state_tracks_window), and 15 "
               "theorems output_i = textbook statistic of the window for sum, mean, sample variance, sample std (EPS floor "
               "explicit and bounded by 2 EPS), adjusted skewness, adjusted excess kurtosis, exponentially weighted mean "
               "(= normalised weighted average), linearly weighted mean, plain fractional difference (weights (-1)^k C(d,k) "
               "on the k-th most recent element, warm-up included) and the plain family = null-aware family on null-free input. "
               "Partial: the null-aware ts_vfdiff is covered by model + correspondence only. The model is tied to the code by "
               "~14k differential cases per run at Coq's binary64.",
    level_note="Trusted: Coq kernel + Reals axioms (sig_forall_dec, sig_not_dec, functional_extensionality_dep); the model of "
               "features.rs/rolling.rs; IEEE rounding is outside the theorems (exact reals) and absorbed by the 1e-9 tolerance; "
               "C++ special::binom modelled by the generalised binomial product; f64::powi modelled as compiler-rt's square-and-multiply.",
    trusted=["Reals axioms of the Coq standard library (ClassicalDedekindReals.sig_forall_dec, sig_not_dec, "
             "FunctionalExtensionality.functional_extensionality_dep)",
             "binary64 rounding/overflow is not modelled by the proof instance (option R); the float instance is compared with tolerance"],
)
