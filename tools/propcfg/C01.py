"""C01 — rolling moments and weighted averages equal from-scratch window evaluation."""
CFG = dict(
    bins=["c01"],
    src_tables=True,   # tools/gen_tables.py: min_periods shapes (Proofs/SrcTablesRoll.v) and the emit / EPS guards of the rolling closures (Proofs/SrcTablesAgg.v), regenerated from the Rust source on every run
    src_tables_proofs=["Proofs/SrcTablesRoll.vo", "Proofs/SrcTablesAgg.vo"],
    imports=["Run.RunC01"],
    rule="series: exhaustive over the alphabet {-1, 0.5, 2, null} up to length 2 (thorough 4) + 250 (thorough 2500) "
         "structured random series of length 4..24 (48) of dyadic values k/4 (uniform / small alphabet with ties / monotone / "
         "constant / random walk) x 9 null patterns; windows 1..=len+2, min_periods omitted or 0..=w (all of them in the "
         "exhaustive scope, 3 random (w, mp) otherwise); functions ts_v{sum,mean,ewm,wma,std,var,skew,kurt}, the plain family "
         "ts_{sum..kurt}, ts_fdiff and ts_vfdiff with d in {0.3,0.5,0.75,1,1.5,2}; element types f64, Option<f64>, i32; outputs "
         "f64, f32, Option<f64>; backends Vec (index body, returned and caller buffer), VecDeque / option view (iterator body); "
         "compared with the model at Coq's binary64 within 1e-9 (1e-7 skew/kurt) relative to max(1,|x|,4e4), nullness "
         "exact; a case is non-trivial when the series is non-empty (nt=0 otherwise)",
    theorem_hint="Props/C01.v: C01_state_tracks_window, C01_ts_v{sum,mean,var,std,skew,kurt,ewm,wma}, C01_ts_fdiff, C01_ts_vfdiff (+ _textbook, _depends_on_valid_only, _nulls_shift_weights), C01_fdiff_coef_{length,nth,last,d1,integer_*}, C01_plain_equals_null_aware, C01_zero_variance_outputs, C01_ts_vewm_total",
    level_text="Proof (Coq, carrier option R = exact reals + absorbing NaN): the generic add-emit-remove sliding invariant "
               "(Proofs/Sliding.v) gives, for every series, window >= 1, min_periods, position and both driver bodies, that the "
               "accumulator holds exactly the count and power sums of the non-null window (C01_state_tracks_window), and 49 further "
               "theorems: output_i = textbook statistic of the window for sum, mean, sample variance, sample std (EPS floor "
               "explicit; bounded by 2 EPS for var and sqrt(2 EPS) for std), adjusted skewness, adjusted excess kurtosis (both "
               "exactly 0 when the population variance is <= EPS: C01_zero_variance_outputs, constant windows included), "
               "exponentially weighted mean (= normalised weighted average, null iff the window has no valid element: "
               "C01_ts_vewm_total), linearly weighted mean, plain fractional difference (weights (-1)^k C(d,k) on the k-th most "
               "recent element, warm-up included; also in series coordinates, C01_ts_fdiff_textbook) and the null-aware "
               "ts_vfdiff (C01_ts_vfdiff: null iff fewer than min(min_periods or w/2, w) valid elements in the window, otherwise "
               "the fractional difference of the COMPACTED window - the k-th most recent valid element gets (-1)^k C(d,k), so a "
               "null shifts the weights of all older elements and a null current element does not null the output; pinned by "
               "C01_vfdiff_nulls_shift_weights / _current_null_not_null / _depends_on_valid_only). Coefficient table: length w for "
               "every carrier, entry k from the end = (-1)^k C(d,k) with C the generalised binomial product and its recurrence, "
               "last entry 1, integer order n = binomial numbers up to n and exactly 0 beyond (so fdiff of integer order is the "
               "window-truncated n-th finite difference; order 0 identity; order 1, w >= 2 = first difference, table "
               "[0..0,-1,1]). Plain = null-aware on null-free input for all nine entry points by name "
               "(C01_plain_equals_null_aware; for fdiff position by position, whole outputs when the effective min_periods <= 1, "
               "masked warm-up otherwise). Weights in the literature's recurrence form, negative and decreasing in magnitude for 0 < d < 1; "
               "the repository's own unit-test vectors (test_fdiff_coef, test_fdiff) derived exactly. window = 0 is rejected by both fractional differences (C01_fdiff_window0). "
               "Binary64 (theorems about the execution instance at Coq's primitive float, Flocq's IEEE operations; Proofs/RoundMean.v, "
               "(B1)-(B10); these rest additionally on Classical_Prop.classic and the standard library's FloatAxioms specification of the "
               "primitive floats): the rolling MEAN after any history is within ((1+u)^(m+1) - 1) * H / n + 2^-1075 of the exact window "
               "mean (m <= 2i+1 operations so far, H <= 2 * sum |x| of the history; premise: the output is finite, w < 2^53); and on a "
               "dyadic grid (valid elements multiples of 2^e, every window's sum of |x|^K < 2^(K e + 53), K <= 4) no product, addition "
               "or subtraction of the moment accumulator rounds: the float state holds the count and the first K power sums of the "
               "window EXACTLY, equals the state of the option-R run (C01_moment_state_exact_on_grid; the instances differ only in the "
               "closed form of emit), window-locally — DESIGN 2.3's claim for the generated inputs (k/4, |k| <= 400, windows <= 64) is "
               "C01_generated_inputs_in_range, and there the rolling mean is the correctly rounded exact window mean "
               "(C01_ts_vmean_correctly_rounded_on_grid). "
               "Not covered by theorems: order d = NaN; binary64 rounding of the closed forms var / std / skew / kurt (cancellation; "
               "notes/C11.md X19) and of ewm / wma / fdiff (correspondence only). The model is tied to the code "
               "by ~14k differential cases per run at Coq's binary64.",
    level_note="Trusted: Coq kernel + Reals axioms (sig_forall_dec, sig_not_dec, functional_extensionality_dep); the model of "
               "features.rs/rolling.rs; IEEE rounding is outside the theorems (exact reals) and absorbed by the 1e-9 tolerance; "
               "C++ special::binom modelled by the generalised binomial product; f64::powi modelled as compiler-rt's square-and-multiply.",
    trusted=["Reals axioms of the Coq standard library (ClassicalDedekindReals.sig_forall_dec, sig_not_dec, "
             "FunctionalExtensionality.functional_extensionality_dep)",
             "binary64 rounding/overflow is not modelled by the proof instance (option R); the float instance is compared with tolerance"],
)
