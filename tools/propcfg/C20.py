"""C20 — composite analytics terminate within range and respect their defining relations."""
CFG = dict(
    bins=["c20"],
    imports=["Run.RunC20"],
    exhaustive=True,
    rule="real public API: MapValidFinal::winsorize (Quantile / Median / Sigma), AggValidFinal::vcorr(.., Spearman), "
         "AggValidFinal::half_life, at f64 (NaN null), Option<f64>, i32; backends Vec, VecDeque (wrapped ring), ndarray. "
         "winsorize: every series over {-1, 2, 3, null} up to length 4 (thorough 5) x every method x q in {0, .01, .1, .25, .5} / "
         "k in {0, .5, 1, 2, 3} / omitted parameter; every series over {0.5, 1.5, null} of length 5..6 (6..8) with rotating "
         "parameters; 150 (1200) structured random series of length 1..40 (constant, monotone up / down, alternating, heavy "
         "ties, outliers, uniform dyadic, random walk; integers or k/4) x 9 null patterns x all 18 parameter points; plus "
         "out-of-quantifier parameters (q > 1/2, q outside [0,1] -> Err, q = NaN, k < 0) compared with the model only. "
         "In-scope cases are compared with the model at binary64 (1e-9, nullness and length exact) AND checked relationally "
         "on the implementation's own output (nulls fixed, every output is its input or one of at most two bound values, "
         "all outputs inside the bounds, no unchanged value outside them, order preserved). "
         "Spearman: all pairs over {-1, 2, 3, null} up to length 3 (every min_periods 0..=len+1 and omitted up to length 2; "
         "thorough also length 4 over {0.5, 1.5, null}), 350 (2500) random pairs (independent, antitone image with its own "
         "nulls, shorter second series, partly equal), nulls in different positions of the two series; each case compares "
         "vcorr(Spearman) with the model (1e-7) and, bit for bit, with Pearson of the library's own vrank output; every "
         "second random pair also on x->3x+1, x->x^3, y->exp(y/8) and both (10 cells, all bit-identical). "
         "half_life: every series over {-1, 2, null} up to length 5 (6) x every min_periods 0..=len and omitted; constant, "
         "monotone, alternating, random-walk, moving-average and AR(1) paths with persistence 0, .25, .5, .75, .9, .95, .99, 1 "
         "(dyadic innovations) of every length 0..24 and then in steps up to 64 (300), with the nine null patterns, "
         "min_periods 1, omitted, random, len; compared exactly with the executable model and with a plain re-run of the "
         "search over the library's own vcorr_pearson(vshift(lag)); a case where a probed correlation is within 1e-9 of 0.5 "
         "without being equal to it is only required not to panic (tag edge=1), a probed correlation of exactly 0.5 is "
         "compared exactly (tag exact_half=1; six crafted series put it on a bisection midpoint); branch counters in the "
         "tags (dbl, mid_above, mid_below, cap, ret0). "
         "i32 series: half_life panics in T::none() (DESIGN 5.4), reproduced by the model. nt=0 marks empty input. "
         "Audit additions (own random stream, the earlier cases are unchanged): vcorr(.., Pearson) (agg.rs:44) - every pair over "
         "{-1, 2, 3, null} of equal length 0..=2 with every min_periods 0..=len+1 and omitted, a quarter of the pairs of lengths "
         "(3,3) (2,3) (3,2), all of (0,2) (2,0) (1,3) (3,1), 200 (1200) random pairs (independent, affine image, shorter / longer "
         "second series), and 114 null-free pairs with omitted min_periods where one series is about half as long as the other, in "
         "both orders (the default len/2 of the FIRST series decides); two cells (vcorr and a direct vcorr_pearson call with that "
         "default) bit-identical and within 1e-7 of the model (tag fn=vcorr_pearson_arm); winsorize on [1,2,3], [1,null,2,3], "
         "[2,-1,3,3,7] with q = 1, 0.75, k = -1 and a NaN parameter for every method and element type (style=crafted_reversed: "
         "the witness [3,3,1] of C20_winsorize_scope_needed on the real code).",
    theorem_hint="Props/C20.v: C20_winsorize_quantile, C20_winsorize_median, C20_winsorize_sigma, C20_clip_laws, "
                 "C20_quantile_monotone, C20_spearman, C20_rank_invariant, C20_spearman_invariant, "
                 "C20_half_life_total, C20_half_life_threshold, C20_winsorize_encoding, C20_vcorr_encoding, "
                 "C20_*_opt / C20_*_i32 (Option<f64> and i32 lifts), C20_half_life_probe_sequence, C20_half_life_crossing, "
                 "C20_autocorr_defined_iff_enough_pairs; audit: C20_winsorize_shape, C20_winsorize_returns, C20_winsorize_binary64, "
                 "C20_winsorize_every_parameter, C20_winsorize_reversed_scope, C20_winsorize_scope_needed, C20_half_life_any_oracle, "
                 "C20_half_life_panics_iff, C20_half_life_total_any_carrier, C20_half_life_binary64, C20_vcorr_pearson_arm, "
                 "C20_vcorr_pearson_textbook",
    level_text="Proof (Coq): winsorize (model assembled from the C11-C13 models of vquantile, vmedian, vmean_var, vclip) "
               "equals map (clip lo hi) over the cast input with (lo, hi) the q / 1-q linear quantiles, median -/+ k MAD, "
               "mean -/+ k sigma of the valid data, lo <= hi (interpolated quantile monotone in q; MAD >= 0; sigma >= 0), "
               "hence length-preserving, nulls fixed, identity inside, nearer bound outside, order preserving; Spearman = "
               "Pearson of the average ranks (C12 characterisation), ranks and therefore Spearman invariant under strictly "
               "increasing maps of either series; half_life never runs out of fuel, never panics, returns a lag in "
               "0..=len-1 (0 iff len < 2) and the first non-exceeding lag capped at len-1 for a threshold autocorrelation, "
               "for the executable oracle vcorr_pearson(xs, vshift(xs, lag)) > 0.5. "
               "Element types: winsorize, vcorr (Pearson / Spearman) and half_life are proved encoding independent for every "
               "carrier (binary64 included) and every two null dictionaries on series with the same option view, so every "
               "winsorize / rank / Spearman theorem is also stated and proved for Option<f64> series (Some (Some r) | None) and "
               "for i32 series over their f64 cast (C20_*_opt, C20_*_i32). "
               "Half-life probes: a traced copy of the two loops (erasure = the model) probes exactly 1, 2, 4, .., 2^j with j "
               "the first exponent at which the test fails, then exactly the bisection midpoints determined by the answers, "
               "each strictly inside the bracket; the result is the cap len-1 or a genuine down-crossing (test false at r, true "
               "at r-1 or r = 1) inside (2^(j-1), 2^j] - for the executable oracle and EVERY min_periods; the oracle itself is "
               "Pearson's r of the complete pairs (x[i+lag], x[i]), null iff fewer than max(min_periods, 2) such pairs or zero "
               "spread, so a lag leaving exactly min_periods pairs is evaluated. "
               "Audit (notes/C20.md, Audit matrix; 33 theorems): winsorize at EVERY carrier (binary64 included), every dictionary, "
               "method and parameter (omitted, NaN, out of range) has one of four shapes (propagated panic, Err - Quantile only -, the "
               "cast input, one map of vclip's element function), hence WHENEVER it returns: one value per input, NaN-ness fixed, "
               "nulls -> NaN, every output bit-identical to the cast input or on one of two bounds; at an ordered carrier (order laws "
               "of PrimFloat.ltb from FloatAxioms) and bounds not reversed: inside the bounds, idempotent, order preserving "
               "(C20_winsorize_binary64). Option R, every parameter: never a panic, Err exactly for Quantile with q NaN or outside "
               "[0,1]; closed forms for every 0 <= q <= 1, every real k and k = NaN; for q in (1/2,1] and k < 0 the bounds are REVERSED "
               "and order preservation FAILS ([1,2,3] -> [3,3,1], C20_winsorize_scope_needed, replayed on the code) - the scope "
               "hypothesis is exactly needed. half_life over ANY oracle never runs out of fuel and panics IFF the oracle is true on the "
               "whole doubling sequence up to the first power of two >= len (C20_half_life_panics_iff; witness), where the real "
               "autocorrelation is null; threshold theorem for every L; totality, threshold, probe sequence at every carrier whose NaN "
               "tests as NaN and on the run's three binary64 dictionaries (C20_half_life_binary64). The Pearson arm of vcorr = "
               "vcorr_pearson with min_periods default len/2 of the FIRST series, zip truncation, textbook form (f64, Option, i32). "
               "Nothing is partial. Still correspondence only: that the binary64 bounds are ordered in scope and that the binary64 "
               "order-statistic selection does not panic (rounding); Spearman invariance at binary64. "
               "Model tied to the code by the differential run described in `rule`.",
    level_note="Trusted: Coq kernel + Reals axioms for the option-R theorems (the half-life theorems over an abstract oracle are "
               "axiom-free); the hand-written model; std's select_nth / sort post-conditions (C12); binary64 rounding is "
               "outside the theorems and absorbed by the tolerances; the EPS = 1e-14 variance floor of the Sigma method is "
               "explicit in the statement (a series with sample variance <= EPS is returned unchanged).",
    trusted=["Reals axioms of the Coq standard library under the theorems stated over option R",
             "the standard library's specification of the primitive binary64 comparisons (FloatAxioms.ltb_spec, leb_spec, eqb_spec) "
             "under C20_winsorize_binary64 and the non-vacuity example C20_ex_ordered_carrier",
             "binary64 rounding is not modelled by the proof instance; literals 0.01 and 3.0 are 1/100 and 3 in the model",
             "the relational comparator and the plain-Rust re-run of the search in harness/src/bin/c20.rs are additional "
             "oracles, not part of the proof"],
    assumptions=["canonical nulls (DESIGN 5.4): no Some(NaN); plain integer series are never null and half_life on them "
                 "panics in T::none() by design of the library (not claimed)",
                 "parameters inside the quantifier: 0 <= q <= 1/2, k >= 0 for the interval / order-preservation theorems; outside it "
                 "the option-R theorems say what the code does (Err, reversed bounds, unchanged on NaN) and that order preservation "
                 "fails; every min_periods (0, > len, omitted) is covered by the theorems",
                 "len < 2^31 (the lag is cast to i32; 2usize.pow(i) <= 2 len does not overflow)"],
)


def _drv():
    import sys
    drv = sys.modules.get("driver")
    if drv is None:
        import driver as drv
    return drv


def _flat(cells):
    return [x for c in cells for x in c]


def _wins_relations(drv, cells):
    """relational part of the winsorize check, on the implementation's output alone:
       cells = [len, out_0..out_{n-1}, sep, in_0..in_{n-1}]"""
    if len(cells) == 1:
        return None                      # Err / panic: nothing to relate (compared with the model already)
    n = cells[0][1]
    if len(cells) != 2 * n + 2 or cells[n + 1][0] != 9:
        return "winsorize: malformed result (announced %d items, %d cells)" % (n, len(cells))
    outs, ins = cells[1:n + 1], cells[n + 2:]
    lo_set, hi_set, pairs = set(), set(), []
    for i, (o, x) in enumerate(zip(outs, ins)):
        xo, xi = drv.fval(o), drv.fval(x)
        if (xo is None) != (xi is None):
            return "winsorize: nullness changed at %d: in %r out %r" % (i, x, o)
        if xi is None:
            continue
        pairs.append((xi, xo))
        if xo > xi: lo_set.add(xo)
        if xo < xi: hi_set.add(xo)
    if len(lo_set) > 1 or len(hi_set) > 1:
        return "winsorize: moved values do not land on one lower / one upper bound: %r %r" % (sorted(map(float, lo_set)), sorted(map(float, hi_set)))
    lo = next(iter(lo_set)) if lo_set else None
    hi = next(iter(hi_set)) if hi_set else None
    if lo is not None and hi is not None and lo > hi:
        return "winsorize: lower bound %r above upper bound %r" % (float(lo), float(hi))
    for (xi, xo) in pairs:
        if lo is not None and xo < lo: return "winsorize: output %r below the lower bound %r" % (float(xo), float(lo))
        if hi is not None and xo > hi: return "winsorize: output %r above the upper bound %r" % (float(xo), float(hi))
    pairs.sort()
    for (a, b) in zip(pairs, pairs[1:]):
        if a[1] > b[1]:
            return "winsorize: order not preserved: %r -> %r but %r -> %r" % tuple(map(float, (a[0], a[1], b[0], b[1])))
    return None


def compare(cmp, impl_cells, model_cells):
    drv = _drv()
    parts = cmp.split(":")
    kind = parts[1]
    if kind == "wins":
        why = drv.compare("float:1e-9", _flat(impl_cells), _flat(model_cells))
        if why: return why
        return _wins_relations(drv, impl_cells)
    if kind == "same":
        tol = parts[2] if len(parts) > 2 else "1e-7"
        why = drv.compare("float:" + tol, _flat(impl_cells), _flat(model_cells))
        if why: return why
        first = drv.canon(impl_cells[0]) if impl_cells else None
        for k, c in enumerate(impl_cells):
            if drv.canon(c) != first:
                return "cells of the implementation differ: cell 0 %r, cell %d %r" % (impl_cells[0], k, c)
        return None
    return "unknown comparator " + cmp
