"""C08 — NaN and None are the same null; nulls are transparent to the valid aggregations."""
import struct
from fractions import Fraction

I32_MIN, I32_MAX = -2 ** 31, 2 ** 31 - 1


def _split(cells, tag):
    parts, cur = [], []
    for c in cells:
        if c[0] == tag:
            parts.append(cur); cur = []
        else:
            cur.append(c)
    parts.append(cur)
    return parts


def _val(c):
    t, a, b = c
    if t == 0: return Fraction(a)
    if t == 1: return Fraction(a) * (Fraction(2) ** b)
    return None


def _canon(c):
    """value for numbers (int 3 == float 3.0, -0.0 == 0.0), tag otherwise; NaN == null == None"""
    t, a, b = c
    if t in (0, 1): return ("num", _val(c))
    if t == 5: return ("panic", a)
    return ("tag", t)


def _f32(c):
    """the cell of the binary32 rounding of a binary64 cell (Rust `as f32`: round to nearest even, overflow -> inf)"""
    if c[0] not in (0, 1): return _canon(c)
    x = float(_val(c))
    try:
        y = struct.unpack("f", struct.pack("f", x))[0]
    except OverflowError:
        return ("tag", 3 if x > 0 else 4)
    if y == float("inf"): return ("tag", 3)
    if y == float("-inf"): return ("tag", 4)
    return ("num", Fraction(y))


def _i32(c):
    """Cast<Option<i32>> for f64: null -> None, otherwise `as i32` (truncation toward zero, saturating)"""
    t = c[0]
    if t in (0, 1):
        v = _val(c)
        z = int(v)            # Fraction -> int truncates toward zero
        return ("num", Fraction(max(I32_MIN, min(I32_MAX, z))))
    if t == 3: return ("num", Fraction(I32_MAX))
    if t == 4: return ("num", Fraction(I32_MIN))
    return _canon(c)


def _close(a, b, rtol, scale):
    if a[0] in (0, 1) and b[0] in (0, 1):
        if a[0] == 0 and b[0] == 0:
            return a[1] == b[1]
        x, y = _val(a), _val(b)
        if x == y: return True
        fx, fy = float(x), float(y)
        return abs(fx - fy) <= rtol * max(1.0, abs(fx), abs(fy), scale)
    return _canon(a) == _canon(b)


def compare(cmp, impl, model):
    # custom:rel:<exact | rtol[,scale]>[:L][:roll][:corr2]
    f = cmp.split(":")
    if len(f) < 3 or f[1] != "rel":
        return "unknown comparator " + cmp
    flags = f[3:]
    if f[2] == "exact":
        rtol, scale, exact = 0.0, 0.0, True
    else:
        p = f[2].split(",")
        rtol, scale, exact = float(p[0]), (float(p[1]) if len(p) > 1 else 0.0), False
    # ---- the runs of the implementation -------------------------------------------------------
    runs = _split(impl, 9)
    if any(len(r) == 0 or r[0][0] != 0 for r in runs):
        return "malformed implementation cells (run without kind)"
    ref = runs[0][1:]
    if runs[0][0][1] != 0:
        return "malformed implementation cells (reference run is not of kind 0)"
    # (1) relational: every run equals the reference after canonicalisation of the encoding
    for k, r in enumerate(runs[1:], start=1):
        kind, cells = r[0][1], r[1:]
        if len(cells) != len(ref):
            return "run %d (kind %d): %d cells, reference run has %d" % (k, kind, len(cells), len(ref))
        conv = _canon if kind == 0 else (_f32 if kind == 1 else _i32)
        for j, (a, b) in enumerate(zip(cells, ref)):
            if _canon(a) != conv(b):
                return ("encodings disagree: run %d (kind %d: %s) cell %d = %s, reference (Vec<f64>, f64 output) = %s"
                        % (k, kind, ["same value", "f32 output", "Option<i32> output"][kind], j, a, b))
    # ---- the model: M_f [11] M_o --------------------------------------------------------------------
    mparts = _split(model, 11)
    if len(mparts) != 2:
        return "malformed model cells"
    mf, mo = mparts
    if [_canon(c) for c in mf] != [_canon(c) for c in mo]:
        k = next((i for i, (x, y) in enumerate(zip(mf, mo)) if _canon(x) != _canon(y)), min(len(mf), len(mo)))
        return "model at the float dictionary and at the Option dictionary disagree at cell %d" % k
    skip = []
    if "roll" in flags:
        ps = _split(mf, 9)          # two-series / trend interpreters: values [9] singular-window flags (DESIGN 5.6)
        mf = ps[0]
        skip = [c[1] for c in ps[1]] if len(ps) > 1 else []
    if "corr2" in flags:            # cells are (cov, corr) per mp in the model, (corr, corr) in these runs
        mf = [mf[j | 1] if j | 1 < len(mf) else mf[j] for j in range(len(mf))]
    # (2) the tie: reference run vs model
    ip = [c for c in ref if c[0] == 5]; mp = [c for c in mf if c[0] == 5]
    if ip or mp:
        if ip and mp and ip[0][1] == mp[0][1]: return None
        return "panic mismatch: impl %s, model %s" % (ref[:1], mf[:1])
    if len(ref) != len(mf):
        return "length: reference run %d cells, model %d cells" % (len(ref), len(mf))
    for j, (a, b) in enumerate(zip(ref, mf)):
        if j < len(skip) and skip[j] == 1: continue
        if exact:
            if _canon(a) != _canon(b):
                return "cell %d: impl %s, model %s" % (j, a, b)
        elif not _close(a, b, rtol, scale):
            return "cell %d: impl %s, model %s (rtol %g)" % (j, a, b, rtol)
    return None


CFG = dict(
    bins=["c08"],
    imports=["Run.RunC01", "Run.RunC03", "Run.RunC04", "Run.RunC08"],
    rule="Every case runs one function group on one logical series through several RUNS of the public API; all runs must "
         "agree with the reference run (Vec<f64> with NaN, f64 output) after canonicalisation of the encoding (null = NaN = "
         "None; f32 output = the reference rounded to binary32; Option<i32> output = the reference cast as the library casts: "
         "null -> None, truncated, saturating) — compared exactly, bit for bit — and the reference run must agree with the "
         "model (exact for counts / extrema / indices / ranks / fills, 1e-9 moments and quantiles, 1e-7 skew / kurt / cov / "
         "corr / rolling arithmetic with the operand scale of DESIGN 5.1; nullness exact; windows singular in exact arithmetic "
         "skipped for the model tie only, DESIGN 5.6); the model is evaluated at the float AND at the Option dictionary and the "
         "two must coincide. part=enc: runs = Vec<f64>, Vec<Option<f64>>, option view .opt() of both, titer(), f32 / "
         "Option<f32>, VecDeque<Option<f64>>, Option<i32> (integral series). Aggregations and order statistics (count_valid, "
         "count_none, vsum, vmin, vmax, vargmin, vargmax, vfirst, vlast, vcount_value; vmean, vmean_var, vvar, vstd, vskew, "
         "vkurt for EVERY min_periods 0..=len+1; vquantile 8 q x 4 methods, vmedian, vpercentile_of 4 scores x 3 methods): "
         "exhaustive over {-1, 0.5, 2, null} up to length 4 (thorough 5) and {-2, 0, 3, null} up to length 3 (4), + 60 (400) "
         "structured random series (5 shapes x 9 null patterns, length 1..40). Two series (vcov, vcorr_pearson incl. mixed f64 x "
         "Option<f64> and output f64 / Option<f64> / f32 / Option<i32>): all pairs up to length 2, a length-3 grid, random "
         "(independent, affine, constant partner, unequal lengths). Maps (ffill, bfill, fill with null / non-null fill, vclip with "
         "null / crossed bounds, vshift, vpct_change, vdiff for lags 0, +-1, +-len, len+1, random; vabs; vrank pct x rev, f64 and "
         "Option<f64> output): all series up to length 3 + random. Rolling: all 28 null-aware entry points (moments, ewm, wma, "
         "extrema, arg-extrema, rank, z-score, min-max, trend regressions, cov, corr, regx family, vfdiff) x windows {1, 2, 3, mid, "
         "len, len+1} x min_periods {omitted, 0, mid} on 14 (90) structured series of length 0..16 and EVERY series over {1, 3, "
         "null} up to length 3 ({-1, 1, 3, null} up to 4); runs: f64 -> f64, Option<f64> -> Option<f64>, .opt() -> f64, f64 -> f32, "
         "Option<f64> -> Option<i32>, f64 -> Option<f64>, Option<f64> -> f64, f64 -> Option<i32>, Option<f64> -> f32, mixed pairs, "
         "VecDeque<Option<f64>> (iterator body). part=ins: a base series and the same series with nulls inserted — EVERY pattern "
         "up to total length 5 (6) for every base over {-1, 0.5, 2} up to length 3 (4); front / back / between all / random p in "
         "{.1, .5, .9} for 50 (300) random bases (with and without nulls of their own) — each variant through all sources; "
         "aggregations and order statistics must be IDENTICAL (bit for bit) to those of the base. Two series: pairs (null, null), "
         "(null, v), (v, null) with arbitrary partner v inserted at every pattern (exhaustive for valid pairs up to length 3, "
         "random otherwise): vcov / vcorr_pearson identical for every min_periods. Audit groups: aggb (vany vall on the flag series x > 0, "
         "NaN = null flag: Vec<Option<bool>>, its option view, titer, VecDeque, Vec<bool> when null-free; exhaustive up to length 4 (5), "
         "random, every insertion pattern up to total length 5) and aggk (the masked count / sum / mean n_vsum_filter n_sum_filter "
         "vmean_filter for every min_periods; data f64 / Option<f64> / option view x mask Option<bool> / option view / VecDeque / bool; "
         "part=ins inserts observations that do not count: null value with any flag, value with a null or false flag). "
         "nt=0 marks empty series / no variant.",
    theorem_hint="Props/C08.v: C08_encoding_* (rolling families, aggregations, order statistics, maps, vrank, partitions), "
                 "C08_output_encoding, C08_transparent_* (null insertion; quantile at every carrier; rank); audit: C08_fold_mechanism_*, "
                 "C08_encoding_bool_aggregations, C08_encoding_masked, C08_transparent_masked, C08_insertion_changes_exactly, "
                 "C08_noncanonical_null_excluded, C08_*_binary64",
    level_text="Proof (Coq): (a) for any two null dictionaries and inputs with pointwise equal option views every null-aware "
               "model function returns the same result: the add-emit-remove rolling families (moments, ewm, wma, z-score, "
               "trend regressions, cov / corr / regx) by a generic relational theorem on the driver (every window, both bodies), "
               "the window-index families (extrema, arg-extrema, rank, min-max, regx residuals) through a relational lemma on "
               "the index driver, the slice family (vfdiff) likewise, the "
               "aggregations and order statistics because each is a function of the unwrapped valid elements, the maps up to the "
               "encoding of the output elements; stated for every carrier, so they hold bit for bit at binary64; (b) the cast of a "
               "result into f64 / f32 / Option<f64> / Option<i32> maps null to null and non-null to non-null; (c) inserting nulls "
               "at arbitrary positions (inductive relation NullInsert; also as a boolean pattern) leaves the valid elements, hence "
               "count_valid, vsum, vmean, vvar, vstd, vskew, vkurt, vmin, vmax, vquantile, vmedian, vpercentile_of unchanged, and "
               "pairwise insertion leaves vcov / vcorr_pearson unchanged, for all series, patterns and min_periods. "
               "Extension (Proofs/EncRank.v, TransQuantile.v, TransRank.v): the rank map vrank returns EQUAL outputs under any "
               "two dictionaries whose `==` agree on non-null elements (relational induction through the run-length loop; the "
               "argsorts are equal index vectors; the statement without the hypothesis on `==` is proved FALSE), for every carrier "
               "and pct / rev; varg_partition returns equal index lists and vpartition outputs with equal option views (same "
               "panic otherwise) under re-encoding; quantile / median transparency is lifted from option R to EVERY carrier "
               "without any order law (isort_split: the sort model puts the sorted non-null elements, the same term for both "
               "series, before the nulls): every successful result on the original series is the result on the series with "
               "nulls inserted, and outright equality under the index law ceil((n-1) q) <= n-1 (proved at option R); inserting "
               "nulls into a series leaves the rank of every original element unchanged and gives the inserted positions the "
               "null rank (option R, from the C12 characterisation: vrank is a map of a function of the valid elements); the "
               "option view of vpartition is a function of the non-null elements only, hence unchanged by null insertion "
               "(every carrier, T::none() a null). "
               "Extension X28 (Proofs/RankTransparent.v, axiom-free): rank transparency is now proved at a GENERIC carrier - "
               "every Num A, every null dictionary with an arbitrary `==`, no order law on two non-null values - under the single "
               "law 1 as f64 / 1 as f64 = 1.0 (which reconciles the literal 1.0 of the length-1 early return with the loop), "
               "proved to hold at Z, option R and binary64 (by computation: no float axiom) and proved necessary (a carrier "
               "where it fails and transparency fails): the argsort of a series is the re-indexed argsort of its valid elements "
               "followed by the null positions; the run-length loops on the series and on its valid elements take the same "
               "branches along the position embedding; vrank ys = the ranks of the valid elements scattered back to the valid "
               "slots, NaN at the null slots; hence vrank (insert_pat nl p xs) = insert_pat (Some NaN) p (vrank xs) for every "
               "pattern (the recorded full statement), for the inductive NullInsert, composed with re-encoding, and outright at "
               "binary64 for every dictionary over f64. "
               "Audit (Proofs/Audit08.v, Audit08Float.v; 14 theorems, 63 in total; function x {encoding, transparency} x carrier table in "
               "notes/C08.md): the MECHANISM itself - vfold / vfold_n / vapply_n with an arbitrary callback are functions of the "
               "unwrapped valid elements, hence invariant under re-encoding and null insertion; the boolean aggregations vany / vall "
               "and the masked family n_vsum_filter / n_sum_filter / vmean_filter (data and mask re-encoded independently; transparent "
               "to observations with a null or false flag or a null value), which no theorem named; what insertion DOES change, exactly "
               "(length, count_none and the count of the null value grow by the number inserted; count_valid + count_none = len); "
               "re-encoding and insertion composed for the whole family; the canonical-null assumption is proved necessary (Some(NaN) is "
               "counted as a valid element); outright binary64 instances (Vec<f64> vs its Option<f64> rendering, NaN insertion). "
               "Still partial: varg_partition / arg-extrema under null insertion are positional (not claimed). Tied to the "
               "code by relational runs of the public API under every encoding and every insertion pattern, plus the model tie.",
    level_note="Trusted: Coq kernel (the C08 theorems are axiom-free except the quantile / rank corollaries stated over option R); the "
               "hand-written models of C01/C03/C04/C11/C12/C13/C15 reused here; canonical nulls only (DESIGN 5.4); the comparator's "
               "binary32 rounding (Python struct) and i32 truncation used to canonicalise f32 / Option<i32> outputs.",
    exhaustive=False,
    trusted=["Reals axioms of the Coq standard library under the quantile / median / rank corollaries stated over option R",
             "tools/propcfg/C08.py canonicalises f32 output by rounding the f64 reference to binary32 (struct.pack 'f') and "
             "Option<i32> output by truncation toward zero with saturation (Rust `as i32`)"],
    assumptions=["inputs use canonical nulls only (DESIGN 5.4): no Some(NaN) in Option<f64> series",
                 "finite inputs of bounded magnitude (DESIGN 5.2)"],
)
