"""C09 — trusted-length iterators yield exactly as many items as they announce."""
CFG = dict(
    bins=["c09"],
    imports=["Base.Prelude", "Model.Iter", "Run.RunC09"],
    exhaustive=True,
    rule="exhaustive critical bands: every len 0..=5 (thorough 0..=7) x lag n in -len-3..=len+3 and i32::MIN, "
         "i32::MIN+1, i32::MAX x {shift, vshift (None / Some fill; f64, i32, Option<f64> elements; Vec, VecDeque, "
         "ndarray sources), vdiff, vpct_change} x inputs already consumed by (0,0),(1,0),(0,1),(2,1) next()/next_back() "
         "calls; ffill / bfill / fill / vclip (4 bound patterns) / vabs over EVERY null pattern of len 0..=4 (thorough 6); "
         "vcut with bins 0..=3 x labels 0..=4 x right x add_bounds; vpartition / varg_partition with kth 0..=len+2 x sort x "
         "rev x 5 null patterns; winsorize (3 methods); rolling_custom_iter with window 0..=len+2 on Vec, VecDeque, "
         "ndarray; Vec1Create::range / linspace (f64 on a dyadic grid, i32, i64, usize; Vec, VecDeque, ndarray, "
         "Option outputs); titer of every backend (Vec, slice, VecDeque at 3 ring offsets, ndarray owned / step 2 / "
         "reversed, option view, to_opt_iter, iter_cast) under ALL next/next_back scripts of length len+1 (len <= 3) "
         "and random scripts beyond; to_trust(k) for k 0..=len+2; the std adaptors the library declares TrustedLen "
         "(chain, rev, zip, take, skip, enumerate, map, repeat_n, range double-ended against the model; step_by, "
         "windows, chunks_exact, once, empty, range_inclusive, repeat.take, into_iter, copied, &mut dyn by the "
         "contract itself); the trusted collectors (collect_trusted_to_vec, collect_trusted_vec1 into VecDeque / "
         "ndarray, collect_vec1_with_len, write_trust_iter) after the contract was checked by plain iteration; plus "
         "1800 (thorough 30000) seeded random pipelines of depth 1..=6 over 13 stage kinds and 6 sources built by a "
         "harness-side AST interpreter returning Box<dyn TrustedLen> and mirrored by Model.Iter.build. At every point "
         "of every consumption script the harness records size_hint(), the number of items a fresh copy still yields "
         "by plain safe iteration, and the item; compared exactly with the model. non-trivial = non-empty input",
    theorem_hint="Props/C09.v: C09_hint_exact_front, C09_hint_exact_both_ends, C09_hint_exact_pipeline, C09_len_preserved_*, C09_collect_safe",
    level_text="Proof: theorems (Props/C09.v, axiom-free) about an executable Gallina model of iterator states "
               "(std's Chain/Zip/Take/Skip/Map/Rev/Enumerate/RepeatN/Range, TrustIter with the repaired shrinking "
               "length, Linspace) and of the library's adaptors as constructors of such states with their guards: "
               "for every well-formed state and every sequence of next()/next_back() calls the upper bound of "
               "size_hint equals the number of items plain iteration still yields; every adaptor, for all parameters, "
               "maps well-formed states to well-formed states (so the law holds for every pipeline of the grammar); "
               "shift-like adaptors preserve the length; the raw collector writes exactly slots 0..hint-1 once. The "
               "model is tied to the code by the differential run described in `rule`.",
    level_note="Trusted: Coq kernel; the hand-written model of std's iterator adaptors and of the adaptors' bodies; the "
               "harness and comparator. That an over-long iterator really writes outside the allocation is a fact "
               "about the allocator that the model flags (COverflow) but does not exhibit. Polars backend and the "
               "private Linspace struct (reachable only through Vec1Create) are not exercised directly.",
    trusted=["the model of std iterator adaptors (chain, zip, take, skip, enumerate, map, rev, repeat_n, range) in Model/Iter.v",
             "Box<dyn TrustedLen> / &mut dyn TrustedLen forward size_hint, next and nth to the boxed iterator"],
    assumptions=["usize arithmetic inside std's size_hint formulas does not overflow (lengths are idealised as nat)",
                 "Vec1Create::range::<usize> with step = 0 and end < start (panics on the subtraction before the division "
                 "by zero) is outside the generator"],
)
