"""C09 — trusted-length iterators yield exactly as many items as they announce."""
CFG = dict(
    bins=["c09"],
    imports=["Base.Prelude", "Model.Iter", "Run.RunC09"],
    exhaustive=True,
    rule="exhaustive critical bands: every len 0..=5 (thorough 0..=7) x lag n in -len-3..=len+3 and i32::MIN, "
         "i32::MIN+1, i32::MAX x {shift, vshift (None / Some fill; f64, i32, Option<f64> elements; Vec, VecDeque, "
         "ndarray sources), vdiff, vpct_change} x inputs already consumed by (0,0),(1,0),(0,1),(2,1) next()/next_back() "
         "calls; ffill / bfill / fill / vclip (4 bound patterns) / vabs over EVERY null pattern of len 0..=4 (thorough 6); "
         "vcut with bins 0..=3 x labels 0..=4 x right x add_bounds; vpartition / varg_partition with kth 0..=len+2 x sort x "
         "rev x 5 null patterns; winsorize (3 methods); rolling_custom_iter with window 0..=len+2 on Vec, VecDeque, "
         "ndarray; Vec1Create::range / linspace (f64 on a dyadic grid, i32, i64, usize; Vec, VecDeque, ndarray, "
         "Option outputs); titer of every backend (Vec, slice, VecDeque at 3 ring offsets, ndarray owned / step 2 / "
         "reversed, option view, to_opt_iter, iter_cast) under ALL next/next_back scripts of length len+1 (len <= 3) "
         "and random scripts beyond; to_trust(k) for k 0..=len+2; the std adaptors the library declares TrustedLen "
         "(chain, rev, zip, take, skip, enumerate, map, repeat_n, range double-ended against the model; step_by, "
         "windows, chunks_exact, once, empty, range_inclusive, repeat.take, into_iter, copied, &mut dyn by the "
         "contract itself); the trusted collectors (collect_trusted_to_vec, collect_trusted_vec1 into VecDeque / "
         "ndarray, collect_vec1_with_len, write_trust_iter) after the contract was checked by plain iteration; plus "
         "1800 (thorough 30000) seeded random pipelines of depth 1..=6 over 13 stage kinds and 6 sources built by a "
         "harness-side AST interpreter returning Box<dyn TrustedLen> and mirrored by Model.Iter.build; plus instruction "
         "scripts over {next, next_back, nth k, nth_back k} (Model.Iter.instr / run_script) on shift / vshift / vdiff / "
         "vpct_change (every lag of the band x pre-consumption), the partitions, the rolling iterator, titer of the "
         "backends, to_trust(k), the std adaptors (whose overriding nth / nth_back are compared with the model's default "
         "bodies), every second random pipeline, each followed by count() and last() of the state after the script, and "
         "StepBy (std's client of nth) around vshift / vdiff / to_trust compared with Model.Iter.stepby, step 0 included. "
         "At every point "
         "of every consumption script the harness records size_hint(), the number of items a fresh copy still yields "
         "by plain safe iteration, and the item; compared exactly with the model. non-trivial = non-empty input",
    theorem_hint="Props/C09.v: C09_hint_exact_front, C09_hint_exact_both_ends, C09_hint_exact_pipeline, C09_hint_exact_scripts, "
                 "C09_nth_is_iterated_next, C09_nth_closed_form, C09_count_is_hint, C09_step_by_hint_exact, C09_len_preserved_*, C09_collect_safe",
    level_text="Proof: theorems (Props/C09.v, axiom-free) about an executable Gallina model of iterator states "
               "(std's Chain/Zip/Take/Skip/Map/Rev/Enumerate/RepeatN/Range, TrustIter with the repaired shrinking "
               "length, Linspace) and of the library's adaptors as constructors of such states with their guards: "
               "for every well-formed state and every sequence of next()/next_back() calls the upper bound of "
               "size_hint equals the number of items plain iteration still yields; every adaptor, for all parameters, "
               "maps well-formed states to well-formed states (so the law holds for every pipeline of the grammar); "
               "shift-like adaptors preserve the length; the raw collector writes exactly slots 0..hint-1 once. "
               "Consuming methods other than next / next_back are in the model as std defines the defaults TrustIter inherits "
               "(nth, nth_back, advance_by, fold / rfold, last, count; Skip and StepBy built on nth): after EVERY script over "
               "{next, next_back, nth k, nth_back k} the hint equals the number of items still yielded and the collector is "
               "safe (C09_hint_exact_scripts*, C09_collect_safe_scripts); nth k is k+1 x next on every model state, item and "
               "new state (C09_nth_is_iterated_next, C09_nth_is_advance_then_next), with the closed form nth_error / skipn "
               "(firstn for nth_back) on well-formed states; count() is the announced bound, last() the last yielded item, "
               "fold visits exactly the yielded items; StepBy's hint is exact at every point and it yields every step-th item. "
               "Nothing is partial; what stays trusted is that std's OVERRIDING nth / nth_back (Chain, Take, Skip, Rev, "
               "Enumerate, Range, slice iterators) are observationally the defaults - compared on every run. The "
               "model is tied to the code by the differential run described in `rule`.",
    level_note="Trusted: Coq kernel; the hand-written model of std's iterator adaptors and of the adaptors' bodies; the "
               "harness and comparator. That an over-long iterator really writes outside the allocation is a fact "
               "about the allocator that the model flags (COverflow) but does not exhibit. Polars backend and the "
               "private Linspace struct (reachable only through Vec1Create) are not exercised directly.",
    trusted=["the model of std iterator adaptors (chain, zip, take, skip, enumerate, map, rev, repeat_n, range) in Model/Iter.v",
             "Box<dyn TrustedLen> / &mut dyn TrustedLen forward size_hint, next and nth to the boxed iterator",
             "std's overriding nth / nth_back / advance_by of Chain, Take, Skip, Rev, Enumerate, Range, RepeatN and the container "
             "iterators are observationally the trait defaults the model uses (k+1 calls of next with early exit)"],
    assumptions=["usize arithmetic inside std's size_hint formulas does not overflow (lengths are idealised as nat)",
                 "Vec1Create::range::<usize> with step = 0 and end < start (panics on the subtraction before the division "
                 "by zero) is outside the generator"],
)
