"""C19 — generators and collectors build exactly the requested sequence."""
CFG = dict(
    bins=["c19"],
    imports=["Run.RunC19"],
    exhaustive=True,
    rule="placeholder",
    theorem_hint="Props/C19.v",
    level_text="placeholder",
    level_note="placeholder",
    trusted=[],
)
