"""C19 — generators and collectors build exactly the requested sequence."""
from fractions import Fraction

CFG = dict(
    bins=["c19"],
    imports=["Run.RunC19"],
    exhaustive=True,
    rule="exhaustive small scopes through the public API, every output container available without polars "
         "(Vec, VecDeque, Array1) plus a minimal backend that keeps every trait default of own.rs: "
         "Vec1Create::range over start in {None,-6..6} x end in -6..6 x step in {None,-6..6} (step 0 recorded as "
         "outside the property) for i32/i64, 0..6 for u64/usize, Option<i32>; float range over every "
         "start/end in -2..2 by 1/4 x 18 dyadic steps of both signs, 1500 random quarter-step triples over "
         "-6..6, every start/end in -1..1 by 1/10 x steps +-{0.1,0.2,0.3,0.7,1.1} (non-representable steps), "
         "f32 on the dyadic families, Option<f64>; linspace over the same integer grid x n in 0..8 and a "
         "quarter-step float grid x n in 0..8 plus 600 random tenth-step requests with n up to 12; "
         "full n in 0..8 x 6 values (incl. NaN); every collector entry point (collect_vec1, "
         "collect_trusted_vec1, collect_vec1_with_len, Vec1::collect_from_iter/_from_trusted/_with_len, "
         "collect_trusted_to_vec) on item sequences of length 0..6 from 9 kinds of source iterator, items i64, f64 "
         "(NaN passes through) and String (heap-owning: a misplaced raw write or double drop would crash); "
         "collect_vec1_opt on every null mask of length 0..5 (f64 and Option<i32>); try_collect_vec1 / "
         "try_collect_trusted_vec1 / try_collect_from_trusted / try_collect_trusted_to_vec on EVERY error "
         "pattern of length 0..6 (distinct error numbers, a pull counter on the source); write_trust_iter "
         "and WriteTrustIter::write on buffer length 0..5 x announced length 0..6 x actual length 0..6 "
         "into a recording buffer (every uset call logged) and into the Vec / VecDeque / Array1 "
         "MaybeUninit buffers pre-filled with a sentinel; UninitVec::set (the checked single-slot write) on buffer length 0..5 x index 0..len+2 "
         "into a recording buffer and into Vec<MaybeUninit> with a sentinel guard slot of spare capacity behind the end; Vec1Mut::get_mut (len 0..5 x index 0..len+1) and apply_mut_with "
         "(len 0..5 x other 0..5, recording callback) on Vec / wrapped VecDeque / Array1 / ArrayViewMut1; "
         "Vec1::sort_unstable_by on EVERY sequence over a 3-letter alphabet up to length 5, both orders, on Vec, "
         "Array1, contiguous and wrapped VecDeque (copy-out / write-back path); sources with a MISREPORTED size hint (upper bound below / above "
         "the actual length, lower bound above it) of length 0..4 through collect_vec1, collect_from_iter, collect_vec1_opt and "
         "try_collect_vec1 (an error at every position) on every container, and lying TrustIters through the trusted collectors "
         "of the default backend — the model is given the wrong hint.  thorough widens every bound.  Compared exactly "
         "with the model (binary64 model evaluated with PrimFloat; non-representable steps through a "
         "comparator that tolerates 1e-9 and, only when (b-a)/step is within 1e-9 of an integer, one "
         "element more or less — DESIGN 5.1); tags nt=0 mark trivial cases (empty result / empty buffer)",
    theorem_hint="Props/C19.v: C19_range_int, C19_range_unsigned, C19_range_exact_rational, C19_linspace_*, "
                 "C19_collect_*, C19_try_collect_*, C19_write_trust_iter*, C19_apply_mut_with, C19_sort_unstable_by, "
                 "C19_*_any_announcement, C19_*_any_number_type, C19_linspace_binary64, C19_range_binary64_shape",
    level_text="Proof: 45 theorems (Props/C19.v, all axiom-free) about one polymorphic Gallina model of "
               "linspace.rs/create.rs (as repaired) and of the collectors of own.rs/trusted.rs/uninit.rs: "
               "range = exactly the terms of the arithmetic progression strictly before the end (count and "
               "elements tied by an iff) over Z signed, Z unsigned and exact rationals; empty span = []; linspace "
               "shape (n terms, first, constant step, last = end exactly over Q); the Linspace iterator refines a "
               "double-ended queue with an exact size hint; full = repeat; trusted / explicit-length collection "
               "= identity with every slot written once; a completed collection never alters the items; "
               "optional -> null-encoded; try-collectors = first error else all; write_trust_iter = all slots "
               "once (equal length / singleton broadcast), Ok on an empty buffer, else Err with no slot written; apply_mut_with / get_mut positional laws; sort_unstable_by leaves a "
               "sorted permutation. "
               "AUDIT EXTENSION (16 further theorems, Proofs/Audit19.v; matrix in notes/C19.md): plain collection ignores the "
               "size hint (item-dropping and under-reporting sources); empty = []; optional collection in closed form; trusted "
               "/ explicit-length / fallible-trusted collection against ANY announcement (default body: identity; raw body: "
               "identity iff exact, exposed tail when too long, write past the allocation when too short; first error for every "
               "announcement not shorter than the Ok prefix); the source is pulled up to and including the first error; "
               "write_trust_iter against any announcement and any previous buffer content (Ok prefix of surplus items, unwrap "
               "panic after a written prefix when items are missing, broadcast, Err only with an untouched buffer); linspace / "
               "range for EVERY Number dictionary: exactly n (count) elements start + step * k, the empty-span rule, the panic "
               "cases; at the binary64 dictionary the run executes: linspace never panics and has exactly n elements, range "
               "is a capacity-overflow panic or count elements. Still open at binary64: that the count equals the number of "
               "progression terms before end, and end-point accuracy of linspace (proved over Q; compared by the run). "
               "UninitVec::set, the checked single-slot write (5 further theorems, Proofs/LooseEnds.v, model Collect.uninit_set which the "
               "interpreters run_uninit_set / run_uninit_set_buf execute): for every buffer, index and value, Ok with one uset call at "
               "idx, that slot replaced and every other slot and the length unchanged iff idx < len, otherwise Err with no uset call "
               "and the buffer unchanged, never a panic, never a call naming a slot outside 0..len (C19_uninit_set_total — the statement "
               "pins the guard: with `<=` the model would make a call at idx = len, which the last clause excludes); any sequence of "
               "sets in closed form, each call judged on its own index; len sets at 0..len-1 over any previous content make the buffer "
               "exposable and equal to the written values, likewise in any order on a fresh buffer; an unnamed slot keeps assume_init undefined. "
               "The model is tied to the code by an exhaustive small-scope differential run through the public API. "
               "Second, static tie (translator): the exhaustion test / increment / element formula start + step * i of Linspace::next and next_back, size_hint, the n > 1 / (b - a) / (n - 1) step of linspace, the emptiness guard of range (operator per sign of step), its count expression (span / step, ceil, remainder, the + 1 adjustment with its four operators) and the defaults of Vec1Create::range / linspace are re-extracted from linspace.rs / create.rs on every run and Proofs/SrcTablesMapGen.v re-proves, for every Number dictionary, argument and iterator state, that Model/Create.v uses exactly those (src_ls_next_conforms, src_ls_next_back_conforms, src_ls_size_hint_conforms, src_linspace_new_conforms, src_range_new_conforms, src_create_range_conforms, src_create_linspace_conforms).",
    src_tables=True,   # tools/gen_tables.py (+ gen_tables_map.py): decision tables regenerated from the Rust source on every run
    src_tables_proofs=["Proofs/SrcTablesMapGen.vo"],
    level_note="Trusted: Coq kernel; the hand-written model; std's FromIterator / Array1::from_iter (modelled as "
               "the identity) and std's short-circuiting collect into Result; IEEE rounding (the float theorems "
               "are stated over Q, the binary64 instance of the same model is only executed); the harness and "
               "comparator. Linspace::next_back / size_hint after partial consumption are proved on the model "
               "but not reachable through the public API (module `linspace` is private), hence not compared. "
               "Polars backend not exercised (separate crate).",
    trusted=["std Iterator::collect into Vec/VecDeque/Result and ndarray Array1::from_iter/from_vec (modelled as "
             "identity / first-error short circuit); slice::sort_unstable_by (modelled by an insertion sort: for a total order the sorted sequence of keys is unique)",
             "binary64 rounding: float statements are proved in exact rational arithmetic (Q) for the same "
             "polymorphic model that is executed at PrimFloat"],
    assumptions=["integer magnitudes small enough that i32/i64/u64/usize arithmetic does not overflow (DESIGN 5.2)",
                 "iterators handed to trusted collectors / write_trust_iter announce their true length "
                 "(TrustedLen contract, property C09); the model also covers lying announcements and the harness "
                 "runs those that are memory-safe"],
)


def _val(c):
    t, a, b = c
    if t == 0:
        return Fraction(a)
    if t == 1:
        return Fraction(a) * (Fraction(2) ** b)
    return None


def compare(cmp, ci, cm):
    """custom:frange:<band|strict> — float range with a non-representable step.
    strict: same number of elements, each within 1e-9 (relative to max(1,|x|)).
    band  : (b-a)/step is within 1e-9 of an integer: one element more or less is accepted (DESIGN 5.1)."""
    band = cmp.split(":")[2] == "band"
    if any(c[0] not in (0, 1) for c in list(ci) + list(cm)):
        return None if list(ci) == list(cm) else "non-numeric cells differ: impl %s model %s" % (ci[:4], cm[:4])
    if len(ci) != len(cm) and not (band and abs(len(ci) - len(cm)) == 1):
        return "length: impl %d elements, model %d" % (len(ci), len(cm))
    for k, (a, b) in enumerate(zip(ci, cm)):
        x, y = _val(a), _val(b)
        if x != y and abs(float(x) - float(y)) > 1e-9 * max(1.0, abs(float(x)), abs(float(y))):
            return "element %d: impl %r, model %r" % (k, float(x), float(y))
    return None
