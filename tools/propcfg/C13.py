"""C13 — element-wise mapping operations follow their positional definitions."""
CFG = dict(
    bins=["c13"],
    imports=["Run.RunC13"],
    exhaustive=True,
    rule="real public API (MapBasic::{abs,shift}, MapValidBasic::{vabs,vshift,ffill,ffill_mask,bfill,bfill_mask,fill,"
         "fill_mask,vclip}, MapValidVec::{vdiff,vpct_change}) at f64 (NaN null), Option<f64>, i32, Option<i32>, and f32 / i64 against the f64 / integer models (generated values are exact in binary32). "
         "Exhaustive: every null pattern over {distinct value, null} up to len 6 (f64; Option types len 5, i32 len 8; "
         "thorough 7/6) x every lag in -len-3..=len+3 and i32::MIN, i32::MAX x every fill kind (omitted, null, non-null) "
         "for shift/vshift/vdiff; alphabet {value, null, zero} up to len 4 x every lag for vpct_change; every pattern up "
         "to len 6 x fill kinds x 4 extra mask functions for ffill/bfill(_mask), fill(_mask), vabs, abs; vclip with all "
         "36 (lower, upper) pairs from {null, below all, = an element, inside, = another element, above all} (lo<hi, "
         "lo=hi, lo>hi, one-sided, none); composed pipelines vshift.shift.ffill.vabs to len 3. Sampled: longer series "
         "(to 14, thorough 40) with the nine shared null patterns, ties and zeros, random parameters; hostile floats "
         "(+-inf, -0.0, 1e308, subnormals). Backends: Vec for every case + Arc<Vec>, VecDeque at 3 ring offsets, "
         "ndarray owned / step-2 / reversed views (all of them for len <= 3, two rotating ones above), and the "
         ".opt() view for Option<f64>. Each case compares the announced length (size_hint) and every item with the "
         "Gallina model: exact, except float:1e-12 for vdiff/vpct_change on floats; panics compared by kind. "
         "non-trivial = every non-empty case (distinct configuration); nt=0 marks empty input.",
    theorem_hint="Props/C13.v: C13_shift_positional, C13_vdiff_positional, C13_vpct_change_positional, "
                 "C13_ffill_positional, C13_bfill_positional, C13_fill_touches_only_nulls, C13_vclip_positional, "
                 "C13_clip_idempotent, C13_clip_contained, C13_vabs_preserves_nullness",
    level_text="Proof: 63 theorems (Props/C13.v; axiom-free except the option R / binary64 carrier instances) about the Gallina model of all thirteen operations, for "
               "every series, every integer lag (|n| >= len and i32::MIN/MAX included), every fill value and every "
               "null dictionary: shift/vshift total, length-preserving, element i = x[i-n] or the fill; vdiff = "
               "x[i]-x[i-n] or the fill itself (exact over Z; null on a null operand); vpct_change = x[i]/x[i-n]-1 "
               "on non-null operands with a non-zero base, null elsewhere; ffill/bfill = nearest earlier/later "
               "non-null element (nearest proved as an iff) else the default; fill changes exactly the nulls; clip "
               "keeps nullness, is idempotent and contained for lower <= upper; abs/vabs keep nullness; all "
               "length-preserving. Audit (27 more theorems, Proofs/Audit13.v; notes/C13.md has the clause x theorem "
               "matrix): the i32 lag is n.unsigned_abs() = |n| for every i32 (two's-complement definitions; -n "
               "overflows at i32::MIN); lag 0 and |n| >= len as whole results; lengths with no hypothesis; the "
               "rejected inputs exactly (vshift / vdiff panic iff the fill is omitted on a type without a null, also "
               "on the empty series; ffill / bfill panic iff additionally the first / last element is masked, and "
               "otherwise return the positional result whatever the default is); where nulls remain after the "
               "fills; clip with null / reversed / unordered bounds (reversed: every element becomes a bound and a "
               "second application swaps them - refuted idempotence); carrier instances with the arithmetic "
               "premises discharged: option R (exact x[i]-x[i-n], x[i]/x[i-n]-1, max(lo,min(hi,x))) and Coq's "
               "binary64 (NaN propagation of -, |NaN|, irreflexive <, from the standard library's FloatAxioms). "
               "Still only by correspondence: the announced length (size_hint), the backends, i32 overflow. The "
               "model is tied to the code by an exhaustive small-scope + sampled differential "
               "run through the public API on every backend. "
               "Second, static tie (translator): the sign-convention tables of shift / vshift / vdiff / vpct_change (early guard, fill value, the arms of `match n` and the repeat_n / take / skip / chain / zip / map pipeline of each arm with its count expressions, the guards of the percentage closures) are re-extracted from the Rust source text on every run and Proofs/SrcTablesAgg.v re-proves, for every lag, fill value and series, that Model/MapOps.v evaluates exactly those pipelines (src_shift_conforms, src_vshift_conforms, src_vdiff_conforms, src_vpct_change_conforms).",
    src_tables=True,   # tools/gen_tables.py + Proofs/SrcTablesAgg.v: decision tables regenerated from the Rust source on every run
    src_tables_proofs=["Proofs/SrcTablesAgg.vo"],
    level_note="Trusted: Coq kernel; the hand-written list model of tea-map's iterator constructions and of std's "
               "repeat_n/chain/zip/take/skip/rev/map; the IsNone dictionary instances (f64, Option, integer); IEEE "
               "arithmetic enters only the Run/ instance (PrimFloat) compared with the code, the theorems are over "
               "abstract operations / Z. Three defects repaired by fix: commits (KNOWN_FINDINGS.d/C13.txt). Not "
               "exercised: u8/u64/usize/bool element types, Some(NaN) (DESIGN 5.4), integer overflow of x[i]-x[i-n] / abs(i32::MIN) "
               "(DESIGN 5.2), the polars backend.",
    trusted=["carrier instances only: Reals axioms of the Coq standard library (C13_*_real) and its specification of the "
             "primitive binary64 operations FloatAxioms.{eqb,ltb,sub,abs}_spec (C13_*_binary64)",
             "the list model of std iterator adaptors (repeat_n, chain, zip, take, skip, rev, map) and of "
             "TrustIter/to_trust as 'yields the items of the wrapped iterator' (its announced length is C09's subject; "
             "the harness compares size_hint with the model's length on every case)",
             "the three IsNone dictionary families (dict_float, dict_opt, dict_int) as models of tea-dtype/src/isnone.rs"],
    assumptions=["canonical nulls (DESIGN 5.4): no Some(NaN) in optional series",
                 "bounded integers (DESIGN 5.2): x[i]-x[i-n] and |x| do not overflow i32 (the model computes in Z)",
                 "vpct_change's theorem is stated for any f64-like operation record in which a cast value is null "
                 "exactly when its argument is and NAN is null; IEEE division/subtraction are not axiomatised"],
)
