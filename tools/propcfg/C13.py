"""C13 — element-wise mapping operations follow their positional definitions."""
CFG = dict(
    bins=["c13"],
    imports=["Run.RunC13"],
    exhaustive=True,
    rule="wip",
    theorem_hint="Props/C13.v",
    level_text="wip",
    level_note="wip",
    trusted=[],
)
