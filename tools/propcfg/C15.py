"""C15 — null and cast algebra is coherent across all element types."""
CFG = dict(
    bins=["c15"],
    imports=["Model.Cast", "Run.RunC15"],
    exhaustive=True,
    rule="placeholder",
    theorem_hint="Props/C15.v",
    level_text="placeholder",
    level_note="placeholder",
    trusted=[],
)
