"""C15 — null and cast algebra is coherent across all element types."""
CFG = dict(
    bins=["c15"],
    imports=["Model.Cast", "Run.RunC15", "Model.Time"],
    exhaustive=True,
    rule="exhaustive over a finite universe: 28 Rust types (f32 f64 i32 i64 u8 u64 usize isize bool String &str "
         "DateTime<Nanosecond> DateTime<Millisecond> TimeDelta Time and their Option forms) = 26 model type codes; "
         "fn=impl: every ordered pair of the universe is probed at compile time (autoref specialisation) for "
         "`impl Cast<T> for S` and compared with the model's `implemented` matrix; fn=cast: every implemented pair x "
         "the whole value list of the source type (0, +-1, +-0, halves, every integer boundary 2^7 2^8 2^24 2^31 2^32 "
         "2^53 2^63 2^64 +-1, f32::MAX / f64::MAX and the f32 rounding ties, subnormals, NaN, +-inf, NaT, None, "
         "'None'/'NaN'/numeric/invalid texts, TimeDeltas with months / negative / overflowing microseconds; canonical "
         "nulls only, DESIGN 5.4) through the real Cast::cast, compared exactly (f32 widened to f64) with the model; "
         "fn=nullpres: the property itself on the real code ([is_none source; is_none result] against the "
         "specification, class 1 marked); fn=isnone/none/from_inner/vabs: every IsNone method on every value of every "
         "type; fn=order: sort_cmp and sort_cmp_rev on all pairs of a 13-26 element sub-list per type; fn=axioms: "
         "reflexivity / antisymmetry / transitivity / nulls-last violations counted over all pairs and triples on the "
         "real comparators; fn=sorted: slice::sort_by with both comparators against a stable insertion sort of the "
         "model; thorough tier adds seeded random bit patterns; every case is a distinct non-trivial configuration",
    theorem_hint="Props/C15.v: C15_cast_null_preserved, C15_cast_nonnull_preserved, C15_cast_value_is_as, "
                 "C15_cast_composes_*, C15_sort_cmp_total_preorder, C15_predicates_coherent; audit: C15_cast_to_time_null_iff_sentinel, "
                 "C15_cast_null_to_nonnullable_panics, C15_cast_null_total_or_panics_by_design, C15_pair_coverage (Proofs/Audit15.v)",
    level_text="Proof: 36 theorems (Props/C15.v, axiom-free) about the Gallina model of isnone.rs / cast.rs / number.rs "
               "for ALL 26 type codes / 676 ordered pairs (case analysis) and ALL values (universally quantified), over "
               "an arbitrary float type satisfying ExtLaws. (1)-(9): the null predicates agree; none() is null; "
               "wrap/unwrap identity; vabs preserves nullness; cast maps null to null and non-null to non-null whenever "
               "the target can represent nulls (outside known-finding class 1 and the i64::MIN sentinel / overflow "
               "premises); value = Rust `as` on non-nulls; composition through Option on either side; sort_cmp and "
               "sort_cmp_rev are total preorders, order non-nulls by value, nulls last in both. Audit (A1)-(A12), "
               "Proofs/Audit15.v: the excluded inputs get their own theorems - a numeric value cast to a time type is null "
               "EXACTLY at the i64::MIN sentinel; TimeDelta -> i64 / Option<i64>: quotient toward zero in range, the "
               "target's null on overflowing microseconds, panic with months; a null cast to a target that cannot "
               "represent a null panics (None, 'None', NaT -> integer / bool; DateTime / Time -> i64 return the sentinel); "
               "the finite list of null casts into a nullable target that panic by design, all others total; values: "
               "vabs = |x| / identity on unsigned / panics only on a signed minimum; IsNone::map (a plain source applies "
               "f also to a null); bool <-> numeric; integer `as` exact iff representable, else congruent mod 2^bits and "
               "in range; the comparators never panic (no premise at all); the unit-changing casts DateTime<A> -> "
               "DateTime<B> keep NaT and never create it (all 16 unit pairs); IsNone for Vec<T>; the coverage table: "
               "676 = 191 not implemented + 154 non-nullable target + 5 class 1 + 2 parsers (compared only) + 324 under "
               "(5)/(6). The model is tied to the code by an exhaustive differential run over every implemented pair x "
               "value list.",
    level_note="Trusted: Coq kernel; the hand-written model of the macro-generated impls; ExtLaws (Rust's float `as`, "
               "abs, partial_cmp never produce / always propagate NaN as stated; float Display never prints 'None') — "
               "checked against the real operations by the correspondence run through the PrimFloat instance; the "
               "harness and comparator. String -> DateTime/TimeDelta (parsers, C18) are probed for existence only, DateTime "
               "unit changes are compared through Model/Time.into_unit (nullness: theorem (A10)); String -> u16/u32/i8/i16/"
               "char (outside the property's type list) are not modelled; Display of floats is compared for integers < 2^53 and multiples of 1/8.",
    trusted=["ExtLaws (Proofs/Cast.v): NaN-propagation of Rust's float `as` / abs, partial_cmp a total preorder on "
             "non-NaN floats, float Display never 'None' and 'None' not parseable — hypotheses of the theorems, "
             "exercised on every run through the executable PrimFloat instance (Run/RunC15.v)",
             "the executable model of Rust's numeric `as` (round-to-nearest-even int->float and f64->f32, saturating "
             "float->int), of core::num::dec2flt / integer FromStr and of integer / simple-float Display in Run/RunC15.v",
             "chrono::Duration::num_microseconds modelled as truncation toward zero of total nanoseconds / 1000"],
    assumptions=["64-bit target (usize/isize are 64 bits)",
                 "canonical nulls only (no Some(NaN) / Some(NaT)), DESIGN 5.4"],
)
