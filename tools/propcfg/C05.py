"""C05 — rolling outputs are input-length and null exactly during warm-up."""

def _split(cells):
    parts, cur = [], []
    for c in cells:
        if c[0] == 9:
            parts.append(cur); cur = []
        else:
            cur.append(c)
    parts.append(cur)
    return parts

def _isnull(c):
    return c[0] == 2

def compare(cmp, impl, model):
    """custom:mask — model cells: values [SEP flags]; implementation cells: values.  Length and the
    null / non-null pattern must agree; positions flagged singular in exact arithmetic (DESIGN 5.6) are skipped."""
    mparts = _split(model)
    mv = mparts[0]
    flags = [c[1] for c in mparts[1]] if len(mparts) > 1 else []
    ipanic = [c for c in impl if c[0] == 5]
    mpanic = [c for c in mv if c[0] == 5]
    if ipanic or mpanic:
        if bool(ipanic) != bool(mpanic):
            return "panic mismatch: impl %s, model %s" % (impl[:2], mv[:2])
        return None
    if any(c[0] == 7 for c in impl):
        return "uninitialised output slot exposed at %s" % [i for i, c in enumerate(impl) if c[0] == 7]
    if len(impl) != len(mv):
        return "output length: impl %d, model %d" % (len(impl), len(mv))
    for k, (a, b) in enumerate(zip(impl, mv)):
        if k < len(flags) and flags[k] == 1:
            continue
        if _isnull(a) != _isnull(b):
            return "position %d: impl %s, model %s" % (k, "null" if _isnull(a) else "non-null", "null" if _isnull(b) else "non-null")
    return None

CFG = dict(
    bins=["c05"],
    imports=["Run.RunC01", "Run.RunC03", "Run.RunC04"],
    rule="40 (thorough 260) structured series (lengths 0, 1, 2, 3 always, then 1..20; dyadic values; 9 null patterns; uniform / "
         "monotone / constant / walk) x windows {1, 2, 3, len, len+1, len+2, one random inside} x min_periods {omitted, 0, 1, "
         "random inside, w} x all 37 rolling entry points (null-aware and plain moments, extrema, arg-extrema, rank with random "
         "pct/rev, z-score, min-max norm, trend and two-series regressions, cov, corr, fdiff, vfdiff) x backends Vec (returned / "
         "caller buffer), rotated VecDeque (returned = iterator body / caller buffer), reversed ndarray view, Arc<VecDeque>, "
         "Option<f64> elements with Option<f64> output (rotating subsets so that every (function, backend) pair occurs); compared: "
         "no panic, output length, and the null / non-null pattern against the model run (positions whose window is singular in "
         "exact arithmetic are skipped, DESIGN 5.6); nt=0 marks empty input",
    theorem_hint="Props/C05.v",
    level_text="Proof: (i) every add-emit-remove rolling feature returns exactly one output per input through both driver bodies, "
               "for every window >= 1, and an empty result on empty input, never a panic or an unwritten slot (generic, any "
               "carrier); (ii) mask theorems output_i = null <-> (valid count of the window < effective min_periods, where the "
               "effective value is min(mp or w/2, w) raised to the intrinsic minimum 2/3/4) or the statistic is undefined, "
               "derived from the closed forms of C01 for sum, mean, ewm, wma, var, std, skew, kurt and from C04 for cov; the "
               "remaining families' nullness is part of their closed-form theorems in Props/C03.v and Props/C04.v. Tied to the "
               "code by a mask-only differential run of all 37 entry points on every backend incl. empty and len < w input.",
    level_note="Trusted: Coq kernel + Reals axioms for the mask theorems; models of features.rs / cmp.rs / norm.rs / binary.rs / "
               "reg.rs; omitted min_periods of the extrema/rank family follows DESIGN 5.3 (the model reproduces the clamp to the "
               "series length); integer outputs (NaN's integer cast) are not exercised here.",
    trusted=["Reals axioms of the Coq standard library under the mask theorems"],
)
