"""C05 — rolling outputs are input-length and null exactly during warm-up."""

def _split(cells):
    parts, cur = [], []
    for c in cells:
        if c[0] == 9:
            parts.append(cur); cur = []
        else:
            cur.append(c)
    parts.append(cur)
    return parts

def _isnull(c):
    return c[0] == 2

def compare(cmp, impl, model):
    """custom:mask — model cells: values [SEP flags]; implementation cells: values.  Length and the
    null / non-null pattern must agree; positions flagged singular in exact arithmetic (DESIGN 5.6) are skipped."""
    mparts = _split(model)
    mv = mparts[0]
    flags = [c[1] for c in mparts[1]] if len(mparts) > 1 else []
    ipanic = [c for c in impl if c[0] == 5]
    mpanic = [c for c in mv if c[0] == 5]
    if ipanic or mpanic:
        if bool(ipanic) != bool(mpanic):
            return "panic mismatch: impl %s, model %s" % (impl[:2], mv[:2])
        return None
    if any(c[0] == 7 for c in impl):
        return "uninitialised output slot exposed at %s" % [i for i, c in enumerate(impl) if c[0] == 7]
    if len(impl) != len(mv):
        return "output length: impl %d, model %d" % (len(impl), len(mv))
    for k, (a, b) in enumerate(zip(impl, mv)):
        if k < len(flags) and flags[k] == 1:
            continue
        if _isnull(a) != _isnull(b):
            return "position %d: impl %s, model %s" % (k, "null" if _isnull(a) else "non-null", "null" if _isnull(b) else "non-null")
    return None

CFG = dict(
    src_tables=True,   # tools/gen_tables.py + Proofs/SrcTablesRoll.v: tables regenerated from the Rust source on every run
    src_tables_proofs=["Proofs/SrcTablesRoll.vo"],   # the rolling-family part of the generated tables (min_periods shapes)
    bins=["c05"],
    imports=["Run.RunC01", "Run.RunC03", "Run.RunC04"],
    rule="40 (thorough 260) structured series (lengths 0, 1, 2, 3 always, then 1..20; dyadic values; 9 null patterns; uniform / "
         "monotone / constant / walk) x windows {1, 2, 3, len, len+1, len+2, one random inside} x min_periods {omitted, 0, 1, "
         "random inside, w} x all 37 registry entry points + ts_vregx_all (audit block: triples, equal / shorter / longer second series, min_periods above w, huge windows) (null-aware and plain moments, extrema, arg-extrema, rank with random "
         "pct/rev, z-score, min-max norm, trend and two-series regressions, cov, corr, fdiff, vfdiff) x backends Vec (returned / "
         "caller buffer), rotated VecDeque (returned = iterator body / caller buffer), reversed ndarray view, Arc<VecDeque>, "
         "Option<f64> elements with Option<f64> output (rotating subsets so that every (function, backend) pair occurs); compared: "
         "no panic, output length, and the null / non-null pattern against the model run (positions whose window is singular in "
         "exact arithmetic are skipped, DESIGN 5.6); nt=0 marks empty input",
    theorem_hint="Props/C05.v",
    level_text="Proof (Props/C05.v, 91 obligations; audit matrix in notes/C05.md): (i) every add-emit-remove rolling feature returns exactly one output per "
               "input through both driver bodies, for every window >= 1, and an empty result on empty input, never a panic or an "
               "unwritten slot (generic, any carrier); the index-form entry points (ts_vmin/vmax/vargmin/vargmax/vrank, "
               "ts_vminmaxnorm, ts_vregx_resid_*) return the empty result on the empty series for EVERY window, carrier and null "
               "dictionary, a fully written output of the input length for every series and window >= 1 (window > len included), "
               "and reject window 0 on a non-empty series by the driver's assert; (ii) the effective min_periods: "
               "min(mp or w/2, w) raised to the intrinsic minimum 2/3/4, and for the extrema/rank family mp or min(len,w)/2 "
               "(DESIGN 5.3) with the corollary 'explicit mp or len >= w -> mp or w/2'; (iii) the exact two-directional null mask "
               "output_i is null <-> (valid / pairwise-complete count of the window < effective min_periods) or the statistic is "
               "undefined, with the undefinedness condition written out per function, for ALL rolling families: sum, mean, var, "
               "std, skew, kurt; ewm (1-(1-2/w)^n = 0, proved equivalent to n = 0 inside a window), wma (n = 0); the five "
               "time-trend regressions (n < 2); z-score (current element null or population variance <= EPS), min-max norm "
               "(current null or max = min; elements within the type sentinels); cov (n < max(mp',2)), corr (either population "
               "variance <= EPS), regx_alpha/beta/all (detB = n Sbb - Sb^2 = 0, i.e. constant regressor), regx_resid_mean/std/skew "
               "(detB = 0; skew additionally n < 3) over the pairwise-complete observations; min/max/argmin/argmax (count < mp' or "
               "no valid element; for min/max a non-null output is moreover never NaN) and rank (current element null or count < "
               "mp'; rank arithmetic in option R) at EVERY ordered carrier: the integer carrier (axiom-free) and, as corollaries of "
               "the C03 closed forms for every carrier satisfying the order laws OrdLaws of Spec/ExtremaOrd.v (Proofs/MaskOrd.v, "
               "C05_*_ordered: any null dictionary, any series whose valid elements are not NaN, both bodies), at Coq's primitive "
               "binary64: f64 series with NaN as the null with no premise at all (C05_mask_ts_v{min,max,argmin,argmax}_binary64, "
               "C05_mask_ts_vrank_binary64_input, C05_extrema_one_output_per_input_binary64) and Option<f64> series under the "
               "DESIGN 5.4 premise 'no Some(NaN)' (C05_mask_cmp_family_option_binary64; C05_some_nan_is_outside_the_property: on "
               "Some(NaN) elements the model of ts_vargmin does not return, so the premise cannot be dropped) — resting only on the "
               "standard library's FloatAxioms.{eqb,ltb,leb}_spec; ts_vrank returns one output per input without panic for EVERY "
               "input AND output carrier with no law and no premise (C05_rank_one_output_per_input_any_carrier); ts_fdiff (null-free input: never null), ts_vfdiff (count < mp'); the plain families ts_sum..ts_kurt, ts_ewm, "
               "ts_wma on null-free input (same masks, count = window length). Derived from the closed forms of "
               "C01/C03/C04 (Proofs/Mask.v, Mask2.v, Mask3.v, Mask4.v). AUDIT (Proofs/Audit05.v, Props/C05.v (8), 23 theorems): window 0 for all 38 entry "
               "points (empty result iff the first series is empty, else the driver's assertion; fdiff / vfdiff through the iterator body: "
               "`window - 1` underflow even on the empty series); HUGE WINDOWS: for every w1, w2 > len and explicit min_periods the two calls "
               "are equal as outcomes, at every carrier, both bodies, for the 6 moments, wma, z-score, 5 trend regressions, cov / corr / regx "
               "alpha / beta / all, min-max norm, the 3 residual statistics (a run over states whose counter never exceeds the length cannot "
               "tell the two min_periods gates apart) and, for every w >= len and any min_periods, the extrema / rank family — this is the "
               "equivalence behind running the code at w = 2^40 .. usize::MAX and the model at w = len + 1; witnesses that an omitted "
               "min_periods and ewm do depend on w; two-series functions on series of UNEQUAL length: first failing check, masks on the "
               "common prefix for every accepted pair of lengths, and the refuted clause that the iterator body returns fewer outputs than "
               "the first series has elements when the second is shorter; null below min_periods at EVERY carrier with no order law for "
               "ts_vmin / ts_vmax (Option<f64> with Some(NaN) included), ts_vargmin / ts_vargmax (self-equal elements), ts_vminmaxnorm, "
               "ts_vfdiff; min_periods above the window = the window for the 17 remaining clamping entry points; outcome shape (complete "
               "result or the window assertion, never a closure panic) of every one-series entry point at every carrier. Not covered by a theorem (correspondence only): the null mask of "
               "ts_vrank when the rank ARITHMETIC is binary64 too (that 1.0-steps, 0.5*(n_repeat-1) and the division by n never "
               "produce NaN needs the arithmetic FloatAxioms, not used here; length / no panic IS proved there), series of unequal length in the two-series functions, a null order d in "
               "fdiff, min-max norm without the sentinel bound. Tied to the code by a mask-only differential run of all 38 entry "
               "points on every backend incl. empty and len < w input, and statically (translator, Proofs/SrcTablesRoll.v, re-checked on "
               "every run): the shape of the min_periods computation of all 38 `fn ts_*` (clamp-to-length first?, `.min(window)`?, "
               "`.max(k)`) is re-extracted from the Rust source text and proved equal to what each model function does, for every window, "
               "min_periods, series, carrier and null dictionary (src_min_periods_conform + one tie lemma per entry point).",
    level_note="Trusted: Coq kernel + Reals axioms for the mask theorems; models of features.rs / cmp.rs / norm.rs / binary.rs / "
               "reg.rs; omitted min_periods of the extrema/rank family follows DESIGN 5.3 (the model reproduces the clamp to the "
               "series length); integer outputs (NaN's integer cast) are not exercised here.",
    trusted=["Reals axioms of the Coq standard library under the mask theorems"],
)
