"""C17 — Date-time, duration and time-of-day arithmetic obeys its inverse laws."""
CFG = dict(
    src_tables=True,   # tools/gen_tables.py + Proofs/SrcTablesOk.v: tables regenerated from the Rust source on every run
    bins=["c17"],
    imports=["Run.RunC17"],
    exhaustive=False,
    rule="structured + random, exact comparison of every cell (values, NaT, panic kind); cells marked spec carry "
         "what the property demands: (1) all 1024 subsets of the ten duration units (ns us ms s m h d w mo y) with "
         "positive / negative / mixed signs: TimeDelta::parse vs (months, ns), DateTime<U> + d and - d at all four "
         "units on date-times 1678..2262, end-of-month / leap-year instants, pre-1970 instants, plus the range limits "
         "of each unit and of chrono; (2) (x + d) - d and (x - d) + d for all 256 subsets of the month-free units x 4 "
         "units, spec cell = x, known-finding class 1 (d not a whole number of units) flagged by the model; (3) a - b "
         "and b + (a - b) with spec cell = a (random 1678..2262, near, equal, limits, NaT); (4) duration algebra on "
         "random triples incl. values at the i32 / chrono::Duration limits: a+b, b+a, (a+b)+c, a+(b+c), a+(-a), a+0, "
         "--a, a-b, a+(-b), k(a+b), ka+kb, ka, and TimeDelta / TimeDelta; (5) month counts -1200..1200 on Jan-31 / "
         "Feb-29 / ... of 1900 / 2000 / 2100 / 2023 / 2024 and random instants, + and -, result fields vs "
         "Spec/Calendar.add_months; (6) Time: five constructors on in-range components (getters = components as spec) "
         "and on out-of-range / overflowing ones, raw values incl. negative, >= 24 h, u32 wrap-around, NaT, with_hour/"
         "minute/second/nanosecond, as_cr / from_cr, Time +- d; (7) duration_trunc at four units: 13 fixed + random "
         "month-free durations, months 1 2 3 4 6 12 (spec: first instant of the period) and 5 7 8 .. 120, zero / "
         "negative / mixed / oversized durations, instants before 1970 and outside the nanosecond range; (8) Time::with_* on times of day "
         "and invalid receivers with the getters of the result (spec cells: new component + the three old ones), two setters in "
         "both orders, the four setters from midnight vs from_hms_nano (spec), d * k then (d * k) / d (spec cell k) for d with and "
         "without months and k over the i32 range, a / b on month-free operands (spec: truncated quotient) and every failure mode "
         "(NaT, zero fixed part incl. pure months, i64::MIN / -1, fixed part beyond i64 ns, as-i32 wrap, month/ns quotient "
         "mismatch), the scaling laws (j+k)d jd+kd (jk)d j(kd) (-1)d -d 0d 1d incl. NaT d, partial_cmp both ways, "
         "From<Option<i64>>. "
         "non-trivial = distinct case descriptions not tagged nt=0",
    theorem_hint="Props/C17.v: C17_add_sub_inverse, C17_add_sub_class1_*, C17_diff_add_inverse, C17_td_*, C17_month_*, C17_time_*, C17_trunc_*, C17_days_of_civil_*, C17_month_trunc_*, C17_time_with_*, C17_time_components_bijection, C17_timedelta_div*, C17_scaling_distributes_full, C17_td_scale_*, C17_td_order*",
    level_text="Proof: 64 theorems (Props/C17.v, axiom-free, over Z) about the Gallina model of tea-time: "
               "(x + d) - d = x and (x - d) + d = x for month-free d outside known-finding class 1 (stated as "
               "kf_subunit u d = false -> ..., with a witness that the class fails AND a proof that every member of "
               "the class fails by exactly one unit: result = x - 1), (a - b) + b = a, TimeDelta is an abelian group "
               "under + / neg with scaling distributing (on non-overflowing values), month addition = calendar month "
               "arithmetic with end-of-month clamping, Time constructors <-> getters, Time <-> NaiveTime round trip, "
               "Time +- d exact, duration_trunc = greatest multiple of d not after x (both inequalities; for d not a "
               "whole number of units: y <= x < y + d + one unit), month truncation for m | 12 at all four units and "
               "for pre-1970 / year <= 0 instants: the result is 00:00:00.0 on the first day of the enclosing month / "
               "quarter / half-year / year, it is <= x, it is the GREATEST first-instant of a year-aligned m-month "
               "period that is <= x, and x is before the first instant of the next period. These rest on new calendar "
               "theorems: days_of_civil (Hinnant) is strictly monotone for the lexicographic order on valid dates of "
               "every year and reflects it (order isomorphism), month lengths add up. Calendar facts enter through the "
               "CalendarLaws record (Section hypothesis), which Proofs/Calendar.v proves for the executable calendar; "
               "the order theorems are about the executable calendar directly. Nothing is partial; the unrestricted "
               "inverse law stays a Definition because class 1 refutes it. Extension X27 (Proofs/Time3.v, 23 theorems): "
               "Time::with_hour/minute/second/nanosecond on every time of day and valid component give a time of day that "
               "reports the new component and the three others unchanged (closed form on the raw value; out-of-range "
               "component or invalid receiver = None; the four setters from midnight = from_hms_nano; setters commute, the "
               "last one wins; chrono's leap-second range 10^9..2*10^9 is accepted and spills into the next second); "
               "(h, m, s, ns) <-> Time is a bijection between valid components and 0 <= raw < 86400e9 with the getters as "
               "inverse; TimeDelta / TimeDelta: (k * d) / d = k for every non-NaT d with a non-zero fixed part and i32 k, "
               "d / d = 1, value = truncated quotient of the fixed parts cast as i32, a = q*b + r with |r| < |b| and the sign "
               "of a, the month/ns agreement rule, and every failure mode (NaT, zero fixed part even for pure months, "
               "i64::MIN / -1, fixed part beyond i64 ns); scaling: k(a+b) = ka+kb, (j+k)d = jd+kd, (jk)d = j(kd) (whenever the "
               "side with more operations exists the other side exists and is equal; converses refuted by witnesses), "
               "1d = d, (-1)d = -d, 0d = zero, NaT * k = NaT for EVERY k incl. 0, an arithmetic bound under which scaling "
               "succeeds; PartialOrd for TimeDelta is the lexicographic order on (months, ns), translation invariant and "
               "reversed by negation. Not proved (compared only, by design): Time::parse / TimeDelta::parse (chrono's parser "
               "resp. C18), chrono's conformance to its model.",
    level_note="Trusted: Coq kernel; the hand-written model of impl_ops.rs / time.rs / impl_time.rs / datetime.rs and of "
               "the chrono functions they delegate to (checked_add_months, checked_add_signed, Duration arithmetic "
               "and ranges, DurationRound::duration_trunc, NaiveTime), compared on every run. Known finding class 1 "
               "(sub-unit d on a coarse DateTime) is reported, not repaired.",
    trusted=["the model of chrono: Months arithmetic (NaiveDate::diff_months), checked_add_signed on (secs, nanos), "
             "Duration as total nanoseconds with its +-i64::MAX ms range and checked_mul bound, "
             "DurationRound::duration_trunc, NaiveTime::from_num_seconds_from_midnight_opt / with_*",
             "TimeDelta::parse is used as a constructor for the ten-unit durations (its totality is C18)"],
    assumptions=["debug profile: i32 / i64 overflow in TimeDelta and Time arithmetic panics (release wraps)"],
)
