"""C17 — NaT is absorbing and unit changes agree with the calendar."""
CFG = dict(
    bins=["c17"],
    imports=["Run.RunC17"],
    exhaustive=False,
    rule="TODO",
    theorem_hint="Props/C17.v",
    level_text="TODO",
    level_note="TODO",
    trusted=[],
)
