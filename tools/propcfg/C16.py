"""C16 — Time values: NaT is absorbing and unit changes agree with the calendar."""
CFG = dict(
    src_tables=True,   # tools/gen_tables.py + Proofs/SrcTablesOk.v: tables regenerated from the Rust source on every run
    bins=["c16"],
    imports=["Run.RunC16"],
    exhaustive=False,
    rule="structured + random, exact comparison of every cell (values, None/NaT, panic kind): "
         "(1) all 4x4 unit pairs x timestamps {0, +-1, +-(ratio-1), +-ratio, +-(ratio+1), multiples, the "
         "multiplication-overflow boundary i64::MAX/ratio+-1, i64::MIN+1, i64::MAX, NaT, uniform over the whole i64 "
         "range, random magnitudes, pre-epoch values not divisible by the ratio, date-times 1678..2262}: into_unit, "
         "Cast<DateTime<T>>, the same conversion done through chrono (as_cr at U, From<chrono> at T), and the "
         "there-and-back composition; (2) is_nat / into_i64 / into_opt_i64 / Cast<i64> / Cast<Option<i64>> / "
         "from_opt_i64 / From<Option<i64>>; (3) per unit: as_cr (secs, nanos), From<chrono>(as_cr), year month day "
         "hour minute second time() against the Coq calendar, incl. chrono's date-range limits and end-of-month / "
         "leap-year instants; (4) From<chrono::DateTime<Utc>> / NaiveDateTime / Option<NaiveDateTime> for chrono "
         "values over chrono's whole range incl. the i64-nanosecond limits; (5) the calendar itself: day number <-> "
         "(y, m, d) for days -800..800, leap-day neighbourhoods of 13 years, the range limits and random days; "
         "(y, m, d) validity and round trip incl. invalid dates; (6) every operator of impl_ops.rs with a NaT "
         "operand on the left, the right, and both (DateTime +- TimeDelta, DateTime - DateTime, duration_trunc, "
         "TimeDelta neg / + / - / * i32, From<i64>, Time +- TimeDelta; both NaT encodings of TimeDelta); "
         "(7) on the values of (2): is_nat / is_not_nat of DateTime<U>, Time and TimeDelta::from(i64), "
         "into_opt_i64(from_opt_i64(Some x)), from_opt_i64(None) (fn=flags); on the values of (3): the TryFrom<DateTime<U>> "
         "impl called directly (no NaT test by the caller), the deprecated to_cr, and From<chrono> of the TryFrom result "
         "(fn=tryfrom); (8) audit: DateTime / TimeDelta / Time ::default(), TimeDelta::nat(), From<Duration> / From<Option<Duration>> "
         "(fn=defaults, fn=tddur), From<NaiveDate> at all four units over chrono's whole date range with the six fields of the "
         "result (fn=naivedate), and the five valid-operands-give-NaT witnesses of C16_nat_result_converse_refuted on the real "
         "operators (fn=valid_to_nat). "
         "non-trivial = distinct case descriptions not tagged nt=0",
    theorem_hint="Props/C16.v: C16_nat_conv_*, C16_nat_ops_*, C16_coarsen_*, C16_refine_back, C16_cr_roundtrip*, C16_try_from_*, C16_is_not_nat, C16_into_unit_closed_form, C16_into_unit_panics_iff, C16_refine_as_chrono, C16_as_chrono_all_pairs, C16_fields_reconstruct, C16_valid_stays_valid",
    level_text="Proof: 30 theorems (Props/C16.v, axiom-free, over Z; the last 8 — is_not_nat for the three types, the "
               "Option<i64> view both ways, TryFrom = as_cr on every timestamp of every unit incl. NaT, its round trip, "
               "to_cr = as_cr — about Model/TimeAccess.v) about the Gallina model of tea-time "
               "(Model/Time.v): NaT through every conversion and every operator; coarsening = Euclidean floor of the "
               "instant (also before 1970) and equal to the conversion through chrono's (secs, nanos) model; refine-and-"
               "back identity; as_cr/From<chrono> round trips; the executable proleptic-Gregorian calendar is a "
               "bijection (days_of_civil . civil_of_days = id for all Z, by two exhaustive era sweeps lifted to Z). "
               "The audit (Proofs/Audit16.v, notes/C16.md 'Audit matrix') added 25 theorems, 55 in total, all axiom-free: ONE closed "
               "form of into_unit for the 16 unit pairs and every i64 (no finer-hypothesis), the rejected input exactly (panic <=> "
               "refining, non-NaT, product outside i64; the unimplemented!() arm is unreachable), NaT comes out of a unit change only "
               "if NaT went in, conversions are monotone, coarsening composes, coarsen-then-refine = x - x mod ratio (not the identity, "
               "can overflow next to i64::MIN), the calendar-library clause for the REFINING pairs and for all pairs at once (the only "
               "disagreement: target ns outside the i64 window, library route NaT vs debug overflow panic), as_cr = None exactly on NaT "
               "or outside chrono's date range, the six getters reconstruct the instant, Default / From<NaiveDateTime|Option|NaiveDate|"
               "Duration|Option<Duration>> / the Cast views (model added), TimeDelta / TimeDelta and duration_trunc with a NaT operand "
               "(panics, in source order of the checks), and the converse of absorption refuted by five witnesses replayed on the code. "
               "Nothing is partial. "
               "The model is tied to the code by the differential run over the real public API.",
    level_note="Trusted: Coq kernel; the hand-written model of convert.rs / datetime.rs / impl_datetime.rs / impl_ops.rs "
               "and of chrono's from_timestamp*/timestamp*/date range; chrono itself is compared, not verified (year/"
               "month/day/hour/minute/second through tevec's getters vs Spec/Calendar.v). Refining multiplications "
               "are modelled with the debug-build overflow panic; a release build wraps instead (outside the "
               "property's 'representable range').",
    trusted=["the (secs, nanos) model of chrono::DateTime<Utc> (from_timestamp[_millis|_micros|_nanos], timestamp*, "
             "NaiveDate::MIN/MAX) and of chrono::Duration as total nanoseconds",
             "chrono's calendar (compared with Spec/Calendar.v on every run, not verified)"],
    assumptions=["debug profile: i64 multiplication overflow in into_unit panics (release wraps)"],
)
