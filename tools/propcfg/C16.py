"""C16 — NaT is absorbing and unit changes agree with the calendar."""
CFG = dict(
    bins=["c16"],
    imports=["Run.RunC16"],
    exhaustive=False,
    rule="TODO",
    theorem_hint="Props/C16.v",
    level_text="TODO",
    level_note="TODO",
    trusted=[],
)
