"""C03 — rolling extrema, arg-extrema, rank and normalisation are exact per window."""
from fractions import Fraction


def _val(c):
    t, a, b = c
    if t == 0:
        return Fraction(a)
    if t == 1:
        return Fraction(a) * (Fraction(2) ** b)
    return None


def compare(cmp, impl_cells, model_cells):
    """custom:batch:<len>:<exact|rtol> — a batch holds, for w = 1..=len+2: the cells of the run with min_periods = 0,
    a separator, then one summary cell for each other min_periods (omitted, 1..=w): the panic, or the bit mask of the
    non-null outputs, or -1 when a non-null output differs from the min_periods = 0 run (Run/RunC03.v all_wmp and
    harness/src/bin/c03.rs batch compute the same summary).  Runs are compared exactly (numbers by value, NaN == null)
    or within rtol, summaries exactly; a difference is reported with the (w, min_periods, position) it belongs to."""
    parts = cmp.split(":")
    length = int(parts[2])
    rtol = None if parts[3] == "exact" else float(parts[3])

    def parse(cells):
        out, k = [], 0
        for w in range(1, length + 3):
            run = []
            while k < len(cells) and cells[k][0] != 9:
                run.append(cells[k]); k += 1
            if k >= len(cells):
                return None
            k += 1
            masks = cells[k:k + w + 1]
            if len(masks) != w + 1:
                return None
            k += w + 1
            out.append((w, run, masks))
        return out if k == len(cells) else None

    pi, pm = parse(impl_cells), parse(model_cells)
    if pi is None or pm is None:
        return "batch shape: impl %d cells (%s), model %d cells (%s)" % (
            len(impl_cells), "ok" if pi else "malformed", len(model_cells), "ok" if pm else "malformed")

    def same(x, y):
        nx, ny = x[0] in (0, 1), y[0] in (0, 1)
        if nx and ny:
            vx, vy = _val(x), _val(y)
            if vx == vy:
                return True
            return rtol is not None and abs(float(vx) - float(vy)) <= rtol * max(1.0, abs(float(vx)), abs(float(vy)))
        if nx != ny:
            return False
        return (x[0], x[1] if x[0] == 5 else 0) == (y[0], y[1] if y[0] == 5 else 0)

    for (w, ra, ma), (_, rb, mb) in zip(pi, pm):
        if len(ra) != len(rb):
            return "w=%d mp=Some(0): impl %d cells %s, model %d cells %s" % (w, len(ra), ra[:4], len(rb), rb[:4])
        for k, (x, y) in enumerate(zip(ra, rb)):
            if not same(x, y):
                return "w=%d mp=Some(0) position %d: impl %s, model %s" % (w, k, x, y)
        for j, (x, y) in enumerate(zip(ma, mb)):
            if tuple(x) != tuple(y):
                mp = "None" if j == 0 else "Some(%d)" % j
                return ("w=%d mp=%s: non-null mask (bit i = position i; -1 = a value differs from the mp=0 run; "
                        "tag 5 = panic): impl %s, model %s" % (w, mp, x, y))
    return None


CFG = dict(
    bins=["c03"],
    imports=["Run.RunC03"],
    rule="TODO",
    theorem_hint="Props/C03.v",
    level_text="TODO",
    level_note="TODO",
    trusted=[],
)
