"""C03 — rolling extrema, arg-extrema, rank and normalisation are exact per window."""
from fractions import Fraction


def _val(c):
    t, a, b = c
    if t == 0:
        return Fraction(a)
    if t == 1:
        return Fraction(a) * (Fraction(2) ** b)
    return None


def compare(cmp, impl_cells, model_cells):
    """custom:batch:<len>:<exact|rtol> — a batch holds, for w = 1..=len+2: the cells of the run with min_periods = 0,
    a separator, then one summary cell for each other min_periods (omitted, 1..=w): the panic, or the bit mask of the
    non-null outputs, or -1 when a non-null output differs from the min_periods = 0 run (Run/RunC03.v all_wmp and
    harness/src/bin/c03.rs batch compute the same summary).  Runs are compared exactly (numbers by value, NaN == null)
    or within rtol, summaries exactly; a difference is reported with the (w, min_periods, position) it belongs to."""
    parts = cmp.split(":")
    length = int(parts[2])
    rtol = None if parts[3] == "exact" else float(parts[3])

    def parse(cells):
        out, k = [], 0
        for w in range(1, length + 3):
            run = []
            while k < len(cells) and cells[k][0] != 9:
                run.append(cells[k]); k += 1
            if k >= len(cells):
                return None
            k += 1
            masks = cells[k:k + w + 1]
            if len(masks) != w + 1:
                return None
            k += w + 1
            out.append((w, run, masks))
        return out if k == len(cells) else None

    pi, pm = parse(impl_cells), parse(model_cells)
    if pi is None or pm is None:
        return "batch shape: impl %d cells (%s), model %d cells (%s)" % (
            len(impl_cells), "ok" if pi else "malformed", len(model_cells), "ok" if pm else "malformed")

    def same(x, y):
        nx, ny = x[0] in (0, 1), y[0] in (0, 1)
        if nx and ny:
            vx, vy = _val(x), _val(y)
            if vx == vy:
                return True
            return rtol is not None and abs(float(vx) - float(vy)) <= rtol * max(1.0, abs(float(vx)), abs(float(vy)))
        if nx != ny:
            return False
        return (x[0], x[1] if x[0] == 5 else 0) == (y[0], y[1] if y[0] == 5 else 0)

    for (w, ra, ma), (_, rb, mb) in zip(pi, pm):
        if len(ra) != len(rb):
            return "w=%d mp=Some(0): impl %d cells %s, model %d cells %s" % (w, len(ra), ra[:4], len(rb), rb[:4])
        for k, (x, y) in enumerate(zip(ra, rb)):
            if not same(x, y):
                return "w=%d mp=Some(0) position %d: impl %s, model %s" % (w, k, x, y)
        for j, (x, y) in enumerate(zip(ma, mb)):
            if tuple(x) != tuple(y):
                mp = "None" if j == 0 else "Some(%d)" % j
                return ("w=%d mp=%s: non-null mask (bit i = position i; -1 = a value differs from the mp=0 run; "
                        "tag 5 = panic): impl %s, model %s" % (w, mp, x, y))
    return None


CFG = dict(
    bins=["c03"],
    imports=["Run.RunC03"],
    rule="series over {0,1,null}: EVERY series of length 1..=6 (thorough 1..=7) — lengths <= 4 (5) with every function and "
         "element type, the longest lengths with the four cached-extreme functions on Option<i32> (a quarter also on f64), "
         "thorough additionally 2x500 sampled series of length 8 and 9; every series over {0,1,2,3} up to length 3 (4); each as a "
         "BATCH case = every window 1..=len+2 x every min_periods (omitted, 0..=w): the min_periods=0 run in full and, for every "
         "other min_periods, the bit mask of non-null outputs plus a check that the non-null values equal the min_periods=0 run "
         "(computed identically by the harness from the real outputs and by Coq from the model); 200 (1000) structured random "
         "series of length 2..40 (binary / {0..3} alphabets, strictly monotone up / down = the extreme expires at every step, "
         "plateaus, walk, uniform, constant) x 10 null patterns (incl. periodic null blocks aligned with window expiry) with 3 "
         "random (w <= len+2, min_periods 0..=w or omitted) each, a third of the functions each; 120 (600) series of hostile "
         "floats (+-0, subnormals, +-1e308, +-f64::MAX, neighbours) for the order kernels; functions ts_vmin, ts_vmax, "
         "ts_vargmin, ts_vargmax, ts_vrank (pct x rev), ts_vminmaxnorm, ts_vzscore; element types f64 (NaN null), Option<f64>, "
         "Option<i32>, i32; outputs f64, Option<f64>, Option<i32>; backends Vec (index body: returned and caller buffer) and "
         "VecDeque with a rotated ring (iterator body returned, index body with caller buffer); integer types are compared with "
         "the model at Z, float types at Coq's binary64; min/max/arg/rank compared exactly, z-score / min-max within 1e-9; "
         "omitted min_periods is compared for every length (the model reproduces the clamp of DESIGN 5.3); tags count rescans, "
         "rescans with a null newcomer and all-null windows per case; audit block: four fixed series (incl. the empty one) x window 0 "
         "and min_periods above the window (w+1, w+3, clamped window + 1, + 3) x every function x Vec / VecDeque / caller buffer / "
         "Option<f64>",
    theorem_hint="Props/C03.v: C03_ts_vmin, C03_ts_vmax, C03_ts_vargmin, C03_ts_vargmax, C03_cached_extreme_invariant, "
                 "C03_ts_vrank, C03_ts_vzscore, C03_ts_vminmaxnorm; every ordered carrier: C03_ts_vmin_ordered, "
                 "C03_ts_vmax_ordered, C03_ts_vargmin_ordered, C03_ts_vargmax_ordered, C03_cached_extreme_invariant_ordered, "
                 "C03_ts_vrank_ordered, C03_order_laws_Z, C03_order_laws_real; audit: C03_empty_series, C03_window0_rejected, "
                 "C03_min_periods_above_window_all_null, C03_last_position_meaning, C03_minmaxnorm_both_expired_arm_is_dead_code",
    level_text="Proof (Coq): for EVERY series of length >= 1 over any null dictionary with integer elements, window >= 1, "
               "min_periods, position and both driver bodies the model of cmp.rs returns without panic and ts_vmin / ts_vmax = "
               "least / greatest valid element of the window (null when none), ts_vargmin / ts_vargmax = 1-based offset of the "
               "LAST position holding it, via the cached-extreme invariant (after every step the cached index is the last "
               "null-last extreme of the window; before the next step it is either still that of the remaining window or "
               "strictly before the new start = the expiry test) — axiom-free; ts_vrank = #smaller + 1 + #equal/2 over the "
               "valid window without the current element, reversed and pct forms (option R); ts_vzscore = (x-mean)/sample-std, "
               "null iff x null / masked / population variance <= EPS (option R); ts_vminmaxnorm = (x-min)/(max-min) of the valid "
               "window, null iff x null / max = min / masked, through the invariant of the lazily re-searched (max, min) cache, "
               "for elements within the sentinels T::min_()/max_() (option R). "
               "EVERY ORDERED CARRIER (C03_*_ordered, 25 obligations): the extrema, arg-extrema, cached-extreme invariant, "
               "fresh-or-stale and rank theorems are re-proved for ANY carrier A whose nltb / neqb / nleb satisfy the record OrdLaws "
               "on its non-NaN elements (strict weak order: asymmetric + co-transitive, neqb its equivalence, nleb the complement of "
               "the converse; a Section hypothesis, never an axiom), ANY null dictionary IsNone T A and any series whose valid "
               "elements are not NaN (automatic for integers and for NaN-is-null floats; excludes Some(NaN) of Option<f64>, DESIGN 5.4); "
               "sort_cmp / sort_cmp_rev = the null-last order of < / of its converse there; specification in the carrier's own "
               "comparisons (gmin / gmax = the LAST among equivalent extremes, gargmin_spec, gcount_lt/eq; C03_extreme_meaning); the "
               "laws are proved for Z and for option R (Leibniz neqb: strict total order), the integer theorems are re-derived as "
               "corollaries (C03_ordered_spec_at_Z: the generic spec IS list_min / argmin_spec / avg_rank at Z), the real instance "
               "gives least / greatest real (C03_extreme_real_meaning); integer part axiom-free, real part stdlib Reals axioms. The laws "
               "are ALSO proved for Coq's binary64 float (non-NaN values; +0 == -0 so only the weak-order form holds) from the standard "
               "library's FloatAxioms eqb_spec / ltb_spec / leb_spec, giving ts_vmin/vmax/vargmin/vargmax_f64 for the float instance "
               "the runs execute — kept in Proofs/CmpOrdFloat.v and NOT counted as obligations because the driver's axiom allow-list "
               "has only the Reals axioms. "
               "AUDIT (Proofs/Audit03.v, 14 obligations, notes/C03.md 'Audit matrix'): the hypotheses of the main theorems are exactly "
               "what the code rejects or what is trivial — C03_empty_series (all seven entry points return the empty result on the "
               "empty series, every window, both bodies, every carrier) and C03_window0_rejected (window 0 on a non-empty series: the "
               "driver's assertion fails, both bodies); C03_window_clamped_to_length (w >= len behaves as w = len for every "
               "min_periods); C03_omitted_min_periods (omitted IS Some((min len w)/2): w/2 for len >= w, len/2 for len < w, DESIGN 5.3); "
               "C03_min_periods_above_window_all_null (min_periods above the clamped window is NOT clamped in cmp.rs: every output "
               "null; any ordered carrier, + binary64 instance); ties: C03_last_position_meaning(_integer) (the named position holds the "
               "extreme and NO LATER position does), C03_argmax_spec_meaning, C03_gargmax_spec_meaning, C03_arg_offsets_in_window "
               "(1 <= offset <= |window|); C03_cmp_family_binary64_option (Option<f64> at binary64 under the no-Some(NaN) premise). "
               "DEAD CODE DECIDED: the loop body of the both-expired arm of ts_vminmaxnorm's lazy re-search (norm.rs:146-151, the lines "
               "the coverage report shows are never reached) cannot be reached by any input within the sentinels — the cached indices "
               "are the LAST positions of the window's extremes (new invariant LastMM), so when both expire together the element that "
               "left was the only holder of both and the window to re-scan has no valid element "
               "(C03_minmaxnorm_both_expired_window_is_null); the model with that loop body deleted returns exactly the same outcome for "
               "every series, window (0 included), min_periods and body (C03_minmaxnorm_both_expired_arm_is_dead_code). "
               "Nothing is partial. The model is tied to the code by ~47k differential cases per quick run (incl. window 0 and "
               "min_periods above the window on every entry point, path and element type). "
               "Second, static tie (translator): the rescan condition, rescan range, comparator and Ordering patterns (tie-breaking) of ts_vmin / ts_vmax / ts_vargmin / ts_vargmax, their n >= min_periods guards and the idx - start + 1 output, the recount comparisons / constants / guards of ts_vrank, the sentinels / expiry tests / comparison operators / guard of ts_vminmaxnorm and the guards of ts_vzscore are re-extracted from cmp.rs / norm.rs on every run and Proofs/SrcTablesMapExt.v re-proves, for every carrier, null dictionary, series and state, that the callbacks of Model/Cmp.v / Model/Norm.v use exactly those (src_ext_step_conforms, src_ts_vmin/vmax/vargmin/vargmax_conforms, src_ts_vrank_conforms, src_ts_vminmaxnorm_conforms, src_ts_vzscore_conforms).",
    src_tables=True,   # tools/gen_tables.py (+ gen_tables_map.py): decision tables regenerated from the Rust source on every run
    src_tables_proofs=["Proofs/SrcTablesMapExt.vo"],
    level_note="Trusted: Coq kernel (+ stdlib Reals axioms under the rank / z-score theorems only); the hand-written model of "
               "cmp.rs / norm.rs / isnone.rs sort_cmp; the order kernels are proved for every carrier satisfying OrdLaws (instances Z, "
               "option R; and Coq's primitive binary64 float — the binary64 theorems C03_*_binary64 are counted obligations and depend on the standard library's own FloatAxioms.eqb_spec / ltb_spec / leb_spec, the specification of the primitive float comparisons), float arithmetic (rank value, "
               "normalisations) stays outside the theorems (float runs are compared bit-exactly for min/max/arg/rank and within 1e-9 "
               "for the normalisations). The model "
               "follows the repaired code (two fix: commits, see KNOWN_FINDINGS.d/C03.txt).",
    trusted=["order kernels are proved for every carrier satisfying OrdLaws (Z and option R proved axiom-free / Reals axioms); that "
             "f64 comparisons of non-NaN values satisfy OrdLaws is proved in Proofs/CmpOrdFloat.v from the standard library's "
             "FloatAxioms.eqb_spec / ltb_spec / leb_spec (specification of the primitive comparisons by SpecFloat.SFcompare) — not "
             "a counted obligation; Some(NaN) elements of Option<f64> are outside the theorems (valid_not_nan premise)",
             "Reals axioms of the Coq standard library under C03_ts_vrank / C03_ts_vzscore (sig_forall_dec, sig_not_dec, "
             "functional_extensionality_dep)"],
    assumptions=["inputs finite and of bounded magnitude (DESIGN 5.2), canonical nulls (5.4); the main theorems take series length >= 1 and window >= 1 — the complement (empty series, window 0) is described totally by C03_empty_series / C03_window0_rejected"],
)
