#!/usr/bin/env python3
"""Regenerates the machine-made tables of DESIGN.md section 10 (between the marker comments) from seeded/*/meta.json,
evidence/*.json, KNOWN_FINDINGS*, coq/Props/*.v."""
import json, os, re, glob, subprocess
ROOT = os.path.dirname(os.path.dirname(os.path.abspath(__file__)))
def seed_table():
    rows = ["| seed | breaks | what it needs to manifest | caught by | first run |", "|---|---|---|---|---|"]
    for d in sorted(glob.glob(os.path.join(ROOT, "seeded", "*")), key=lambda p: (os.path.basename(p).split("-")[0], int(os.path.basename(p).split("-")[1]))):
        m = json.load(open(os.path.join(d, "meta.json")))
        res = m.get("result", "")
        missed = "MISSED" in res
        rows.append("| %s | %s | %s | %s | %s |" % (os.path.basename(d), m["breaks"], m["needs_to_manifest"].replace("|", "/"),
                    ", ".join(m.get("caught_by", [])), "missed, then caught after strengthening (see 10.5)" if missed else "caught"))
    return "\n".join(rows)
def prop_table():
    rows = ["| prop | theorems (Props/Cxx.v) | axioms under them | quick: cases / distinct model terms / wall | known findings |", "|---|---|---|---|---|"]
    kf = {}
    for f in [os.path.join(ROOT, "KNOWN_FINDINGS")] + sorted(glob.glob(os.path.join(ROOT, "KNOWN_FINDINGS.d", "*"))):
        for line in open(f):
            m = re.match(r"(finding|fixed):\s+property=(\S+)", line)
            if m: kf.setdefault(m.group(2), [0, 0])[0 if m.group(1) == "finding" else 1] += 1
    for p in ["C%02d" % i for i in range(1, 21)]:
        ev = os.path.join(ROOT, "evidence", p + ".json")
        if not os.path.exists(ev): continue
        e = json.load(open(ev)); c = e["coverage"]
        ax = ", ".join(a.split(".")[-1] for a in c.get("axioms_used", [])) or "none"
        k = kf.get(p, [0, 0])
        rows.append("| %s | %d / %d | %s | %d / %d / %.0f s | %d finding class(es), %d fixed |" % (p, c["discharged"], c["obligations"], ax,
                    c["evaluations"], c.get("distinct_model_terms", 0), e["wall_s"], k[0], k[1]))
    return "\n".join(rows)
def fill(text, name, body):
    a, b = "<!-- %s:BEGIN -->" % name, "<!-- %s:END -->" % name
    i, j = text.index(a) + len(a), text.index(b)
    return text[:i] + "\n" + body + "\n" + text[j:]
p = os.path.join(ROOT, "DESIGN.md")
t = open(p).read()
t = fill(t, "SEEDTABLE", seed_table())
t = fill(t, "PROPTABLE", prop_table())
open(p, "w").write(t)
import re as _re
_n = len(os.listdir(os.path.join(ROOT, 'seeded')))
_s = open(p).read()
open(p, 'w').write(_re.sub(r"\*\*Seeded changes\.\*\* \d+ changes written", "**Seeded changes.** %d changes written" % _n, _s))
print("tables regenerated")
