#!/bin/sh
# tools/mkseed.sh <Cxx> <k>: scratch worktree + prompt for an independent mutation-seeding sub-agent
set -e
P=$1; K=$2; WT=/tmp/seed-$P-$K; OUT=/tmp/seedout-$P-$K
git -C /repo worktree add -q --detach $WT HEAD
mkdir -p $OUT
sed "s#@WT@#$WT#g; s#@OUT@#$OUT#g" /work/seedprompts/common.txt > /work/seedprompts/full-$P-$K.txt
cat /work/seedprompts/$P.txt >> /work/seedprompts/full-$P-$K.txt
echo /work/seedprompts/full-$P-$K.txt
