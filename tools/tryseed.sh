#!/bin/sh
# tools/tryseed.sh <Cxx> <k> [extra props...]: apply a seeded change to /repo, run the checks, undo it.
# Each check is first run at the plain quick sizes (VERIF_NO_ESCALATE=1: what the quick generators alone can see);
# only when that misses is the real quick command run, which escalates to the thorough generators because the anchored
# source differs from the baseline (tools/anchors.py).
P=$1; K=$2; shift; shift
OUT=/tmp/seedout-$P-$K
git -C /repo status --short | grep -q . && { echo "/repo not clean"; exit 1; }
rm -rf /verif/.build/evidence.bak; cp -a /verif/evidence /verif/.build/evidence.bak   # evidence of a run on a mutated tree must never be committed
git -C /repo apply $OUT/patch.diff || exit 1
for q in $P "$@"; do
  echo "== check $q with seeded change $P-$K (quick generators, no escalation)"
  VERIF_NO_ESCALATE=1 timeout 1800 /verif/check $q --tier quick > /tmp/tryseed.out 2>&1; rc=$?
  grep -E "VIOLATION|KNOWN|^\[C" /tmp/tryseed.out | head -5
  if [ $rc -eq 0 ]; then
    echo "== MISSED by the quick generators; real quick command (escalates on source drift):"
    timeout 3000 /verif/check $q --tier quick 2>&1 | grep -E "VIOLATION|KNOWN|^\[C" | head -6
  fi
done
git -C /repo checkout -- .
python3 /verif/tools/gen_tables.py >/dev/null   # the generated tables follow the restored source
rm -rf /verif/evidence; mv /verif/.build/evidence.bak /verif/evidence
git -C /repo status --short
