#!/bin/sh
# tools/tryseed.sh <Cxx> <k> [extra props...]: apply a seeded change to /repo, run the checks, undo it
P=$1; K=$2; shift; shift
OUT=/tmp/seedout-$P-$K
git -C /repo status --short | grep -q . && { echo "/repo not clean"; exit 1; }
git -C /repo apply $OUT/patch.diff || exit 1
for q in $P "$@"; do
  echo "== check $q with seeded change $P-$K"
  timeout 1800 /verif/check $q --tier quick 2>&1 | tail -4
done
git -C /repo checkout -- .
git -C /repo status --short
