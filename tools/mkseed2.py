import json,subprocess,sys,os
# round-2 seed prompt: same as round 1 + a note on what earlier attempts already did (so the new one is different)
P,K=sys.argv[1],sys.argv[2]
prev=[]
for k in range(1,int(K)):
    mp='/verif/seeded/%s-%d/meta.json'%(P,k)
    if os.path.exists(mp): prev.append(json.load(open(mp))['needs_to_manifest'])
out=subprocess.run(['/verif/tools/mkseed.sh',P,K],capture_output=True,text=True).stdout.strip()
extra="\n\nAdditional requirement for this attempt: earlier attempts at this property already changed the library as follows (described by what they need to manifest) — " + "; ".join('"%s"'%p for p in prev) + ". Produce a change of a DIFFERENT kind in a DIFFERENT function or mechanism (another entry point, another backend or element type, another part of the property statement), and prefer one that only manifests after a longer history or a multi-step sequence (e.g. state that drifts only after an element has expired from the window, a cached value that is stale only after a particular sequence, an interaction between two call sites), or only for an unusual but in-scope parameter combination.\n"
if int(K) >= 4:
    extra += "\nFor this attempt prefer, in this order: (a) a change made of TWO cooperating edits in two different functions or files that each look harmless alone (e.g. a helper whose contract is loosened plus a caller that relied on it; a default value changed in one place and a guard removed in another), (b) a change that only manifests for a rarely used element type (f32, i64, Option<i32>, bool, String), output type (f32, i32, Option<f64>) or backend (VecDeque used as a ring buffer, a strided or reversed ndarray view, Arc<...>, the option view) while f64 / Vec behave as before, (c) a change in shared plumbing (tea-core iterators, collectors, the null / cast algebra) whose effect on this property is indirect.\n"
open(out,'a').write(extra)
print(out)
