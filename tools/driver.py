"""Driver of the proof + correspondence checks (DESIGN.md 2.3).  Python 3 stdlib only."""
import os, sys, re, json, time, subprocess, hashlib, fcntl, shutil, math, collections, concurrent.futures
from fractions import Fraction

ROOT = os.path.dirname(os.path.dirname(os.path.abspath(__file__)))
COQ = os.path.join(ROOT, "coq")
HARNESS = os.path.join(ROOT, "harness")
BUILD = os.path.join(ROOT, ".build")
TARGET = os.path.join(BUILD, "target")
# second harness crate: tevec with the `polars` feature (cold build ~40-60 s, ~1 GB of artefacts); only the
# binaries a property lists under `bins_thorough_pl` (historical name) are built from it, in both tiers
HARNESS_PL = os.path.join(ROOT, "harness-pl")
TARGET_PL = os.path.join(BUILD, "target-pl")
_sib = os.path.join(os.path.dirname(ROOT), "repo")
REPO = os.environ.get("TEVEC_REPO") or (_sib if ROOT != "/verif" and os.path.isdir(_sib) else "/repo")

sys.path.insert(0, os.path.join(ROOT, "tools"))
import props as PROPS   # per-property configuration
import anchors as ANCHORS  # source fingerprints of the anchored Rust files

TABLE_GROUPS = ["time", "roll", "agg", "map", "drv"]   # tools/gen_tables.py
ALLOWED_AXIOMS = {
    # Coq standard-library axioms behind Reals (DESIGN.md section 6); nothing else is accepted
    "ClassicalDedekindReals.sig_forall_dec",
    "ClassicalDedekindReals.sig_not_dec",
    "FunctionalExtensionality.functional_extensionality_dep",
    "Classical_Prop.classic",
    # the standard library's own specification of the primitive binary64 comparisons (Floats/FloatAxioms.v), used only
    # by the theorems that instantiate the order laws at Coq's `float` (Proofs/CmpOrdFloat.v)
    "FloatAxioms.eqb_spec",
    "FloatAxioms.ltb_spec",
    "FloatAxioms.leb_spec",
    # the standard library's specification of the primitive binary64 ARITHMETIC and of the float <-> spec_float
    # conversion, all declared in Coq's theories/Floats/FloatAxioms.v; Flocq's bridge Flocq.IEEE754.PrimFloat
    # (add_equiv / sub_equiv / opp_equiv / is_finite_equiv, Prim2B / B2Prim) rests on exactly these.  Used only by the
    # binary64 rounding-error theorems of Proofs/RoundSum.v (C11 (R1)-(R4), C06 (13)-(17)).  Flocq itself declares no axiom.
    "FloatAxioms.Prim2SF_valid",
    "FloatAxioms.SF2Prim_Prim2SF",
    "FloatAxioms.Prim2SF_SF2Prim",
    "FloatAxioms.add_spec",
    "FloatAxioms.sub_spec",
    "FloatAxioms.opp_spec",
    "FloatAxioms.abs_spec",
    # the standard library's specification of the primitive binary64 MULTIPLICATION and of `of_uint63` (usize as f64),
    # same file; used only by the binary64 quantile index law of Proofs/QIdxFloat.v (C12 / C10 / C08 ..._binary64)
    "FloatAxioms.mul_spec",
    "FloatAxioms.of_uint63_spec",
    # the standard library's specification of the primitive binary64 DIVISION, same file; used only by the binary64
    # error bounds of the means in Proofs/RoundMean.v (C11 (R6)-(R8), C01 ts_vmean_binary64, C06 (18))
    "FloatAxioms.div_spec",
}
# primitive types / operations that `Print Assumptions` lists next to axioms ("native int/float primitives are not yours")
PRIMITIVE_PREFIXES = ("PrimFloat.", "PrimInt63.", "PrimArray.", "Uint63.", "Sint63.")
FORBIDDEN = re.compile(
    r"\b(Admitted|admit|Axiom|Axioms|Parameter|Parameters|Conjecture|Conjectures|Admit Obligations|"
    r"Unset Guard Checking|Unset Positivity Checking|Unset Universe Checking|bypass_check|"
    r"type-in-type|impredicative-set)\b")

def log(*a):
    print(*a, file=sys.stderr, flush=True)

def sh(cmd, cwd=None, timeout=None, env=None):
    e = dict(os.environ)
    e["CARGO_NET_OFFLINE"] = "true"
    if env: e.update(env)
    try:
        p = subprocess.run(cmd, cwd=cwd, timeout=timeout, env=e, stdout=subprocess.PIPE,
                           stderr=subprocess.STDOUT, text=True, errors="replace")
        return p.returncode, p.stdout
    except subprocess.TimeoutExpired as ex:
        out = ex.stdout or ""
        if isinstance(out, bytes): out = out.decode("utf8", "replace")
        return 124, out + "\n[timeout after %ss]" % timeout

class Lock:
    def __init__(self, name):
        os.makedirs(BUILD, exist_ok=True)
        self.path = os.path.join(BUILD, name)
    def __enter__(self):
        self.f = open(self.path, "w")
        fcntl.flock(self.f, fcntl.LOCK_EX)
    def __exit__(self, *a):
        fcntl.flock(self.f, fcntl.LOCK_UN)
        self.f.close()

# --------------------------------------------------------------------------- Coq side

def coq_sources():
    out = []
    for d, _, fs in os.walk(COQ):
        for f in fs:
            if f.endswith(".v") and not f.startswith("cases_"):
                out.append(os.path.join(d, f))
    return sorted(out)

def audit_sources():
    """grep for anything that would declare an axiom or switch a check off"""
    bad = []
    for p in coq_sources():
        txt = open(p).read()
        # strip comments (non-nested is enough: the development does not nest them around code)
        stripped = re.sub(r"\(\*.*?\*\)", " ", txt, flags=re.S)
        for m in FORBIDDEN.finditer(stripped):
            bad.append("%s: %s" % (os.path.relpath(p, ROOT), m.group(0)))
        # Variable/Hypothesis/Context outside a section
        depth = 0
        for line in stripped.split("\n"):
            s = line.strip()
            if re.match(r"(Section|Module)\b", s): depth += 1
            elif re.match(r"End\b", s): depth = max(0, depth - 1)
            elif depth == 0 and re.match(r"(Variable|Variables|Hypothesis|Hypotheses|Context)\b", s):
                bad.append("%s: %s outside a section" % (os.path.relpath(p, ROOT), s.split()[0]))
    return bad

def make_targets(targets, timeout=1500):
    with Lock("coq.lock"):
        # regenerate _CoqProject/Makefile when the set of .v files changed
        listing = "\n".join(os.path.relpath(p, COQ) for p in coq_sources())
        stamp = os.path.join(BUILD, "vfiles.list")
        old = open(stamp).read() if os.path.exists(stamp) else None
        if old != listing or not os.path.exists(os.path.join(COQ, "Makefile")):
            rc, out = sh([os.path.join(ROOT, "tools", "gen_coqproject.sh")])
            if rc != 0: return rc, out
            open(stamp, "w").write(listing)
        return sh(["make", "-j16"] + targets, cwd=COQ, timeout=timeout)

def theorems_of(prop):
    src = open(os.path.join(COQ, "Props", prop + ".v")).read()
    src = re.sub(r"\(\*.*?\*\)", " ", src, flags=re.S)
    return re.findall(r"^\s*(?:Theorem|Corollary)\s+([A-Za-z0-9_']+)", src, flags=re.M)

def print_assumptions(prop, thms, rundir):
    """one coqc run: Print Assumptions for every theorem of Props/<prop>.v"""
    path = os.path.join(rundir, "assum_%s.v" % prop)
    with open(path, "w") as f:
        f.write("From Tevec Require Import Props.%s.\n" % prop)
        for t in thms:
            f.write('Goal True. idtac "@@THM %s". exact I. Qed.\nPrint Assumptions %s.\n' % (t, t))
    rc, out = sh(["coqc", "-noglob", "-Q", COQ, "Tevec", path], timeout=600)
    res, cur = {}, None
    if rc != 0:
        return None, out
    for line in out.split("\n"):
        m = re.match(r"@@THM (\S+)", line)
        if m:
            cur = m.group(1); res[cur] = []
            continue
        if cur is None: continue
        m = re.match(r"^([A-Za-z_][A-Za-z0-9_.']*)\s*(:|$)", line)
        if m and not line.startswith(" ") and m.group(1) not in ("Axioms", "Closed"):
            if not m.group(1).startswith(PRIMITIVE_PREFIXES):
                res[cur].append(m.group(1))
    return res, out

def requested_tier_is_thorough(tier, only):
    return tier == "thorough" and only is None and os.environ.get("VERIF_NO_COQCHK") != "1"

def coqchk(prop):
    """coqchk re-checks Props/<prop>.vo and everything it depends on with the independent checker; -o lists the axioms
    of the whole context.  Accepted: the allow-list (by final identifier), nothing about type-in-type / unsafe fixpoints /
    assumed positivity."""
    rc, out = sh(["coqchk", "-o", "-silent", "-Q", COQ, "Tevec", "Tevec.Props.%s" % prop], timeout=3000)
    if rc != 0:
        return False, [], out
    axioms, mode, clean = [], None, True
    for line in out.split("\n"):
        m = re.match(r"\* (Axioms|Constants/Inductives relying on type-in-type|Constants/Inductives relying on unsafe "
                     r"\(co\)fixpoints|Inductives whose positivity is assumed):\s*(.*)", line)
        if m:
            mode = m.group(1)
            if m.group(2).strip() not in ("", "<none>") and mode != "Axioms": clean = False
            continue
        if line.startswith("* "): mode = None; continue
        t = line.strip()
        if not t or mode is None: continue
        if mode == "Axioms":
            if t != "<none>": axioms.append(t)
        else:
            clean = False
    # `coqchk -o` lists the axioms of EVERY library in the closure (e.g. all of Floats/FloatAxioms.v and the Uint63 axioms as
    # soon as PrimFloat is loaded for a vm_compute Example), whether or not a theorem uses them — the per-theorem gate is
    # `Print Assumptions` above.  Here the criterion is the brief's: none declared by this development, i.e. every axiom /
    # primitive belongs to the Coq standard library's namespace.
    ok = clean and all(a.startswith("Coq.") for a in axioms)
    return ok, axioms, out

# --------------------------------------------------------------------------- harness side

def build_harness(binname, release=False, hdir=HARNESS, target=TARGET):
    """hdir/target: the harness crate to build from and its cargo target directory (default: harness/ into
    .build/target; the Polars crate harness-pl/ goes into .build/target-pl)"""
    with Lock("cargo.lock" if hdir == HARNESS else "cargo-%s.lock" % os.path.basename(hdir)):
        lock = os.path.join(hdir, "Cargo.lock")
        # the repo's lock file pins the versions that are in the offline registry cache (polars 0.46 ...); a work
        # tree of the repo has no lock file of its own (it is git-ignored there), the main checkout has
        srcs = [os.path.join(REPO, "Cargo.lock")] + (["/repo/Cargo.lock"] if hdir != HARNESS else [])
        src = next((x for x in srcs if os.path.exists(x)), None)
        if not os.path.exists(lock) and src:
            shutil.copy(src, lock)
        cmd = ["cargo", "build", "--offline", "--bin", binname] + (["--release"] if release else [])
        rc, out = sh(cmd, cwd=hdir, timeout=1500,
                     env={"RUSTFLAGS": "--cfg tevec_verif", "CARGO_TARGET_DIR": target})
        return rc, out, os.path.join(target, "release" if release else "debug", binname)

def run_harness(binpath, seed, tier, only=None):
    """runs the harness binary; restarts after a case that aborts the process (non-unwinding panic,
    segfault).  Returns (cases, aborts) where aborts = [(id, desc, how)]."""
    cases, aborts = [], []
    start, total = 0, None
    while True:
        cmd = [binpath, "--seed", str(seed), "--tier", tier, "--from", str(start)]
        if only is not None: cmd += ["--only", str(only)]
        # a case that never returns (a loop that no longer terminates) must not stall the check: the harness process gets a
        # time limit; what it printed so far is kept, the case it was in is recorded as a hang and the run resumes after it
        limit = int(os.environ.get("VERIF_HARNESS_TIMEOUT", "900" if tier == "thorough" else "420"))
        try:
            p = subprocess.run(cmd, stdout=subprocess.PIPE, stderr=subprocess.PIPE, timeout=limit)
        except subprocess.TimeoutExpired as ex:
            class _P: pass
            p = _P(); p.stdout = ex.stdout or b""; p.stderr = (ex.stderr or b"") + b"\n[harness killed after %d s: the case did not return]" % limit
            p.returncode = -9
        pending = None
        out = p.stdout.decode("utf8", "replace")
        for line in out.split("\n"):
            if line.startswith("BEGIN\t"):
                _, cid, desc = line.split("\t", 2)
                pending = (int(cid), desc)
            elif line.startswith("CASE\t"):
                f = line.split("\t")
                if len(f) < 7: continue
                cases.append(dict(id=int(f[1]), cmp=f[2], tags=f[3], desc=f[4], term=f[5],
                                  impl=[int(x) for x in f[6].split()]))
                pending = None
            elif line.startswith("END\t"):
                total = int(line.split("\t")[1])
        if p.returncode == 0 and total is not None:
            break
        if pending is None:
            aborts.append((-1, "harness died outside a case: rc=%s stderr=%s" %
                           (p.returncode, p.stderr.decode("utf8", "replace")[-2000:]), "crash"))
            break
        how = "signal %d" % -p.returncode if p.returncode < 0 else "exit %d" % p.returncode
        aborts.append((pending[0], pending[1], how + ": " + p.stderr.decode("utf8", "replace")[-600:]))
        if only is not None: break
        # a handful of aborting / hanging cases is enough to report; resuming after each of hundreds would take hours
        if len(aborts) >= int(os.environ.get("VERIF_MAX_ABORTS", "6")):
            aborts.append((-1, "stopped resuming after %d aborted / hanging cases (cases after id %d were not run)" %
                           (len(aborts), pending[0]), "limit"))
            break
        start = pending[0] + 1
    return cases, aborts

# --------------------------------------------------------------------------- model evaluation

def eval_terms(prop, terms, rundir, imports):
    """evaluate distinct Gallina terms (each : list Z) with vm_compute, sharded over 16 coqc runs"""
    uniq = list(dict.fromkeys(terms))
    # at most 16 evaluators at a time, and at most ~3000 terms per evaluator: the memory of one coqc grows with its batch, and a
    # thorough run of 400 k terms in 16 batches was killed for lack of memory on a loaded machine (more, smaller batches instead)
    nshards = max(1, min(16, (len(uniq) + 39) // 40), (len(uniq) + 2999) // 3000)
    shards = [uniq[i::nshards] for i in range(nshards)]
    def one(k):
        k, res, out = one_terms(k, shards[k], "")
        if res is None and "Error" not in out:
            # the evaluator died without a Coq error (killed under memory pressure / timed out on a loaded machine): an
            # infrastructure failure, not a disagreement - evaluate the same terms again in four smaller pieces, one after the other
            parts, acc = [shards[k][i::4] for i in range(4)], {}
            for j, part in enumerate(parts):
                if not part: continue
                _, r, o = one_terms(k, part, "_retry%d" % j)
                if r is None:
                    return k, None, "shard %d (retried in 4 pieces, piece %d failed again)\n%s" % (k, j, o[-3000:])
                acc.update(zip(part, r))
            return k, [acc[t] for t in shards[k]], "retried"
        return k, res, out
    def one_terms(k, terms_k, suffix):
        path = os.path.join(rundir, "cases_%s_%d%s.v" % (prop, k, suffix))
        with open(path, "w") as f:
            f.write("From Coq Require Import ZArith List Floats.\nImport ListNotations.\n")
            for imp in imports:
                f.write("From Tevec Require Import %s.\n" % imp)
            f.write("Set Printing Width 100000000.\nSet Printing Depth 100000000.\nOpen Scope Z_scope.\n")
            f.write("Definition batch : list (list Z) := [\n")
            f.write(";\n".join(terms_k))
            f.write("].\nEval vm_compute in batch.\n")
        rc, out = sh(["coqc", "-noglob", "-Q", COQ, "Tevec", path], timeout=2400)
        if rc != 0:
            return k, None, out
        m = re.search(r"=\s*(\[.*\])\s*:\s*list \(list Z\)", out, flags=re.S)
        if not m:
            return k, None, out
        body = m.group(1)
        res = []
        for inner in re.findall(r"\[([^\[\]]*)\]", body[1:-1]):
            res.append([int(x) for x in re.findall(r"-?\d+", inner)])
        if len(res) != len(terms_k):
            return k, None, "Error: shard %d: %d results for %d terms\n%s" % (k, len(res), len(terms_k), out[:2000])
        return k, res, out
    results = {}
    with concurrent.futures.ThreadPoolExecutor(max_workers=16) as ex:
        for k, res, out in ex.map(one, range(nshards)):
            if res is None:
                return None, out
            for t, r in zip(shards[k], res):
                results[t] = r
    return results, ""

# --------------------------------------------------------------------------- comparison

def cells_of(flat):
    return [tuple(flat[i:i + 3]) for i in range(0, len(flat) - len(flat) % 3, 3)]

def fval(c):
    t, a, b = c
    if t == 0: return Fraction(a)
    if t == 1: return Fraction(a) * (Fraction(2) ** b)
    return None

def canon(c):
    """canonical form for exact comparison: value for numbers, tag otherwise; NaN == null"""
    t, a, b = c
    if t == 1:
        return ("num", fval(c))
    if t == 0:
        return ("int", a)
    if t == 5:
        return ("panic", a)
    return ("tag", t)

def close(x, y, rtol, scale):
    if x == y: return True
    fx, fy = float(x), float(y)
    return abs(fx - fy) <= rtol * max(1.0, abs(fx), abs(fy), scale)

def compare(cmp, impl, model):
    """returns None when they agree, else a short reason.  `model` may contain known-finding cells
    (tag 8), which are stripped by the caller."""
    ci, cm = cells_of(impl), cells_of(model)
    kind, _, arg = cmp.partition(":")
    if kind == "anyok":
        # totality: implementation must not have panicked / aborted (cells are whatever)
        return "implementation panicked" if any(c[0] == 5 for c in ci) else None
    if len(ci) != len(cm):
        return "length: impl %d cells, model %d cells" % (len(ci), len(cm))
    if kind == "exact":
        for k, (a, b) in enumerate(zip(ci, cm)):
            if canon(a) != canon(b):
                # int vs integral float are the same number
                if a[0] in (0, 1) and b[0] in (0, 1) and fval(a) == fval(b): continue
                return "cell %d: impl %s, model %s" % (k, a, b)
        return None
    if kind in ("float", "mask"):
        parts = arg.split(",") if arg else []
        rtol = float(parts[0]) if parts and parts[0] else 1e-9
        scale = float(parts[1]) if len(parts) > 1 else 0.0
        for k, (a, b) in enumerate(zip(ci, cm)):
            na, nb = a[0] in (0, 1), b[0] in (0, 1)
            if na != nb or (not na and canon(a) != canon(b)):
                # +-inf in the implementation where the model divides by zero exactly: DESIGN 5.6
                return "cell %d: impl %s, model %s" % (k, a, b)
            if na and kind == "float":
                if a[0] == 0 and b[0] == 0:
                    if a[1] != b[1]: return "cell %d: impl %s, model %s" % (k, a, b)
                elif not close(fval(a), fval(b), rtol, scale):
                    return "cell %d: impl %r, model %r (rtol %g)" % (k, float(fval(a)), float(fval(b)), rtol)
        return None
    return "unknown comparator " + cmp

def strip_known(model):
    cm = cells_of(model)
    known = [c[1] for c in cm if c[0] == 8]
    flat = []
    for c in cm:
        if c[0] != 8: flat.extend(c)
    return flat, known

# --------------------------------------------------------------------------- known findings

def load_known():
    import glob
    res = collections.defaultdict(dict)
    paths = [os.path.join(ROOT, "KNOWN_FINDINGS")] + sorted(glob.glob(os.path.join(ROOT, "KNOWN_FINDINGS.d", "*")))
    for path in paths:
        if not os.path.isfile(path): continue
        for line in open(path):
            line = line.strip()
            m = re.match(r"finding:\s+property=(\S+)\s+class=(\d+)\s+(.*)", line)
            if m:
                res[m.group(1)][int(m.group(2))] = m.group(3)
    return res

# --------------------------------------------------------------------------- evidence / replay

def write_replay(prop, name, obj):
    d = os.path.join(ROOT, "replays")
    os.makedirs(d, exist_ok=True)
    path = os.path.join(d, "%s-%s.json" % (prop, name))
    json.dump(obj, open(path, "w"), indent=1)
    return path

def write_evidence(prop, ev):
    d = os.path.join(ROOT, "evidence")
    os.makedirs(d, exist_ok=True)
    json.dump(ev, open(os.path.join(d, prop + ".json"), "w"), indent=1)

def histogram(cases):
    h = collections.defaultdict(collections.Counter)
    for c in cases:
        for kv in c["tags"].split():
            k, _, v = kv.partition("=")
            h[k][v] += 1
    return {k: dict(v.most_common(24)) for k, v in h.items()}

# --------------------------------------------------------------------------- main check

def check(prop, tier, seed, only=None, only_bin=None):
    t0 = time.time()
    cfg = PROPS.PROPS[prop]
    rundir = os.path.join(BUILD, "run", "%s-%d" % (prop, os.getpid()))
    os.makedirs(rundir, exist_ok=True)
    violations, known_lines = [], []
    ev = dict(property_id=prop, tier=tier, seed=seed, level="proof", coverage={}, assumptions=[],
              wall_s=0.0, violations=0)
    cov = ev["coverage"]

    # ---- 1. proofs --------------------------------------------------------------
    bad = audit_sources()
    thms = theorems_of(prop)
    targets = ["Props/%s.vo" % prop] + ["%s.vo" % m.replace(".", "/") for m in cfg["imports"]]
    # second tie (translator): tables regenerated from the Rust source text, conformance theorems re-checked
    gen_note = None
    translator_unavailable = False
    if cfg.get("src_tables"):
        grc, gout = sh([sys.executable, os.path.join(ROOT, "tools", "gen_tables.py")], env={"TEVEC_REPO": REPO})
        gen_note = gout.strip()
        # which conformance file(s) re-check the generated tables for this property (default: the tea-time tables;
        # C05 / C06 name Proofs/SrcTablesRoll.vo, the rolling-family min_periods shapes)
        # exit 3: some family groups could not be translated (they keep their last translatable text), the others were; only a
        # property whose conformance files read an unavailable group loses its static tie
        proofs = cfg.get("src_tables_proofs", ["Proofs/SrcTablesOk.vo"])
        needs = set()
        for pf in proofs:
            b = os.path.basename(pf)
            needs |= ({"time"} if b.startswith("SrcTablesOk") else {"roll"} if b.startswith("SrcTablesRoll") else
                      {"agg"} if b.startswith("SrcTablesAgg") else {"drv"} if b.startswith("SrcTablesDrv") else
                      {"map", "agg"} if b.startswith("SrcTablesMap") else set(TABLE_GROUPS))
        unavailable = set()
        if grc == 3:
            m = re.search(r"UNAVAILABLE groups: ([\w,]+):", gout)
            unavailable = set(m.group(1).split(",")) if m else set(TABLE_GROUPS)
        if grc == 0 or (grc == 3 and not (unavailable & needs)):
            targets.extend(proofs)
            if grc == 3: gen_note = "groups %s unavailable, not read by this property; " % ",".join(sorted(unavailable)) + gout.strip()[-200:]
        else:
            # the source no longer has a shape the (deliberately tiny) translator recognises.  That is not evidence of a
            # defect — a helper function introduced by a refactoring is enough — and the translator is a SUPPLEMENTARY tie: the
            # generated file keeps its last translatable content, the static tie is recorded as unavailable, and the
            # behavioural correspondence (which decides the property) is run at the thorough sizes instead.  A table that IS
            # recognised but differs from the model's still breaks Proofs/SrcTables*.v, i.e. a proof obligation.
            translator_unavailable = True
            gen_note = "UNAVAILABLE (source shape not recognised; static tie skipped, correspondence escalated): " + gout.strip()[-300:]
    rc, out = make_targets(targets)
    if cfg.get("src_tables"): cov.update(source_table_translator=gen_note or "coq/Gen/SrcTables.v unchanged (tables identical to the last run)")
    proof_ok = rc == 0 and not bad
    assum = {}
    if rc == 0:
        assum, aout = print_assumptions(prop, thms, rundir)
        if assum is None:
            proof_ok = False; assum = {}; out += "\n" + aout
    discharged, axioms_seen = 0, set()
    for t in thms:
        if t in assum and all(a in ALLOWED_AXIOMS for a in assum[t]):
            discharged += 1
        axioms_seen.update(assum.get(t, []))
    if discharged != len(thms): proof_ok = False
    cov.update(obligations=len(thms), discharged=discharged if not bad else 0,
               checker_cmd="make -C coq Props/%s.vo (coqc 8.16.1, full .vo) ; Print Assumptions on each theorem; "
                           "source audit for Admitted/Axiom/Parameter/unset checks" % prop,
               theorems=thms, axioms_used=sorted(axioms_seen),
               trusted_base=PROPS.TRUSTED_COMMON + cfg.get("trusted", []))
    # thorough tier: independent re-check of the compiled proofs with coqchk, and its own list of axioms
    if proof_ok and requested_tier_is_thorough(tier, only):
        ok, axioms, clog = coqchk(prop)
        cov.update(coqchk=dict(cmd="coqchk -o -silent -Q coq Tevec Tevec.Props.%s" % prop, ok=ok, axioms=axioms))
        if not ok:
            proof_ok = False; out += "\n[coqchk]\n" + clog[-3000:]
    if not proof_ok:
        path = write_replay(prop, "broken-proof", dict(property=prop, step="proof",
                            theorems_not_checked=[t for t in thms if t not in assum or
                                                  any(a not in ALLOWED_AXIOMS for a in assum.get(t, []))],
                            audit=bad, log=out[-6000:]))
        violations.append((path, "no-failing-input-found"))

    # ---- 1b. has the anchored Rust text moved since the model was written?  then compare as deeply as we can
    drifted = ANCHORS.drift(prop, REPO)
    requested_tier = tier
    # the models are pure functions of their arguments: state that outlives a call (seed C17-4: a thread-local memo) is outside
    # them.  Not a violation by itself (a correct cache keeps every property), but the run is then as deep as we can make it.
    stateful = ANCHORS.mutable_statics(REPO)
    if stateful:
        log("[%s] the library now declares state that outlives a call (%s): the models are stateless" % (prop, "; ".join(stateful[:4])))
    cov.update(library_state_outliving_a_call=stateful)
    if (drifted or translator_unavailable or stateful) and tier == "quick" and only is None and os.environ.get("VERIF_NO_ESCALATE") != "1":
        tier = "thorough"
        log("[%s] anchored source differs from the baseline in %d place(s) (%s%s)%s: escalating the correspondence run to "
            "the thorough generators" % (prop, len(drifted), ", ".join(drifted[:4]), " ..." if len(drifted) > 4 else "",
                                         " and holds state" if stateful else ""))
    cov.update(source_drift=drifted, correspondence_tier=tier,
               anchored_functions_not_named_by_any_harness=ANCHORS.not_named(prop, REPO))

    # ---- 2. harness from the current /repo tree ------------------------------------
    all_cases, all_aborts, build_fail = [], [], None
    pl_bins = cfg.get("bins_thorough_pl", [])      # built from harness-pl/ (polars feature), thorough tier only
    # (the Polars crate builds in under a minute from cold, `./check --setup` pre-builds it: it runs in both tiers)
    bins = (cfg["bins"] + pl_bins) if only_bin is None else [only_bin]
    modes = [False] + ([True] if tier == "thorough" and cfg.get("release", False) else [])
    for b in bins:
        for rel in modes:
            if b in pl_bins:
                if rel: continue
                tb = time.time()
                rc, out, binpath = build_harness(b, hdir=HARNESS_PL, target=TARGET_PL)
                cov.setdefault("polars_harness_build_s", {})[b] = round(time.time() - tb, 1)
            else:
                rc, out, binpath = build_harness(b, release=rel)
            if rc != 0:
                build_fail = (b, out[-8000:]); break
            cases, aborts = run_harness(binpath, seed, tier, only=only)
            for c in cases:
                c["bin"] = b; c["release"] = rel
            all_cases += cases
            all_aborts += [(b, rel) + a for a in aborts]
        if build_fail: break
    if build_fail:
        path = write_replay(prop, "broken-harness", dict(property=prop, step="correspondence: cargo build --bin " +
                            build_fail[0], log=build_fail[1],
                            note="the harness no longer compiles against /repo; the model cannot be tied to the code"))
        violations.append((path, "no-failing-input-found"))

    # ---- 3. model evaluation --------------------------------------------------------
    model, mismatches = {}, []
    if all_cases:
        model, err = eval_terms(prop, [c["term"] for c in all_cases], rundir, cfg["imports"] + ["Run.Codec"])
        if model is None:
            path = write_replay(prop, "broken-model-run", dict(property=prop, step="model evaluation (coqc)",
                                log=err[-6000:]))
            violations.append((path, "no-failing-input-found"))
            model = {}
    # ---- 4. comparison ----------------------------------------------------------------
    known = load_known().get(prop, {})
    known_hit = collections.Counter()
    compared = 0
    nontrivial = set()
    for c in all_cases:
        if c["term"] not in model: continue
        mflat, kclasses = strip_known(model[c["term"]])
        compared += 1
        if prop in PROPS.COMPARATORS and c["cmp"].startswith("custom"):
            why = PROPS.COMPARATORS[prop](c["cmp"], cells_of(c["impl"]), cells_of(mflat))
        else:
            why = compare(c["cmp"], c["impl"], mflat)
        if "nt=0" not in c["tags"].split():
            nontrivial.add(hashlib.sha1((c["desc"]).encode()).hexdigest())
        if why is None: continue
        listed = [k for k in kclasses if k in known]
        if listed:
            known_hit[listed[0]] += 1
            continue
        mismatches.append((c, why, mflat))
    for (b, rel, cid, desc, how) in all_aborts:
        mismatches.append((dict(id=cid, desc=desc, bin=b, release=rel, cmp="abort", term="", impl=[], tags=""),
                           "process aborted: " + how, []))
    for k, n in known_hit.items():
        known_lines.append("KNOWN-FINDING: property=%s %s (%d cases this run)" % (prop, known[k], n))
    # group mismatches by function tag to keep the report readable; one replay each (first 5)
    seen_groups = set()
    # "shrinking by selection": the generators enumerate small scopes exhaustively, so among the failing cases of a
    # function there is usually a minimal one already — report the shortest description first
    for (c, why, mflat) in sorted(mismatches, key=lambda m: (len(m[0]["desc"]), m[0]["id"])):
        g = re.search(r"(?:fn|kind)=(\S+)", c.get("tags", "") + " " + c["desc"])
        g = g.group(1) if g else "?"
        if g in seen_groups: continue
        seen_groups.add(g)
        h = hashlib.sha1(c["desc"].encode()).hexdigest()[:10]
        path = write_replay(prop, h, dict(property=prop, bin=c["bin"], release=c.get("release", False),
                            seed=seed, tier=tier, case_id=c["id"], case=c["desc"], comparator=c["cmp"],
                            why=why, impl_cells=c["impl"], model_cells=mflat, model_term=c["term"],
                            contradicts=cfg.get("theorem_hint", "Props/%s.v" % prop),
                            replay="./check --replay " + os.path.join("replays", "%s-%s.json" % (prop, h))))
        violations.append((path, ""))
        if len(seen_groups) >= 8: break

    # ---- 4b. how informative were the cases?  (a generator that only produces all-null results cannot tell a
    # correct implementation from a wrong one — measured per function tag and recorded in the evidence)
    info = collections.defaultdict(lambda: [0, 0])
    for c in all_cases:
        if "nt=0" in c["tags"].split(): continue
        g = re.search(r"(?:fn|kind|op)=(\S+)", c["tags"])
        g = g.group(1) if g else "(all)"
        info[g][0] += 1
        if not any(t in (0, 1) for t in c["impl"][0::3]): info[g][1] += 1
    uninformative = {g: round(b / a, 3) for g, (a, b) in sorted(info.items()) if a and b / a > 0.5}
    informative = {g: a - b for g, (a, b) in sorted(info.items())}
    # ---- 5. evidence ---------------------------------------------------------------------
    samples = [dict(case=c["desc"][:400], comparator=c["cmp"]) for c in all_cases[:: max(1, len(all_cases) // 5)][:5]]
    cov.update(evaluations=compared, distinct_nontrivial=len(nontrivial),
               rule=cfg["rule"], samples=samples + [dict(theorem=t) for t in thms[:3]],
               exhaustive=bool(cfg.get("exhaustive", False)),
               input_distribution=histogram(all_cases),
               distinct_model_terms=len(model), mismatches=len(mismatches),
               known_finding_hits={str(k): v for k, v in known_hit.items()},
               share_of_cases_without_any_numeric_output_cell_where_above_half=uninformative,
               cases_with_a_numeric_output_cell_per_function=informative,
               aborts=len(all_aborts))
    ev["assumptions"] = PROPS.ASSUMPTIONS_COMMON + cfg.get("assumptions", [])
    ev["violations"] = len(violations)
    ev["wall_s"] = round(time.time() - t0, 2)
    if only is None:      # a replay of one case must not overwrite the evidence of the last full run
        write_evidence(prop, ev)
    shutil.rmtree(rundir, ignore_errors=True)
    # a broken proof / harness / model run is reported with `no-failing-input-found` only when the correspondence run did
    # not find a concrete failing input; when it did, those replays are the report (and name the broken step)
    concrete = [v for v in violations if not v[1]]
    if concrete:
        broken = [os.path.relpath(v[0], ROOT) for v in violations if v[1]]
        if broken:
            for (path, _) in concrete:
                try:
                    r = json.load(open(path)); r["also_broken"] = broken; json.dump(r, open(path, "w"), indent=1)
                except Exception:
                    pass
        violations = concrete
    for l in known_lines: print(l)
    for (path, suffix) in violations:
        print(("VIOLATION property=%s replay=%s %s" % (prop, os.path.relpath(path, ROOT), suffix)).rstrip())
    log("[%s %s] theorems %d/%d, cases %d (distinct model terms %d), mismatches %d, %.1fs" %
        (prop, tier, discharged, len(thms), compared, len(model), len(mismatches), time.time() - t0))
    return 1 if violations else 0

def setup():
    sh([sys.executable, os.path.join(ROOT, "tools", "gen_tables.py")], env={"TEVEC_REPO": REPO})
    rc, out = sh([os.path.join(ROOT, "tools", "gen_coqproject.sh")])
    if rc != 0:
        print(out); return 1
    rc, out = sh(["make", "-j16"], cwd=COQ, timeout=3000)
    print(out[-3000:])
    if rc != 0: return 1
    with Lock("cargo.lock"):
        shutil.copy(os.path.join(REPO, "Cargo.lock"), os.path.join(HARNESS, "Cargo.lock"))
        rc, out = sh(["cargo", "build", "--offline", "--bins"], cwd=HARNESS, timeout=3000,
                     env={"RUSTFLAGS": "--cfg tevec_verif", "CARGO_TARGET_DIR": TARGET})
    print(out[-3000:])
    if rc != 0: return 1
    for b in ("c02pl", "c07pl"):
        rc, out, _ = build_harness(b, hdir=HARNESS_PL, target=TARGET_PL)
        if rc != 0: break
    print(out[-2000:])
    return 0 if rc == 0 else 1

def main(argv):
    tier = os.environ.get("VERIF_TIER", "quick")
    seed = int(os.environ.get("VERIF_SEED", "1"))
    if "--setup" in argv:
        return setup()
    if "--tier" in argv:
        tier = argv[argv.index("--tier") + 1]
    if "--replay" in argv:
        r = json.load(open(argv[argv.index("--replay") + 1]))
        if "case_id" not in r:
            # a broken-proof / broken-harness replay: just re-run the whole check
            return check(r["property"], tier, seed)
        return check(r["property"], r.get("tier", tier), r.get("seed", seed), only=r["case_id"], only_bin=r["bin"])
    prop = [a for a in argv if re.match(r"C\d+$", a)]
    if not prop:
        print(__doc__); return 2
    return check(prop[0], tier, seed)
