#!/bin/sh
# regenerate coq/_CoqProject (all tracked .v files except generated case files) and the Makefile
cd "$(dirname "$0")/../coq" || exit 1
{
  echo "-Q . Tevec"
  echo "-arg -w -arg -notation-overridden,-deprecated-hint-without-locality,-deprecated-instance-without-locality,-deprecated-hint-rewrite-without-locality"
  find Base Spec Model Gen Proofs Props Run -name '*.v' ! -name 'cases_*' | LC_ALL=C sort
  [ -f Findings.v ] && echo Findings.v
} > _CoqProject
coq_makefile -f _CoqProject -o Makefile >/dev/null
