#!/bin/sh
# tools/refresh_evidence.sh [props...]: re-run the quick checks on the (clean) /repo tree so that the committed evidence
# files describe exactly what a fresh quick run does
cd /verif
git -C /repo status --short | grep -q . && { echo "/repo not clean"; exit 1; }
PROPS="$@"; [ -z "$PROPS" ] && PROPS="C01 C02 C03 C04 C05 C06 C07 C08 C09 C10 C11 C12 C13 C14 C15 C16 C17 C18 C19 C20"
for p in $PROPS; do VERIF_SEED=1 timeout 3000 ./check $p --tier quick 2>&1 | grep -E "VIOLATION|^\[C" ; done
python3 tools/gen_manifest.py >/dev/null && python3-vt tools/validate.py | tail -1
