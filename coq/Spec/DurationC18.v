(* Spec/DurationC18.v — the language of well-formed duration strings and what they denote:
   a sequence of terms  sign? digit+ unit ; months and years go to the month count, the other
   units to the fixed part.  Specification only (no reference to the scanner).               *)
From Coq Require Import List ZArith Bool.
From Tevec Require Import Base.Prelude Model.Parse.
Import ListNotations.
Local Open Scope Z_scope.

(* t_sign: None = no sign, Some false = '+', Some true = '-' ; t_digits: the digit characters *)
Record term := mk_term { t_sign : option bool; t_digits : str; t_unit : unit_kind }.

Definition sign_str (o : option bool) : str :=
  match o with None => [] | Some true => [45] | Some false => [43] end.

Definition render_term (t : term) : str := sign_str (t_sign t) ++ t_digits t ++ unit_str (t_unit t).
Definition render_terms (ts : list term) : str := flat_map render_term ts.

Definition wf_term (t : term) : Prop :=
  t_digits t <> [] /\ Forall (fun c => is_digit c = true) (t_digits t).

(* decimal value of a digit string *)
Definition dval (ds : str) : Z := fold_left (fun a c => a * 10 + (c - 48)) ds 0.

Definition tval (t : term) : Z :=
  match t_sign t with Some true => - dval (t_digits t) | _ => dval (t_digits t) end.

(* contribution of a term to the month count / the seconds / the nanoseconds *)
Definition t_months (t : term) : Z :=
  match t_unit t with Umo => tval t | Uy => tval t * 12 | _ => 0 end.
Definition t_secs (t : term) : Z :=
  match t_unit t with
  | Us => tval t | Um => tval t * 60 | Uh => tval t * 3600 | Ud => tval t * 86400 | Uw => tval t * 604800
  | _ => 0 end.
Definition t_nsecs (t : term) : Z :=
  match t_unit t with Uns => tval t | Uus => tval t * 1000 | Ums => tval t * 1000000 | _ => 0 end.

Definition sumf (f : term -> Z) (ts : list term) : Z := fold_right (fun t a => f t + a) 0 ts.

(* the fixed part in nanoseconds *)
Definition fixed_ns (ts : list term) : Z := sumf t_secs ts * giga + sumf t_nsecs ts.

(* ranges: every number fits an i64 (an i32 for months/years, also after * 12), every product
   n * unit fits an i64 *)
Definition term_in_range (t : term) : Prop :=
  in_i64 (tval t) = true /\ in_i64 (t_secs t) = true /\ in_i64 (t_nsecs t) = true /\
  in_i32 (t_months t) = true /\
  match t_unit t with Umo | Uy => in_i32 (tval t) = true | _ => True end.

(* the running sums of every prefix fit their accumulators (nsecs, secs : i64; months : i32) *)
Definition partial_sums_in_range (ts : list term) : Prop :=
  forall k, (k <= length ts)%nat ->
    in_i32 (sumf t_months (firstn k ts)) = true /\
    in_i64 (sumf t_secs (firstn k ts)) = true /\
    in_i64 (sumf t_nsecs (firstn k ts)) = true.

(* the total is a chrono Duration: |secs| <= i64::MAX / 1000 and |total| <= i64::MAX milliseconds *)
Definition total_in_range (ts : list term) : Prop :=
  - cr_max_secs <= sumf t_secs ts <= cr_max_secs /\
  - (i64_max * 1000000) <= fixed_ns ts <= i64_max * 1000000.
