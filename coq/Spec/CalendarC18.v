(* Spec/CalendarC18.v — a small self-contained proleptic Gregorian calendar (days since 1970-01-01
   <-> year/month/day), used by the date-time text model of C18.  Definitions only; the inverse
   laws are proved in Proofs/ParseDT.v.  (Independent of Spec/Calendar.v of C16/C17.)            *)
From Coq Require Import ZArith Bool.
Local Open Scope Z_scope.

Definition is_leap (y : Z) : bool :=
  (y mod 4 =? 0) && (negb (y mod 100 =? 0) || (y mod 400 =? 0)).

Definition days_in_month (y m : Z) : Z :=
  if m =? 2 then (if is_leap y then 29 else 28)
  else if (m =? 4) || (m =? 6) || (m =? 9) || (m =? 11) then 30 else 31.

Definition valid_date (y m d : Z) : bool :=
  (1 <=? m) && (m <=? 12) && (1 <=? d) && (d <=? days_in_month y m).

(* days since 1970-01-01 of the civil date y-m-d (years start in March internally) *)
Definition days_from_civil (y m d : Z) : Z :=
  let y' := if m <=? 2 then y - 1 else y in
  let era := y' / 400 in
  let yoe := y' mod 400 in
  let mp := if m <=? 2 then m + 9 else m - 3 in
  let doy := (153 * mp + 2) / 5 + d - 1 in
  let doe := yoe * 365 + yoe / 4 - yoe / 100 + doy in
  era * 146097 + doe - 719468.

(* the date part of a day number: (yoe, m, d) from the day-of-era, then the era is added *)
Definition civil_of_doe (doe : Z) : Z * Z * Z :=
  let yoe := (doe - doe / 1460 + doe / 36524 - doe / 146096) / 365 in
  let doy := doe - (365 * yoe + yoe / 4 - yoe / 100) in
  let mp := (5 * doy + 2) / 153 in
  let d := doy - (153 * mp + 2) / 5 + 1 in
  let m := if mp <? 10 then mp + 3 else mp - 9 in
  (if m <=? 2 then yoe + 1 else yoe, m, d).

Definition civil_from_days (z : Z) : Z * Z * Z :=
  let z' := z + 719468 in
  let era := z' / 146097 in
  let doe := z' mod 146097 in
  let '(y, m, d) := civil_of_doe doe in
  (y + era * 400, m, d).
