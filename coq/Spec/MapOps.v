(* Spec/MapOps.v — the positional definitions property C13 talks about.  Each operation is specified
   by the value of output position i as a function of the input (no iterators, no state).        *)
From Tevec Require Import Base.Prelude Model.MapOps.
Set Implicit Arguments.
Local Open Scope Z_scope.

(* a list given by its positions *)
Definition tabulate {A} (f : nat -> A) (n : nat) : list A := map f (seq 0 n).

(* source position of output position i under a shift / lag of n *)
Definition src (n : Z) (i : nat) : Z := Z.of_nat i - n.
Definition in_range (len : nat) (j : Z) : bool := (0 <=? j) && (j <? Z.of_nat len).

(* shift: element i of the result is x[i-n] where that exists, the fill value elsewhere *)
Definition shift_at {T} (n : Z) (v : T) (xs : list T) (i : nat) : T :=
  if in_range (length xs) (src n i) then nth (Z.to_nat (src n i)) xs v else v.

(* difference at lag n: x[i] - x[i-n] where x[i-n] exists, the fill value elsewhere *)
Definition diff_at {T} (sub : T -> T -> T) (n : Z) (v : T) (xs : list T) (i : nat) : T :=
  if in_range (length xs) (src n i) then sub (nth i xs v) (nth (Z.to_nat (src n i)) xs v) else v.

(* percentage change at lag n *)
Section PctSpec.
  Context {T I F : Type} (d : NullDict T I) (o : FOps F) (cast : T -> F).
  (* b / a - 1 when both are non-null and the base a is non-zero, null otherwise *)
  Definition pct_formula (a b : T) : F :=
    if negb (is_none d a) && negb (is_none d b) && negb (fis0 o (cast a))
    then fsub o (fdiv o (cast b) (cast a)) (fone o) else fnanv o.
  Definition pct_at (n : Z) (xs : list T) (i : nat) : F :=
    if in_range (length xs) (src n i) then
      match nth_error xs (Z.to_nat (src n i)), nth_error xs i with
      | Some a, Some b => pct_formula a b
      | _, _ => fnanv o
      end
    else fnanv o.
End PctSpec.

(* nearest earlier / later element that the mask does not select *)
Definition last_valid {T} (mask : T -> bool) (l : list T) : option T :=
  find (fun v => negb (mask v)) (rev l).
Definition next_valid {T} (mask : T -> bool) (l : list T) : option T :=
  find (fun v => negb (mask v)) l.

Definition ffill_at {T} (mask : T -> bool) (dv : T) (xs : list T) (i : nat) (x : T) : T :=
  if mask x then match last_valid mask (firstn i xs) with Some y => y | None => dv end else x.
Definition bfill_at {T} (mask : T -> bool) (dv : T) (xs : list T) (i : nat) (x : T) : T :=
  if mask x then match next_valid mask (skipn (S i) xs) with Some y => y | None => dv end else x.

(* clip of one element: `inner` reads the value of a non-null element, `ltb` is the strict order *)
Section ClipSpec.
  Context {T I : Type} (d : NullDict T I) (inner : T -> I) (ltb : I -> I -> bool).
  Definition clip_elem (lower upper : T) (x : T) : T :=
    if is_none d x then x
    else if negb (is_none d lower) && ltb (inner x) (inner lower) then lower
    else if negb (is_none d upper) && ltb (inner upper) (inner x) then upper
    else x.
  (* a <= b for the strict order ltb *)
  Definition leb_of (a b : I) : bool := negb (ltb b a).
End ClipSpec.
