(* Spec/Binning.v — what property C14 talks about, independent of the model.
   (1) bins: the intervals delimited by consecutive edges, the outer ones open to -inf / +inf when
       `add_bounds` is set;  (2) runs: a series made of a block of nulls, runs of equal non-null values
       (neighbouring runs different), a block of nulls; first / last index of each run.          *)
From Tevec Require Import Base.Prelude.
Local Open Scope Z_scope.

(* ---- extended integers --------------------------------------------- *)
Inductive ext := NegInf | Fin (z : Z) | PosInf.

Definition xlt (x y : ext) : Prop :=
  match x, y with
  | NegInf, NegInf => False
  | NegInf, _ => True
  | Fin a, Fin b => a < b
  | Fin _, PosInf => True
  | Fin _, NegInf => False
  | PosInf, _ => False
  end.

Definition xle (x y : ext) : Prop :=
  match x, y with
  | NegInf, _ => True
  | Fin a, Fin b => a <= b
  | Fin _, PosInf => True
  | Fin _, NegInf => False
  | PosInf, PosInf => True
  | PosInf, _ => False
  end.

(* ---- bins ------------------------------------------------------------ *)
(* the edge sequence the intervals are taken from *)
Definition ext_edges (add_bounds : bool) (edges : list Z) : list ext :=
  if add_bounds then NegInf :: map Fin edges ++ [PosInf] else map Fin edges.

(* v lies in the interval (lo, hi] (right-closed) / [lo, hi) (left-closed) *)
Definition in_bin (right : bool) (lo hi : ext) (v : Z) : Prop :=
  if right then xlt lo (Fin v) /\ xle (Fin v) hi else xle lo (Fin v) /\ xlt (Fin v) hi.

(* interval number j (between edge j and edge j+1) contains v *)
Definition contains (right add_bounds : bool) (edges : list Z) (j : nat) (v : Z) : Prop :=
  exists lo hi, nth_error (ext_edges add_bounds edges) j = Some lo
             /\ nth_error (ext_edges add_bounds edges) (S j) = Some hi
             /\ in_bin right lo hi v.

(* strictly ascending edges *)
Fixpoint ascending (l : list Z) : Prop :=
  match l with
  | a :: (b :: _) as r => a < b /\ ascending r
  | _ => True
  end.

(* ---- runs ------------------------------------------------------------ *)
(* a run = (value, number of repetitions - 1) *)
Definition run_cells (r : Z * nat) : list (option Z) := repeat (Some (fst r)) (S (snd r)).

(* `a` nulls, the runs, `b` nulls *)
Definition expand (a : nat) (runs : list (Z * nat)) (b : nat) : list (option Z) :=
  repeat None a ++ flat_map run_cells runs ++ repeat None b.

(* neighbouring runs carry different values (otherwise they would be one run) *)
Fixpoint adjacent_distinct (runs : list (Z * nat)) : Prop :=
  match runs with
  | r1 :: (r2 :: _) as t => fst r1 <> fst r2 /\ adjacent_distinct t
  | _ => True
  end.

(* first / last index of each run when the first run starts at index i *)
Fixpoint starts (i : nat) (runs : list (Z * nat)) : list nat :=
  match runs with
  | [] => []
  | r :: t => i :: starts (i + S (snd r))%nat t
  end.
Fixpoint ends (i : nat) (runs : list (Z * nat)) : list nat :=
  match runs with
  | [] => []
  | r :: t => (i + snd r)%nat :: ends (i + S (snd r))%nat t
  end.

(* positional form, for arbitrary series: i is non-null and its predecessor / successor is not the
   same value (a null, another value, or the end of the series) *)
Definition first_of_run (xs : list (option Z)) (i : nat) : Prop :=
  exists v, nth_error xs i = Some (Some v) /\ (i = 0%nat \/ nth_error xs (i - 1) <> Some (Some v)).
Definition last_of_run (xs : list (option Z)) (i : nat) : Prop :=
  exists v, nth_error xs i = Some (Some v) /\ nth_error xs (S i) <> Some (Some v).

(* nulls only as a prefix and/or a suffix *)
Definition nulls_at_ends (xs : list (option Z)) : Prop :=
  exists a vs b, xs = repeat None a ++ map Some vs ++ repeat None b.
