(* Spec/Calendar.v — executable proleptic-Gregorian calendar (the specification the time properties
   C16/C17 talk about; chrono is compared with it by the correspondence run).
   Days are counted from 1970-01-01 (day 0).  Algorithms: H. Hinnant, "chrono-compatible low-level
   date algorithms" (days_from_civil / civil_from_days), restructured into an era part (400-year
   cycles of 146097 days) and an era-local part so that the round-trip proofs reduce to two finite
   sweeps (Proofs/Calendar.v).  Definitions only. *)
From Coq Require Import ZArith Bool.
Local Open Scope Z_scope.

Definition civil := (Z * Z * Z)%type.          (* (year, month 1..12, day 1..31) *)

Definition is_leap (y : Z) : bool :=
  ((y mod 4 =? 0) && negb (y mod 100 =? 0)) || (y mod 400 =? 0).

Definition days_in_month (y m : Z) : Z :=
  if m =? 2 then (if is_leap y then 29 else 28)
  else if (m =? 4) || (m =? 6) || (m =? 9) || (m =? 11) then 30 else 31.

Definition valid_civilb (c : civil) : bool :=
  let '(y, m, d) := c in (1 <=? m) && (m <=? 12) && (1 <=? d) && (d <=? days_in_month y m).
Definition valid_civil (c : civil) : Prop := valid_civilb c = true.

(* ---- era-local parts: a 400-year era starts on 1 March of a year divisible by 400 ------------- *)

(* day-of-era (0..146096) of (year-of-era 0..399 counted from March, month, day) *)
Definition doe_of_parts (yoe m d : Z) : Z :=
  let mp := if 2 <? m then m - 3 else m + 9 in
  let doy := (153 * mp + 2) / 5 + d - 1 in
  yoe * 365 + yoe / 4 - yoe / 100 + doy.

(* inverse: day-of-era -> (year-of-era, month, day) *)
Definition parts_of_doe (doe : Z) : Z * Z * Z :=
  let yoe := (doe - doe / 1460 + doe / 36524 - doe / 146096) / 365 in
  let doy := doe - (365 * yoe + yoe / 4 - yoe / 100) in
  let mp := (5 * doy + 2) / 153 in
  let d := doy - (153 * mp + 2) / 5 + 1 in
  let m := if mp <? 10 then mp + 3 else mp - 9 in
  (yoe, m, d).

(* ---- the two conversions ------------------------------------------------------------------------ *)

Definition days_of_civil (c : civil) : Z :=
  let '(y0, m, d) := c in
  let y := if m <=? 2 then y0 - 1 else y0 in
  let era := y / 400 in
  let yoe := y - era * 400 in
  era * 146097 + doe_of_parts yoe m d - 719468.

Definition civil_of_days (z0 : Z) : civil :=
  let z := z0 + 719468 in
  let era := z / 146097 in
  let doe := z - era * 146097 in
  let '(yoe, m, d) := parts_of_doe doe in
  let y := yoe + era * 400 in
  (if m <=? 2 then y + 1 else y, m, d).

(* ---- month arithmetic with end-of-month clamping ------------------------------------------------ *)

Definition add_months (c : civil) (k : Z) : civil :=
  let '(y, m, d) := c in
  let t := y * 12 + (m - 1) + k in
  let y' := t / 12 in
  let m' := t mod 12 + 1 in
  (y', m', Z.min d (days_in_month y' m')).

(* ---- the laws the time model is proved against (a Section hypothesis in Proofs/Time.v; proved for
        the executable functions above in Proofs/Calendar.v: calendar_lawful) ----------------------- *)

Record CalendarLaws (cod : Z -> civil) (doc : civil -> Z) : Prop := {
  cl_days_civil_days : forall z, doc (cod z) = z;
  cl_civil_days_civil : forall c, valid_civil c -> cod (doc c) = c;
  cl_valid : forall z, valid_civil (cod z);
}.
