(* Spec/ExtremaOrd.v — what property C03 talks about for ANY ordered carrier A (Num A), not only Z:
   the order laws a carrier has to satisfy on its non-NaN elements (record OrdLaws — hypotheses of the
   theorems, never axioms), and the window specification written with the carrier's own comparisons:
   least / greatest valid element (the LAST one among equivalent ones, which matters only for carriers
   whose `neqb` is coarser than Leibniz equality, e.g. +0 / -0 of binary64), last position holding it,
   the counts behind the average rank.  No model code here.  Stdlib only, axiom-free.               *)
From Coq Require Import ZArith List Lia Bool.
From Tevec Require Import Base.Prelude Base.Num.
Import ListNotations.

Section Laws.
  Context {A : Type} {NA : Num A}.

  (* the elements the laws talk about: everything that is not NaN *)
  Definition num_ok (a : A) : Prop := nisnan a = false.
  Definition okv (o : option A) : Prop := match o with Some x => num_ok x | None => True end.

  (* `nltb` is a strict weak (= total pre-) order on the non-NaN elements: asymmetric and co-transitive
     (=> irreflexive, transitive, incomparability is an equivalence); `neqb` is that equivalence,
     `nleb` the complement of the converse.  With ol_strict below (`neqb` is Leibniz equality) this is a
     strict total order. *)
  Record OrdLaws : Prop := {
    ol_asym : forall a b, num_ok a -> num_ok b -> nltb a b = true -> nltb b a = false;
    ol_cotrans : forall a b c, num_ok a -> num_ok b -> num_ok c ->
                   nltb a b = true -> nltb a c = true \/ nltb c b = true;
    ol_eqb : forall a b, num_ok a -> num_ok b -> neqb a b = negb (nltb a b) && negb (nltb b a);
    ol_leb : forall a b, num_ok a -> num_ok b -> nleb a b = negb (nltb b a);
  }.
  Definition OrdStrict : Prop := forall a b, num_ok a -> num_ok b -> neqb a b = true -> a = b.

  (* one direction of the order (minima: nltb, maxima: its converse) *)
  Record DirLaws (ltb : A -> A -> bool) : Prop := {
    dl_asym : forall a b, num_ok a -> num_ok b -> ltb a b = true -> ltb b a = false;
    dl_cotrans : forall a b c, num_ok a -> num_ok b -> num_ok c ->
                   ltb a b = true -> ltb a c = true \/ ltb c b = true;
    dl_eqb : forall a b, num_ok a -> num_ok b -> neqb a b = negb (ltb a b) && negb (ltb b a);
  }.
  Arguments dl_asym {ltb}.
  Arguments dl_cotrans {ltb}.
  Arguments dl_eqb {ltb}.

  Definition ngtb (a b : A) : bool := nltb b a.

  Lemma dir_lt : OrdLaws -> DirLaws nltb.
  Proof. intros [H1 H2 H3 _]. split; assumption. Qed.
  Lemma dir_gt : OrdLaws -> DirLaws ngtb.
  Proof.
    intros [H1 H2 H3 _]. unfold ngtb. split.
    - intros a b Ha Hb H. apply H1; assumption.
    - intros a b c Ha Hb Hc H. destruct (H2 b a c Hb Ha Hc H) as [H'|H']; [right|left]; exact H'.
    - intros a b Ha Hb. rewrite (H3 a b Ha Hb). apply andb_comm.
  Qed.

  Section Dir.
    Variable ltb : A -> A -> bool.
    Hypothesis DL : DirLaws ltb.
    Lemma dl_irrefl a : num_ok a -> ltb a a = false.
    Proof.
      intros Ha. destruct (ltb a a) eqn:E; [|reflexivity].
      pose proof (dl_asym DL a a Ha Ha E) as H. congruence.
    Qed.
    Lemma dl_trans a b c : num_ok a -> num_ok b -> num_ok c ->
      ltb a b = true -> ltb b c = true -> ltb a c = true.
    Proof.
      intros Ha Hb Hc H1 H2. destruct (dl_cotrans DL a b c Ha Hb Hc H1) as [H|H]; [exact H|].
      pose proof (dl_asym DL b c Hb Hc H2) as H'. congruence.
    Qed.
    Lemma dl_eqb_refl a : num_ok a -> neqb a a = true.
    Proof. intros Ha. rewrite (dl_eqb DL a a Ha Ha), (dl_irrefl a Ha). reflexivity. Qed.
    Lemma dl_lt_neq a b : num_ok a -> num_ok b -> ltb a b = true -> neqb b a = false.
    Proof. intros Ha Hb H. rewrite (dl_eqb DL b a Hb Ha), H. apply andb_false_r. Qed.
  End Dir.
End Laws.
Arguments OrdLaws A {NA}.
Arguments dl_asym {A NA ltb}.
Arguments dl_cotrans {A NA ltb}.
Arguments dl_eqb {A NA ltb}.
Arguments dl_irrefl {A NA ltb}.
Arguments dl_trans {A NA ltb}.
Arguments dl_eqb_refl {A NA ltb}.
Arguments dl_lt_neq {A NA ltb}.
Arguments OrdStrict A {NA}.

(* ---- the window specification ---------------------------------------------------------------------- *)
Section Spec.
  Context {A : Type} {NA : Num A}.

  (* the non-null elements of a window, in order *)
  Definition gvalid (l : list (option A)) : list A :=
    flat_map (fun o => match o with Some x => [x] | None => [] end) l.

  (* the extreme element in direction ltb; among equivalent ones the LAST (an earlier element replaces the
     extreme of the rest only when it is strictly better) *)
  Fixpoint ext_last (ltb : A -> A -> bool) (l : list A) : option A :=
    match l with
    | [] => None
    | x :: r => match ext_last ltb r with
                | None => Some x
                | Some m => if ltb x m then Some x else Some m
                end
    end.
  Definition gmin : list A -> option A := ext_last nltb.
  Definition gmax : list A -> option A := ext_last ngtb.

  (* 0-based offset of the last element of W equal (neqb) to m *)
  Fixpoint glast_pos (m : A) (W : list (option A)) : option nat :=
    match W with
    | [] => None
    | a :: r => match glast_pos m r with
                | Some j => Some (S j)
                | None => match a with Some x => if neqb x m then Some 0 else None | None => None end
                end
    end.

  (* 1-based offset from the window start of the last position holding the least / greatest valid element *)
  Definition gargmin_spec (W : list (option A)) : option nat :=
    match gmin (gvalid W) with Some m => option_map S (glast_pos m W) | None => None end.
  Definition gargmax_spec (W : list (option A)) : option nat :=
    match gmax (gvalid W) with Some m => option_map S (glast_pos m W) | None => None end.

  (* rank ingredients *)
  Definition gcount_lt (x : A) (l : list A) : nat := length (filter (fun a => nltb a x) l).
  Definition gcount_eq (x : A) (l : list A) : nat := length (filter (fun a => neqb a x) l).
  Definition gcount_gt (x : A) (l : list A) : nat := length (filter (fun a => nltb x a) l).

  (* ---- elementary facts ---------------------------------------------------------------------------- *)
  Lemma gvalid_app l1 l2 : gvalid (l1 ++ l2) = gvalid l1 ++ gvalid l2.
  Proof. unfold gvalid. apply flat_map_app. Qed.

  Lemma In_gvalid a l : In a (gvalid l) <-> In (Some a) l.
  Proof.
    unfold gvalid. rewrite in_flat_map. split.
    - intros (o & Ho & Ha). destruct o as [x|]; [|contradiction]. destruct Ha as [->|[]]. exact Ho.
    - intros H. exists (Some a). split; [exact H|left; reflexivity].
  Qed.

  Lemma Forall_okv_gvalid W : Forall okv W -> Forall num_ok (gvalid W).
  Proof.
    intros H. apply Forall_forall. intros x Hx. apply In_gvalid in Hx.
    rewrite Forall_forall in H. exact (H (Some x) Hx).
  Qed.

  Lemma ext_last_none ltb l : ext_last ltb l = None -> l = [].
  Proof.
    destruct l as [|x r]; [reflexivity|]. cbn. destruct (ext_last ltb r); [destruct (ltb x a)|]; discriminate.
  Qed.
  Lemma ext_last_In ltb l : forall m, ext_last ltb l = Some m -> In m l.
  Proof.
    induction l as [|x r IH]; intros m E; [discriminate|]. cbn [ext_last] in E.
    destruct (ext_last ltb r) as [u|].
    - destruct (ltb x u); injection E as <-; [left; reflexivity|right; apply IH; reflexivity].
    - injection E as <-. left. reflexivity.
  Qed.

  (* what ext_last means: an element of the list that nothing beats, nothing after it even ties *)
  Section Meaning.
    Variable ltb : A -> A -> bool.
    Hypothesis DL : DirLaws ltb.

    Lemma ext_last_sound l : Forall num_ok l -> forall m, ext_last ltb l = Some m ->
      In m l /\ forall a, In a l -> ltb a m = false.
    Proof.
      intros Hok m E. split; [apply ext_last_In with ltb; exact E|].
      revert Hok m E. induction l as [|x r IH]; intros Hok m E; [discriminate|].
      inversion Hok as [|x' r' Hx Hr]; subst x' r'.
      cbn [ext_last] in E. destruct (ext_last ltb r) as [u|] eqn:Er.
      - pose proof (IH Hr u eq_refl) as Hu.
        assert (Huok : num_ok u).
        { rewrite Forall_forall in Hr. apply Hr. apply ext_last_In with ltb. exact Er. }
        destruct (ltb x u) eqn:Exu; injection E as <-.
        + intros a [->|Ha]; [apply dl_irrefl with (1 := DL); exact Hx|].
          assert (Haok : num_ok a) by (rewrite Forall_forall in Hr; apply Hr; exact Ha).
          destruct (ltb a x) eqn:Eax; [|reflexivity].
          rewrite <- (Hu a Ha). symmetry. apply (dl_trans DL a x u); assumption.
        + intros a [->|Ha]; [exact Exu|apply Hu; exact Ha].
      - injection E as <-. apply ext_last_none in Er. subst r.
        intros a [->|[]]. apply dl_irrefl with (1 := DL). exact Hx.
    Qed.

    (* for a carrier whose neqb is Leibniz equality the extreme is THE element nothing beats *)
    Lemma ext_last_spec l m : OrdStrict A -> Forall num_ok l ->
      In m l -> (forall a, In a l -> ltb a m = false) -> ext_last ltb l = Some m.
    Proof.
      intros Hstrict Hok Hin Hle. destruct (ext_last ltb l) as [u|] eqn:E.
      - destruct (ext_last_sound l Hok u E) as [Hu Hule]. f_equal.
        rewrite Forall_forall in Hok.
        apply Hstrict; [apply Hok; exact Hu|apply Hok; exact Hin|].
        rewrite (dl_eqb DL u m (Hok u Hu) (Hok m Hin)), (Hle u Hu), (Hule m Hin). reflexivity.
      - apply ext_last_none in E. subst l. contradiction.
    Qed.
  End Meaning.

  Lemma gcount_lt_app x l1 l2 : gcount_lt x (l1 ++ l2) = gcount_lt x l1 + gcount_lt x l2.
  Proof. unfold gcount_lt. rewrite filter_app, app_length. reflexivity. Qed.
  Lemma gcount_eq_app x l1 l2 : gcount_eq x (l1 ++ l2) = gcount_eq x l1 + gcount_eq x l2.
  Proof. unfold gcount_eq. rewrite filter_app, app_length. reflexivity. Qed.

  (* smaller + equal + greater = all *)
  Lemma gcount_partition x l : OrdLaws A -> num_ok x -> Forall num_ok l ->
    gcount_lt x l + gcount_eq x l + gcount_gt x l = length l.
  Proof.
    intros OL Hx Hl. unfold gcount_lt, gcount_eq, gcount_gt.
    induction Hl as [|a l Ha Hl IH]; [reflexivity|]. cbn [filter length].
    rewrite (ol_eqb OL a x Ha Hx).
    destruct (nltb a x) eqn:E1.
    - rewrite (ol_asym OL a x Ha Hx E1). cbn [negb andb length]. lia.
    - destruct (nltb x a); cbn [negb andb length]; lia.
  Qed.
End Spec.
