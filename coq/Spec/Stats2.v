(* Spec/Stats2.v — textbook two-series statistics (pairwise-complete observations), permutation
   invariance of the textbook statistics of Spec/Stats.v.  No model code here.                  *)
From Coq Require Import Reals Lra List Permutation.
From Tevec Require Import Base.Prelude Base.Num Base.XR Spec.Stats.
Import ListNotations.
Local Open Scope R_scope.
Set Implicit Arguments.

(* sum of products of deviations from (c, d) *)
Definition covsum (c d : R) (l : list (R * R)) : R :=
  sumR (map (fun p => (fst p - c) * (snd p - d)) l).
Definition xs_of (l : list (R * R)) : list R := map fst l.
Definition ys_of (l : list (R * R)) : list R := map snd l.
Definition prodsum (l : list (R * R)) : R := sumR (map (fun p => fst p * snd p) l).
(* sample covariance  sum (x - mx)(y - my) / (n - 1) *)
Definition samplecovR (l : list (R * R)) : R :=
  covsum (meanR (xs_of l)) (meanR (ys_of l)) l / (INR (length l) - 1).
(* population covariance *)
Definition popcovR (l : list (R * R)) : R :=
  covsum (meanR (xs_of l)) (meanR (ys_of l)) l / INR (length l).
(* Pearson correlation  cov(x, y) / (sigma_x sigma_y) *)
Definition corrR (l : list (R * R)) : R :=
  popcovR l / sqrt (popvarR (xs_of l) * popvarR (ys_of l)).

(* the pairwise-complete observations of two series (float-like null dictionary on XR) *)
Definition valid2 (xs ys : list XR) : list (R * R) :=
  flat_map (fun p => match p with (Some x, Some y) => [(x, y)] | _ => [] end) (combine xs ys).

Lemma covsum_expand c d l :
  covsum c d l = prodsum l - c * sumR (ys_of l) - d * sumR (xs_of l) + INR (length l) * c * d.
Proof.
  unfold covsum, prodsum, xs_of, ys_of. induction l as [|[a b] l IH]; [cbn; lra|].
  cbn [map sumR fold_right length fst snd].
  fold (sumR (map (fun p : R * R => (fst p - c) * (snd p - d)) l))
       (sumR (map (fun p : R * R => fst p * snd p) l)) (sumR (map snd l)) (sumR (map fst l)).
  rewrite IH, S_INR. ring.
Qed.

(* the sample form of Pearson's r: the 1/n factors cancel *)
Lemma corrR_sample_form l :
  (0 < length l)%nat ->
  corrR l = covsum (meanR (xs_of l)) (meanR (ys_of l)) l /
            sqrt (devsum 2 (meanR (xs_of l)) (xs_of l) * devsum 2 (meanR (ys_of l)) (ys_of l)).
Proof.
  intros Hn. unfold corrR, popcovR, popvarR, cmom, nR, xs_of, ys_of. rewrite !map_length.
  set (n := INR (length l)). set (C := covsum _ _ l).
  set (A := devsum 2 _ (map fst l)). set (B := devsum 2 _ (map snd l)).
  assert (Hnpos : 0 < n) by (apply lt_0_INR; exact Hn).
  assert (HA : 0 <= A) by apply devsum2_nonneg. assert (HB : 0 <= B) by apply devsum2_nonneg.
  replace (A / n * (B / n)) with ((A * B) * (/ n * / n)) by (field; lra).
  rewrite sqrt_mult_alt by (apply Rmult_le_pos; assumption).
  rewrite sqrt_square by (apply Rlt_le, Rinv_0_lt_compat; exact Hnpos).
  destruct (Req_dec (sqrt (A * B)) 0) as [E|E].
  - rewrite E. rewrite Rmult_0_l. unfold Rdiv. rewrite !Rinv_0. ring.
  - field. split; [exact E|lra].
Qed.

(* ---- permutation invariance of the textbook statistics ------------------------------------------- *)
Lemma sumR_perm l1 l2 : Permutation l1 l2 -> sumR l1 = sumR l2.
Proof.
  induction 1 as [|x l l' _ IH|x y l|l l' l'' _ IH1 _ IH2]; unfold sumR in *; cbn [fold_right]; lra.
Qed.
Lemma psum_perm k l1 l2 : Permutation l1 l2 -> psum k l1 = psum k l2.
Proof. intros H. unfold psum. apply sumR_perm, Permutation_map, H. Qed.
Lemma devsum_perm k c l1 l2 : Permutation l1 l2 -> devsum k c l1 = devsum k c l2.
Proof. intros H. unfold devsum. apply sumR_perm, Permutation_map, H. Qed.
Lemma nR_perm l1 l2 : Permutation l1 l2 -> nR l1 = nR l2.
Proof. intros H. unfold nR. rewrite (Permutation_length H). reflexivity. Qed.
Lemma meanR_perm l1 l2 : Permutation l1 l2 -> meanR l1 = meanR l2.
Proof. intros H. unfold meanR. rewrite (sumR_perm H), (nR_perm H). reflexivity. Qed.
Lemma cmom_perm k l1 l2 : Permutation l1 l2 -> cmom k l1 = cmom k l2.
Proof. intros H. unfold cmom. rewrite (meanR_perm H), (devsum_perm k _ H), (nR_perm H). reflexivity. Qed.
Lemma popvarR_perm l1 l2 : Permutation l1 l2 -> popvarR l1 = popvarR l2.
Proof. apply cmom_perm. Qed.
Lemma samplevarR_perm l1 l2 : Permutation l1 l2 -> samplevarR l1 = samplevarR l2.
Proof. intros H. unfold samplevarR. rewrite (meanR_perm H), (devsum_perm 2 _ H), (nR_perm H). reflexivity. Qed.
Lemma samplestdR_perm l1 l2 : Permutation l1 l2 -> samplestdR l1 = samplestdR l2.
Proof. intros H. unfold samplestdR. rewrite (samplevarR_perm H). reflexivity. Qed.
Lemma skewR_perm l1 l2 : Permutation l1 l2 -> skewR l1 = skewR l2.
Proof. intros H. unfold skewR. rewrite (nR_perm H), (cmom_perm 3 H), (cmom_perm 2 H). reflexivity. Qed.
Lemma kurtR_perm l1 l2 : Permutation l1 l2 -> kurtR l1 = kurtR l2.
Proof. intros H. unfold kurtR. rewrite (nR_perm H), (cmom_perm 4 H), (cmom_perm 2 H). reflexivity. Qed.

Lemma covsum_perm c d l1 l2 : Permutation l1 l2 -> covsum c d l1 = covsum c d l2.
Proof. intros H. unfold covsum. apply sumR_perm, Permutation_map, H. Qed.
Lemma samplecovR_perm l1 l2 : Permutation l1 l2 -> samplecovR l1 = samplecovR l2.
Proof.
  intros H. unfold samplecovR, xs_of, ys_of.
  rewrite (meanR_perm (Permutation_map fst H)), (meanR_perm (Permutation_map snd H)),
    (covsum_perm _ _ H), (Permutation_length H). reflexivity.
Qed.
Lemma corrR_perm l1 l2 : Permutation l1 l2 -> corrR l1 = corrR l2.
Proof.
  intros H. unfold corrR, popcovR, xs_of, ys_of.
  rewrite (meanR_perm (Permutation_map fst H)), (meanR_perm (Permutation_map snd H)),
    (covsum_perm _ _ H), (Permutation_length H),
    (popvarR_perm (Permutation_map fst H)), (popvarR_perm (Permutation_map snd H)). reflexivity.
Qed.
