(* Spec/Ols.v — textbook two-variable statistics of a finite list of observations (a, b):
   sample covariance, Pearson correlation, ordinary least squares of a on b (with intercept),
   residuals, sum of squared errors; the time-trend design t = 1..n.  No model code here.      *)
From Coq Require Import Reals Lra List.
From Tevec Require Import Base.Prelude Base.Num Base.XR Spec.Stats.
Import ListNotations.
Local Open Scope R_scope.

(* sum of f(a, b) over the observations *)
Definition sumP (f : R -> R -> R) (P : list (R * R)) : R := sumR (map (fun p => f (fst p) (snd p)) P).
Definition nP (P : list (R * R)) : R := INR (length P).

(* the pairwise-complete observations of a window of pairs (float-like null dictionary on XR) *)
Definition vpairs (l : list (XR * XR)) : list (R * R) :=
  flat_map (fun p => match p with (Some a, Some b) => [(a, b)] | _ => [] end) l.
(* ... of two aligned windows *)
Definition pairs (W1 W2 : list XR) : list (R * R) := vpairs (combine W1 W2).

(* cross power sums *)
Definition SA := sumP (fun a _ => a).
Definition SB := sumP (fun _ b => b).
Definition SAB := sumP (fun a b => a * b).
Definition SAA := sumP (fun a _ => a * a).
Definition SBB := sumP (fun _ b => b * b).

Definition meanA P := SA P / nP P.
Definition meanB P := SB P / nP P.
(* sum of products of deviations from the means *)
Definition codev P := sumP (fun a b => (a - meanA P) * (b - meanB P)) P.
Definition cov_sample P := codev P / (nP P - 1).
Definition cov_pop P := codev P / nP P.
(* Pearson correlation: population covariance over the geometric mean of the population variances *)
Definition corrP P := cov_pop P / sqrt (popvarR (map fst P) * popvarR (map snd P)).

(* ---- ordinary least squares of a on b:  a ~ alpha + beta * b ---- *)
Definition resid (al be : R) (p : R * R) : R := fst p - al - be * snd p.
Definition resids (al be : R) (P : list (R * R)) : list R := map (resid al be) P.
Definition sse (al be : R) (P : list (R * R)) : R := sumP (fun a b => (a - al - be * b) ^ 2) P.
(* the two normal equations: residuals sum to zero and are orthogonal to the regressor *)
Definition normal_eqs (al be : R) (P : list (R * R)) : Prop :=
  sumP (fun a b => a - al - be * b) P = 0 /\ sumP (fun a b => b * (a - al - be * b)) P = 0.
(* determinant of the normal equations = n^2 * population variance of the regressor *)
Definition detB P := nP P * SBB P - SB P ^ 2.
Definition ols_beta P := (nP P * SAB P - SA P * SB P) / detB P.
Definition ols_alpha P := (SA P - ols_beta P * SB P) / nP P.
(* a statistic of the fitted line; undefined (null) when the regressor has no spread (DESIGN 5.6) *)
Definition ols_x (P : list (R * R)) (f : R -> R -> R) : XR :=
  if Req_EM_T (detB P) 0 then None else Some (f (ols_alpha P) (ols_beta P)).

(* ---- time trend: the non-null values of the window regressed on t = 1..n ---- *)
Definition trend_from (t : nat) (V : list R) : list (R * R) := combine V (map INR (seq t (length V))).
Definition trend_pairs (V : list R) : list (R * R) := trend_from 1 V.

(* ---- the aggregation statistics the residual closures apply to the residual list
   (tea-core/src/agg.rs vmean, vstd(2), vskew(3) over the non-null items), as textbook values ---- *)
Definition agg_mean_spec (V : list R) : XR :=
  if (length V =? 0)%nat then None else Some (meanR V).
(* sample standard deviation, 0 under the EPS floor on the population variance *)
Definition agg_std_spec (V : list R) : XR :=
  if (length V <? 2)%nat then None
  else if Rle_dec (popvarR V) EPS then Some 0 else Some (samplestdR V).
(* adjusted Fisher-Pearson skewness, 0 under the EPS floor *)
Definition agg_skew_spec (V : list R) : XR :=
  if (length V <? 3)%nat then None
  else if Rle_dec (popvarR V) EPS then Some 0 else Some (skewR V).
