(* Spec/Extrema.v — what property C03 talks about, on a window given as a list of optional integers
   (None = null): least / greatest non-null element, the LAST position holding it, the counts behind the
   average rank.  No model code here.  Stdlib only.                                               *)
From Coq Require Import ZArith List Lia Bool.
From Tevec Require Import Base.Prelude.
Import ListNotations.
Local Open Scope Z_scope.

(* the non-null elements of a window, in order *)
Definition validZ (l : list (option Z)) : list Z :=
  flat_map (fun o => match o with Some x => [x] | None => [] end) l.

Fixpoint list_min (l : list Z) : option Z :=
  match l with
  | [] => None
  | x :: r => match list_min r with None => Some x | Some m => Some (Z.min x m) end
  end.
Fixpoint list_max (l : list Z) : option Z :=
  match l with
  | [] => None
  | x :: r => match list_max r with None => Some x | Some m => Some (Z.max x m) end
  end.

(* 0-based offset of the last element of W equal to Some m *)
Fixpoint last_pos (m : Z) (W : list (option Z)) : option nat :=
  match W with
  | [] => None
  | a :: r => match last_pos m r with
              | Some j => Some (S j)
              | None => match a with Some x => if x =? m then Some 0%nat else None | None => None end
              end
  end.

(* 1-based offset from the window start of the last position holding the least / greatest valid element *)
Definition argmin_spec (W : list (option Z)) : option nat :=
  match list_min (validZ W) with Some m => option_map S (last_pos m W) | None => None end.
Definition argmax_spec (W : list (option Z)) : option nat :=
  match list_max (validZ W) with Some m => option_map S (last_pos m W) | None => None end.

(* rank ingredients: how many valid elements are smaller / equal / greater *)
Definition count_lt (x : Z) (l : list Z) : nat := length (filter (fun a => a <? x) l).
Definition count_eq (x : Z) (l : list Z) : nat := length (filter (fun a => a =? x) l).
Definition count_gt (x : Z) (l : list Z) : nat := length (filter (fun a => x <? a) l).

(* ---- elementary facts ------------------------------------------------------------------------ *)
Lemma validZ_app l1 l2 : validZ (l1 ++ l2) = validZ l1 ++ validZ l2.
Proof. unfold validZ. apply flat_map_app. Qed.

Lemma In_validZ a l : In a (validZ l) <-> In (Some a) l.
Proof.
  unfold validZ. rewrite in_flat_map. split.
  - intros (o & Ho & Ha). destruct o as [x|]; [|contradiction]. destruct Ha as [->|[]]. exact Ho.
  - intros H. exists (Some a). split; [exact H|left; reflexivity].
Qed.

Lemma list_min_none l : list_min l = None -> l = [].
Proof. destruct l as [|x r]; [reflexivity|]. cbn. destruct (list_min r); discriminate. Qed.
Lemma list_min_sound l : forall m, list_min l = Some m -> In m l /\ forall a, In a l -> m <= a.
Proof.
  induction l as [|x r IH]; intros m E; [discriminate|]. cbn [list_min] in E.
  destruct (list_min r) as [u|] eqn:Er.
  - destruct (IH u eq_refl) as [Hin Hle]. injection E as <-. split.
    + destruct (Z.min_spec x u) as [[_ ->]|[_ ->]]; [left; reflexivity|right; exact Hin].
    + intros a [->|Ha]; [lia|]. specialize (Hle a Ha). lia.
  - injection E as <-. apply list_min_none in Er. subst r.
    split; [left; reflexivity|]. intros a [->|[]]. lia.
Qed.

Lemma list_min_spec l m : In m l -> (forall a, In a l -> m <= a) -> list_min l = Some m.
Proof.
  intros Hin Hle. destruct (list_min l) as [u|] eqn:E.
  - destruct (list_min_sound l u E) as [Hu Hule]. f_equal.
    specialize (Hle u Hu). specialize (Hule m Hin). lia.
  - apply list_min_none in E. subst l. contradiction.
Qed.

Lemma list_max_none l : list_max l = None -> l = [].
Proof. destruct l as [|x r]; [reflexivity|]. cbn. destruct (list_max r); discriminate. Qed.
Lemma list_max_sound l : forall m, list_max l = Some m -> In m l /\ forall a, In a l -> a <= m.
Proof.
  induction l as [|x r IH]; intros m E; [discriminate|]. cbn [list_max] in E.
  destruct (list_max r) as [u|] eqn:Er.
  - destruct (IH u eq_refl) as [Hin Hle]. injection E as <-. split.
    + destruct (Z.max_spec x u) as [[_ ->]|[_ ->]]; [right; exact Hin|left; reflexivity].
    + intros a [->|Ha]; [lia|]. specialize (Hle a Ha). lia.
  - injection E as <-. apply list_max_none in Er. subst r.
    split; [left; reflexivity|]. intros a [->|[]]. lia.
Qed.

Lemma list_max_spec l m : In m l -> (forall a, In a l -> a <= m) -> list_max l = Some m.
Proof.
  intros Hin Hle. destruct (list_max l) as [u|] eqn:E.
  - destruct (list_max_sound l u E) as [Hu Hule]. f_equal.
    specialize (Hle u Hu). specialize (Hule m Hin). lia.
  - apply list_max_none in E. subst l. contradiction.
Qed.

Lemma last_pos_spec W : forall m o,
  nth_error W o = Some (Some m) ->
  (forall j, (o < j)%nat -> nth_error W j <> Some (Some m)) ->
  last_pos m W = Some o.
Proof.
  induction W as [|a r IH]; intros m o Ho Hlast; [destruct o; discriminate|].
  cbn [last_pos]. destruct o as [|o].
  - cbn in Ho. injection Ho as ->.
    assert (Hr : last_pos m r = None).
    { destruct (last_pos m r) as [j|] eqn:E; [|reflexivity]. exfalso.
      assert (Hj : nth_error r j = Some (Some m)).
      { clear -E. revert j E. induction r as [|b r IHr]; intros j E; [discriminate|].
        cbn [last_pos] in E. destruct (last_pos m r) as [k|] eqn:Ek.
        - injection E as <-. cbn. apply IHr. reflexivity.
        - destruct b as [x|]; [|discriminate]. destruct (x =? m) eqn:Ex; [|discriminate].
          injection E as <-. apply Z.eqb_eq in Ex. subst x. reflexivity. }
      apply (Hlast (S j)); [lia|exact Hj]. }
    rewrite Hr, Z.eqb_refl. reflexivity.
  - cbn in Ho. rewrite (IH m o Ho); [reflexivity|].
    intros j Hj. apply (Hlast (S j)). lia.
Qed.
