(* Spec/Stats.v — textbook statistics of a finite list of reals (the from-scratch definitions the
   properties C01/C04/C11 compare against).  No model code here.                                 *)
From Coq Require Import Reals Lra List.
From Tevec Require Import Base.Prelude Base.Num Base.XR.
Import ListNotations.
Local Open Scope R_scope.

Definition sumR (l : list R) : R := fold_right Rplus 0 l.
Definition psum (k : nat) (l : list R) : R := sumR (map (fun x => x ^ k) l).
Definition nR (l : list R) : R := INR (length l).
Definition meanR (l : list R) : R := sumR l / nR l.
(* sum of k-th powers of deviations from c *)
Definition devsum (k : nat) (c : R) (l : list R) : R := sumR (map (fun x => (x - c) ^ k) l).
(* population central moment *)
Definition cmom (k : nat) (l : list R) : R := devsum k (meanR l) l / nR l.
Definition popvarR (l : list R) : R := cmom 2 l.
Definition samplevarR (l : list R) : R := devsum 2 (meanR l) l / (nR l - 1).
Definition samplestdR (l : list R) : R := sqrt (samplevarR l).
(* adjusted Fisher-Pearson skewness  sqrt(n(n-1))/(n-2) * m3 / m2^(3/2) *)
Definition skewR (l : list R) : R :=
  sqrt (nR l * (nR l - 1)) / (nR l - 2) * (cmom 3 l / (sqrt (cmom 2 l)) ^ 3).
(* adjusted excess kurtosis  (n-1)/((n-2)(n-3)) * ((n+1) m4/m2^2 - 3(n-1)) *)
Definition kurtR (l : list R) : R :=
  (nR l - 1) / ((nR l - 2) * (nR l - 3)) * ((nR l + 1) * (cmom 4 l / (cmom 2 l) ^ 2) - 3 * (nR l - 1)).

(* the non-null elements of a window, in order (float-like null dictionary on XR) *)
Definition valid (l : list XR) : list R :=
  flat_map (fun o => match o with Some x => [x] | None => [] end) l.
Definition nv (l : list XR) : nat := length (valid l).

(* ---- elementary facts ------------------------------------------------ *)
Lemma sumR_app l1 l2 : sumR (l1 ++ l2) = sumR l1 + sumR l2.
Proof. unfold sumR. induction l1 as [|a l1 IH]; cbn [app fold_right]; lra. Qed.
Lemma psum_app k l1 l2 : psum k (l1 ++ l2) = psum k l1 + psum k l2.
Proof. unfold psum. rewrite map_app. apply sumR_app. Qed.
Lemma psum_cons k x l : psum k (x :: l) = x ^ k + psum k l.
Proof. reflexivity. Qed.
Lemma psum_single k x : psum k [x] = x ^ k.
Proof. unfold psum. cbn. lra. Qed.
Lemma psum_1 l : psum 1 l = sumR l.
Proof. unfold psum. induction l as [|a l IH]; [reflexivity|]. cbn [map sumR fold_right].
       fold (sumR (map (fun x => x ^ 1) l)) (sumR l). rewrite IH. lra. Qed.
Lemma psum_0 l : psum 0 l = nR l.
Proof. unfold psum, nR. induction l as [|a l IH]; [reflexivity|].
       cbn [map sumR fold_right length]. fold (sumR (map (fun x => x ^ 0) l)).
       rewrite IH, S_INR. cbn. lra. Qed.

Lemma valid_app l1 l2 : valid (l1 ++ l2) = valid l1 ++ valid l2.
Proof. unfold valid. apply flat_map_app. Qed.

(* deviations around an arbitrary centre, expanded in power sums *)
Lemma devsum2_expand c l :
  devsum 2 c l = psum 2 l - 2 * c * psum 1 l + nR l * c ^ 2.
Proof.
  unfold devsum, psum, nR. induction l as [|a l IH]; [cbn; lra|].
  cbn [map sumR fold_right length]. fold (sumR (map (fun x => (x - c) ^ 2) l))
    (sumR (map (fun x => x ^ 2) l)) (sumR (map (fun x => x ^ 1) l)).
  rewrite IH, S_INR. ring.
Qed.
Lemma devsum3_expand c l :
  devsum 3 c l = psum 3 l - 3 * c * psum 2 l + 3 * c ^ 2 * psum 1 l - nR l * c ^ 3.
Proof.
  unfold devsum, psum, nR. induction l as [|a l IH]; [cbn; lra|].
  cbn [map sumR fold_right length]. fold (sumR (map (fun x => (x - c) ^ 3) l))
    (sumR (map (fun x => x ^ 3) l)) (sumR (map (fun x => x ^ 2) l)) (sumR (map (fun x => x ^ 1) l)).
  rewrite IH, S_INR. ring.
Qed.
Lemma devsum4_expand c l :
  devsum 4 c l = psum 4 l - 4 * c * psum 3 l + 6 * c ^ 2 * psum 2 l - 4 * c ^ 3 * psum 1 l + nR l * c ^ 4.
Proof.
  unfold devsum, psum, nR. induction l as [|a l IH]; [cbn; lra|].
  cbn [map sumR fold_right length]. fold (sumR (map (fun x => (x - c) ^ 4) l))
    (sumR (map (fun x => x ^ 4) l)) (sumR (map (fun x => x ^ 3) l))
    (sumR (map (fun x => x ^ 2) l)) (sumR (map (fun x => x ^ 1) l)).
  rewrite IH, S_INR. ring.
Qed.

Lemma devsum2_nonneg c l : 0 <= devsum 2 c l.
Proof.
  unfold devsum. induction l as [|a l IH]; [cbn; lra|].
  cbn [map sumR fold_right]. fold (sumR (map (fun x => (x - c) ^ 2) l)).
  pose proof (pow2_ge_0 (a - c)). lra.
Qed.

(* ---- weighted averages ------------------------------------------------- *)
(* exponentially weighted sum, most recent element has weight 1: sum_k q^k x_(k) *)
Fixpoint ewsum (q : R) (l : list R) : R :=
  match l with [] => 0 | x :: r => q ^ (length r) * x + ewsum q r end.
(* sum of the weights sum_{k<n} q^k *)
Fixpoint geomsum (q : R) (n : nat) : R := match n with O => 0 | S k => q ^ k + geomsum q k end.
Definition ewmR (q : R) (l : list R) : R := ewsum q l / geomsum q (length l).

(* linearly weighted sum sum_{t=1..n} t x_t (oldest element has weight 1) *)
Fixpoint lwsum_from (t : nat) (l : list R) : R :=
  match l with [] => 0 | x :: r => INR t * x + lwsum_from (S t) r end.
Definition lwsum (l : list R) : R := lwsum_from 1 l.
Definition wmaR (l : list R) : R := lwsum l / (nR l * (nR l + 1) / 2).

Lemma ewsum_snoc q l x : ewsum q (l ++ [x]) = q * ewsum q l + x.
Proof.
  induction l as [|a l IH]; cbn [app ewsum length]; [cbn; ring|].
  rewrite IH, app_length. cbn [length]. rewrite Nat.add_1_r. cbn [pow]. ring.
Qed.

Lemma geomsum_closed q n : (1 - q) * geomsum q n = 1 - q ^ n.
Proof. induction n as [|n IH]; cbn [geomsum pow]; [ring|]. 
       replace ((1 - q) * (q ^ n + geomsum q n)) with ((1 - q) * q ^ n + (1 - q) * geomsum q n) by ring.
       rewrite IH. ring. Qed.

Lemma lwsum_from_shift t l : lwsum_from (S t) l = lwsum_from t l + sumR l.
Proof.
  revert t; induction l as [|a l IH]; intros t; cbn [lwsum_from sumR fold_right]; [ring|].
  fold (sumR l). rewrite IH, !S_INR. ring.
Qed.
Lemma lwsum_from_snoc t l x : lwsum_from t (l ++ [x]) = lwsum_from t l + INR (t + length l) * x.
Proof.
  revert t; induction l as [|a l IH]; intros t; cbn [app lwsum_from length].
  - rewrite Nat.add_0_r. ring.
  - rewrite IH. replace (S t + length l)%nat with (t + S (length l))%nat by lia. ring.
Qed.
