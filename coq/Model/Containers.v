(* Model/Containers.v — the containers behind tevec's backends as the glue in
   tea-core/src/backends_impl/{vecdeque,ndarray,polars,arc}.rs and vec_core/iter.rs sees them.
   std::collections::VecDeque, ndarray views and Polars chunked arrays are external: these are
   executable models of the accessors the glue calls; the correspondence check compares them with
   the real containers through tevec's API.  Definitions only.                                    *)
From Coq Require Import ZArith.
From Tevec Require Import Base.Prelude.
Set Implicit Arguments.

(* ---- VecDeque: a ring buffer ------------------------------------------------------------- *)
Record ring (A : Type) := { rbuf : list A; rhead : nat; rlen : nat }.
Definition rcap {A} (r : ring A) : nat := length (rbuf r).
Definition ring_wf {A} (r : ring A) : Prop := rlen r <= rcap r /\ rhead r < rcap r.

(* logical element i lives in physical slot (head + i) mod cap *)
Definition ring_get {A} (r : ring A) (i : nat) : option A :=
  if i <? rlen r then nth_error (rbuf r) ((rhead r + i) mod rcap r) else None.
(* the logical sequence: rotate the buffer to the head, keep len elements *)
Definition ring_to_list {A} (r : ring A) : list A :=
  firstn (rlen r) (skipn (rhead r) (rbuf r) ++ firstn (rhead r) (rbuf r)).
(* as_slices(): the contiguous part up to the end of the buffer, then the wrapped part *)
Definition ring_slices {A} (r : ring A) : list A * list A :=
  if rhead r + rlen r <=? rcap r then (seg (rhead r) (rhead r + rlen r) (rbuf r), [])
  else (seg (rhead r) (rcap r) (rbuf r), seg 0 (rhead r + rlen r - rcap r) (rbuf r)).
(* vecdeque.rs try_as_slice: Some(first) iff the second slice is empty *)
Definition ring_try_as_slice {A} (r : ring A) : option (list A) :=
  let '(a, b) := ring_slices r in match b with [] => Some a | _ :: _ => None end.
(* range(a..b) iterates logical positions a..b *)
Definition ring_range {A} (r : ring A) (a b : nat) : list A := seg a b (ring_to_list r).

(* ---- ndarray 1-d view: base memory, offset, signed stride, length ----------------------------- *)
Record strided (A : Type) := { sbase : list A; soff : nat; sstep : Z; slen : nat }.
Definition spos {A} (s : strided A) (i : nat) : Z := (Z.of_nat (soff s) + Z.of_nat i * sstep s)%Z.
Definition strided_wf {A} (s : strided A) : Prop :=
  forall i, i < slen s -> (0 <= spos s i < Z.of_nat (length (sbase s)))%Z.
Definition strided_get {A} (s : strided A) (i : nat) : option A :=
  if i <? slen s then nth_error (sbase s) (Z.to_nat (spos s i)) else None.
Definition strided_to_list {A} (s : strided A) : list A :=
  flat_map (fun i => match nth_error (sbase s) (Z.to_nat (spos s i)) with Some x => [x] | None => [] end)
           (seq 0 (slen s)).
(* as_slice(): only a standard-layout view (stride 1, or at most one element) is a slice.
   (Before the repair the glue called as_slice_memory_order(), which also accepts stride -1 and then
   returns the elements in MEMORY order: see strided_memory_order.)                                *)
Definition strided_try_as_slice {A} (s : strided A) : option (list A) :=
  if orb (sstep s =? 1)%Z (slen s <=? 1) then Some (seg (soff s) (soff s + slen s) (sbase s)) else None.
Definition strided_memory_order {A} (s : strided A) : option (list A) :=
  if orb (sstep s =? 1)%Z (slen s <=? 1) then Some (seg (soff s) (soff s + slen s) (sbase s))
  else if (sstep s =? -1)%Z then Some (seg (soff s + 1 - slen s) (soff s + 1) (sbase s))
  else None.
(* slicing a view: s![a..b] keeps the stride and moves the offset *)
Definition strided_slice {A} (s : strided A) (a b : nat) : strided A :=
  {| sbase := sbase s; soff := Z.to_nat (spos s a); sstep := sstep s; slen := b - a |}.

(* ---- Polars ChunkedArray: chunks of optional values (validity folded into option) ------------- *)
Definition chunked (A : Type) := list (list (option A)).
Definition chunked_to_list {A} (c : chunked A) : list (option A) := concat c.
Definition chunked_len {A} (c : chunked A) : nat := fold_right (fun ch n => length ch + n) 0 c.
(* get_unchecked(i): walk the chunks *)
Fixpoint chunked_get {A} (c : chunked A) (i : nat) : option (option A) :=
  match c with
  | [] => None
  | ch :: rest => if i <? length ch then nth_error ch i else chunked_get rest (i - length ch)
  end.
Definition chunked_slice {A} (c : chunked A) (a b : nat) : list (option A) := seg a b (chunked_to_list c).

(* ---- Arc<V> and the option view ------------------------------------------------------------------ *)
Definition arc_to_list {A} (l : list A) : list A := l.
Definition optview_to_list {T I} (to_opt : T -> option I) (l : list T) : list (option I) := map to_opt l.

(* ---- the checked accessor of view.rs, over any container given by (len, uget) --------------------- *)
Definition checked_get {A} (len : nat) (uget : nat -> option A) (i : nat) : res A :=
  if i <? len then match uget i with Some x => Ok x | None => Panic OtherPanic end else Panic OtherPanic.

(* ==== mutable accessors (Vec1Mut: view_mut.rs get_mut / uget_mut / try_as_slice_mut) and the valid-get family
   (view.rs vget / uvget / to_opt_iter / iter_cast / opt_iter_cast) ================================================= *)

(* a write at position i of a list (out of range: unchanged) *)
Fixpoint update {A} (l : list A) (i : nat) (v : A) : list A :=
  match l, i with
  | [], _ => []
  | _ :: t, O => v :: t
  | h :: t, S j => h :: update t j v
  end.

(* Vec<T>: uget_mut = get_unchecked_mut(i); try_as_slice_mut = Some(as_mut_slice()) — always offered *)
Definition list_uset {A} (l : list A) (i : nat) (v : A) : option (list A) :=
  if i <? length l then Some (update l i v) else None.

(* VecDeque: uget_mut = VecDeque::get_mut(i).unwrap(): physical slot (head + i) mod cap; None models the
   unwrap of an out-of-range index (never reached through the checked accessor)                          *)
Definition ring_uset {A} (r : ring A) (i : nat) (v : A) : option (ring A) :=
  if i <? rlen r
  then Some {| rbuf := update (rbuf r) ((rhead r + i) mod rcap r) v; rhead := rhead r; rlen := rlen r |}
  else None.
(* try_as_slice_mut: as_mut_slices() = (first, second); Some(first) iff second is empty.  A write at slice
   index k is a write at physical slot head + k.  Outer None: slice not offered; inner None: k beyond the slice *)
Definition ring_slice_mut_set {A} (r : ring A) (k : nat) (v : A) : option (option (ring A)) :=
  if rhead r + rlen r <=? rcap r
  then Some (if k <? rlen r
             then Some {| rbuf := update (rbuf r) (rhead r + k) v; rhead := rhead r; rlen := rlen r |}
             else None)
  else None.

(* ndarray: uget_mut(i) = *ptr.offset(i * stride) *)
Definition strided_uset {A} (s : strided A) (i : nat) (v : A) : option (strided A) :=
  if i <? slen s
  then Some {| sbase := update (sbase s) (Z.to_nat (spos s i)) v; soff := soff s; sstep := sstep s; slen := slen s |}
  else None.
(* try_as_slice_mut = as_slice_mut(): standard layout only (stride 1 or at most one element); slice index k is
   memory slot off + k                                                                                    *)
Definition strided_slice_mut_set {A} (s : strided A) (k : nat) (v : A) : option (option (strided A)) :=
  if orb (sstep s =? 1)%Z (slen s <=? 1)
  then Some (if k <? slen s
             then Some {| sbase := update (sbase s) (soff s + k) v; soff := soff s; sstep := sstep s; slen := slen s |}
             else None)
  else None.
(* what the `_mut` twin would do had it used as_slice_memory_order_mut() (the defect class repaired for
   try_as_slice in daad92b; the `_mut` accessor never had it): slice index k of a stride -1 view is memory
   slot off + 1 - len + k, i.e. LOGICAL index len - 1 - k                                                  *)
Definition strided_memory_order_mut_set {A} (s : strided A) (k : nat) (v : A) : option (option (strided A)) :=
  if orb (sstep s =? 1)%Z (slen s <=? 1) then strided_slice_mut_set s k v
  else if (sstep s =? -1)%Z
  then Some (if k <? slen s
             then Some {| sbase := update (sbase s) (soff s + 1 - slen s + k) v; soff := soff s; sstep := sstep s; slen := slen s |}
             else None)
  else None.

(* view_mut.rs get_mut, over any container given by (len, uget_mut-and-write) *)
Definition checked_set {C A} (len : nat) (uset : nat -> A -> option C) (i : nat) (v : A) : option C :=
  if i <? len then uset i v else None.

(* view.rs uvget = uget(i).to_opt(); vget = bounds check, then uvget *)
Definition uvalid_get {T I} (to_opt : T -> option I) (uget : nat -> option T) (i : nat) : option I :=
  match uget i with Some x => to_opt x | None => None end.
Definition valid_get {T I} (to_opt : T -> option I) (len : nat) (uget : nat -> option T) (i : nat) : option I :=
  if i <? len then uvalid_get to_opt uget i else None.

(* view.rs to_opt_iter / iter_cast / opt_iter_cast: titer() mapped element by element *)
Definition to_opt_iter_m {T I} (to_opt : T -> option I) (l : list T) : list (option I) := map to_opt l.
Definition iter_cast_m {T U} (cast : T -> U) (l : list T) : list U := map cast l.
Definition opt_iter_cast_m {T I U} (to_opt : T -> option I) (cast : I -> U) (l : list T) : list (option U) :=
  map (fun v => option_map cast (to_opt v)) l.

(* ==== audit YB (additive): accessors the C07 statement names that had no model function of their own =============== *)
(* the well-formedness of a VecDeque INCLUDING the deque without allocation (capacity 0, head 0), which `ring_wf`
   (head < cap) excludes; head = cap > 0 never occurs in std but is harmless ((cap + i) mod cap = i)                 *)
Definition ring_wf0 {A} (r : ring A) : Prop := rlen r <= rcap r /\ rhead r <= rcap r.
(* vecdeque.rs titer(): VecDeque::iter() walks as_slices().0 and then as_slices().1 *)
Definition ring_iter {A} (r : ring A) : list A := fst (ring_slices r) ++ snd (ring_slices r).
(* a freshly collected output container: VecDeque::from(Vec) (head 0), Array1::from_vec (offset 0, stride 1) *)
Definition ring_of_list {A} (l : list A) : ring A := {| rbuf := l; rhead := 0; rlen := length l |}.
Definition strided_of_list {A} (l : list A) : strided A := {| sbase := l; soff := 0; sstep := 1%Z; slen := length l |}.
(* the reversed view s![..;-1] of a view: starts at the last element, stride negated *)
Definition strided_rev {A} (s : strided A) : strided A :=
  {| sbase := sbase s; soff := Z.to_nat (spos s (slen s - 1)); sstep := (- sstep s)%Z; slen := slen s |}.
(* the stepped view s![..;k], k >= 1: every k-th element, ceil(len / k) of them *)
Definition strided_step {A} (s : strided A) (k : nat) : strided A :=
  {| sbase := sbase s; soff := soff s; sstep := (sstep s * Z.of_nat k)%Z; slen := (slen s + k - 1) / k |}.
(* Polars slice keeps a chunked layout: skip `a` elements, then take `b - a` *)
Fixpoint chunked_skip {A} (c : chunked A) (a : nat) : chunked A :=
  match c with
  | [] => []
  | ch :: rest => if a <? length ch then skipn a ch :: rest else chunked_skip rest (a - length ch)
  end.
Fixpoint chunked_take {A} (c : chunked A) (n : nat) : chunked A :=
  match c with
  | [] => []
  | ch :: rest => if n <=? length ch then [firstn n ch] else ch :: chunked_take rest (n - length ch)
  end.
Definition chunked_slice_chunks {A} (c : chunked A) (a b : nat) : chunked A := chunked_take (chunked_skip c a) (b - a).
(* the logical sequence of ANY view given by (len, uget): what a generic algorithm written against Vec1View sees *)
Definition view_seq {A} (len : nat) (uget : nat -> option A) : list A :=
  flat_map (fun i => match uget i with Some x => [x] | None => [] end) (seq 0 len).
