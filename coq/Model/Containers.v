(* Model/Containers.v — the containers behind tevec's backends as the glue in
   tea-core/src/backends_impl/{vecdeque,ndarray,polars,arc}.rs and vec_core/iter.rs sees them.
   std::collections::VecDeque, ndarray views and Polars chunked arrays are external: these are
   executable models of the accessors the glue calls; the correspondence check compares them with
   the real containers through tevec's API.  Definitions only.                                    *)
From Coq Require Import ZArith.
From Tevec Require Import Base.Prelude.
Set Implicit Arguments.

(* ---- VecDeque: a ring buffer ------------------------------------------------------------- *)
Record ring (A : Type) := { rbuf : list A; rhead : nat; rlen : nat }.
Definition rcap {A} (r : ring A) : nat := length (rbuf r).
Definition ring_wf {A} (r : ring A) : Prop := rlen r <= rcap r /\ rhead r < rcap r.

(* logical element i lives in physical slot (head + i) mod cap *)
Definition ring_get {A} (r : ring A) (i : nat) : option A :=
  if i <? rlen r then nth_error (rbuf r) ((rhead r + i) mod rcap r) else None.
(* the logical sequence: rotate the buffer to the head, keep len elements *)
Definition ring_to_list {A} (r : ring A) : list A :=
  firstn (rlen r) (skipn (rhead r) (rbuf r) ++ firstn (rhead r) (rbuf r)).
(* as_slices(): the contiguous part up to the end of the buffer, then the wrapped part *)
Definition ring_slices {A} (r : ring A) : list A * list A :=
  if rhead r + rlen r <=? rcap r then (seg (rhead r) (rhead r + rlen r) (rbuf r), [])
  else (seg (rhead r) (rcap r) (rbuf r), seg 0 (rhead r + rlen r - rcap r) (rbuf r)).
(* vecdeque.rs try_as_slice: Some(first) iff the second slice is empty *)
Definition ring_try_as_slice {A} (r : ring A) : option (list A) :=
  let '(a, b) := ring_slices r in match b with [] => Some a | _ :: _ => None end.
(* range(a..b) iterates logical positions a..b *)
Definition ring_range {A} (r : ring A) (a b : nat) : list A := seg a b (ring_to_list r).

(* ---- ndarray 1-d view: base memory, offset, signed stride, length ----------------------------- *)
Record strided (A : Type) := { sbase : list A; soff : nat; sstep : Z; slen : nat }.
Definition spos {A} (s : strided A) (i : nat) : Z := (Z.of_nat (soff s) + Z.of_nat i * sstep s)%Z.
Definition strided_wf {A} (s : strided A) : Prop :=
  forall i, i < slen s -> (0 <= spos s i < Z.of_nat (length (sbase s)))%Z.
Definition strided_get {A} (s : strided A) (i : nat) : option A :=
  if i <? slen s then nth_error (sbase s) (Z.to_nat (spos s i)) else None.
Definition strided_to_list {A} (s : strided A) : list A :=
  flat_map (fun i => match nth_error (sbase s) (Z.to_nat (spos s i)) with Some x => [x] | None => [] end)
           (seq 0 (slen s)).
(* as_slice(): only a standard-layout view (stride 1, or at most one element) is a slice.
   (Before the repair the glue called as_slice_memory_order(), which also accepts stride -1 and then
   returns the elements in MEMORY order: see strided_memory_order.)                                *)
Definition strided_try_as_slice {A} (s : strided A) : option (list A) :=
  if orb (sstep s =? 1)%Z (slen s <=? 1) then Some (seg (soff s) (soff s + slen s) (sbase s)) else None.
Definition strided_memory_order {A} (s : strided A) : option (list A) :=
  if orb (sstep s =? 1)%Z (slen s <=? 1) then Some (seg (soff s) (soff s + slen s) (sbase s))
  else if (sstep s =? -1)%Z then Some (seg (soff s + 1 - slen s) (soff s + 1) (sbase s))
  else None.
(* slicing a view: s![a..b] keeps the stride and moves the offset *)
Definition strided_slice {A} (s : strided A) (a b : nat) : strided A :=
  {| sbase := sbase s; soff := Z.to_nat (spos s a); sstep := sstep s; slen := b - a |}.

(* ---- Polars ChunkedArray: chunks of optional values (validity folded into option) ------------- *)
Definition chunked (A : Type) := list (list (option A)).
Definition chunked_to_list {A} (c : chunked A) : list (option A) := concat c.
Definition chunked_len {A} (c : chunked A) : nat := fold_right (fun ch n => length ch + n) 0 c.
(* get_unchecked(i): walk the chunks *)
Fixpoint chunked_get {A} (c : chunked A) (i : nat) : option (option A) :=
  match c with
  | [] => None
  | ch :: rest => if i <? length ch then nth_error ch i else chunked_get rest (i - length ch)
  end.
Definition chunked_slice {A} (c : chunked A) (a b : nat) : list (option A) := seg a b (chunked_to_list c).

(* ---- Arc<V> and the option view ------------------------------------------------------------------ *)
Definition arc_to_list {A} (l : list A) : list A := l.
Definition optview_to_list {T I} (to_opt : T -> option I) (l : list T) : list (option I) := map to_opt l.

(* ---- the checked accessor of view.rs, over any container given by (len, uget) --------------------- *)
Definition checked_get {A} (len : nat) (uget : nat -> option A) (i : nat) : res A :=
  if i <? len then match uget i with Some x => Ok x | None => Panic OtherPanic end else Panic OtherPanic.
