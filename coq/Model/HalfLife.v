(* Model/HalfLife.v — tevec/src/agg.rs half_life: doubling search then bisection over lags.
   The autocorrelation test `corr(lag) > 0.5` (false on NaN) is an oracle `above : nat -> bool`; in the
   executable model (Run/RunC20.v) it is vcorr_pearson o vshift.  Loops run on explicit fuel and
   return `Panic` / `None` when they cannot proceed.  Definitions only.                          *)
From Tevec Require Import Base.Prelude.
Set Implicit Arguments.

Section HalfLife.
  Variable above : nat -> bool.
  Variable len : nat.

  (* while n < len { n = 2^i; if !(above n) { break } else { last_n = n }; i += 1 }
     returns (n, last_n); None = out of fuel                                                     *)
  Fixpoint doubling (fuel n last_n i : nat) : option (nat * nat) :=
    match fuel with
    | O => None
    | S fuel' =>
        if n <? len then
          let n' := 2 ^ i in
          if above n' then doubling fuel' n' n' (S i) else Some (n', last_n)
        else Some (n, last_n)
    end.

  (* while n - last_n > 1 { life = (n + last_n) / 2; if !(above life) { n = life } else { last_n = life } } *)
  Fixpoint bisect (fuel n last_n : nat) : option (res nat) :=
    match fuel with
    | O => None
    | S fuel' =>
        match usub n last_n with
        | Panic k => Some (Panic k)
        | Ok d =>
            if 1 <? d then
              let life := (n + last_n) / 2 in
              if above life then bisect fuel' n life else bisect fuel' life last_n
            else Some (Ok n)
        end
    end.

  Definition half_life : option (res nat) :=
    if len =? 0 then Some (Ok 0)
    else
      match doubling (S (S len)) 0 0 0 with
      | None => None
      | Some (n, last_n) => bisect (S len) (Nat.min n (len - 1)) last_n
      end.
End HalfLife.
