(* Model/SortCmp.v — the pieces shared by the order-statistic models (C12):
   * the extra null-dictionary operations `T::none()` and `PartialEq` (tea-dtype/src/isnone.rs),
   * `Cast<f64>` of an element, `count_valid`, `vfirst`, `vmax`/`vmin` (tea-core/src/agg.rs:31,57,502,532),
   * `IsNone::sort_cmp` / `sort_cmp_rev` (tea-dtype/src/isnone.rs:223-288, 534-539),
   * std's `sort_unstable_by` / `select_nth_unstable_by`, modelled by a stable insertion sort under
     the given comparator (std's post-conditions are trusted; the order of ties is unspecified in std,
     so nothing downstream may depend on it — see notes/C12.md),
   * floor/ceil to an index (`f64::floor().usize()`), as an extra small class.
   Definitions only.                                                                              *)
From Coq Require Import ZArith.
From Tevec Require Import Base.Prelude Base.Num.
Set Implicit Arguments.

(* `x.floor().usize()` / `x.ceil().usize()` for x >= 0 (NaN -> 0 like Rust's saturating `as`) *)
Class NumFloor (A : Type) := { nfloorZ : A -> Z; nceilZ : A -> Z }.

(* T::none() (panics on the integer types: isnone.rs:474) and `==` on T *)
Class IsNoneX (T A : Type) := { tnone : res T; teqb : T -> T -> bool }.

Definition IsNoneX_float {A} `{Num A} : IsNoneX A A := {| tnone := Ok nnan; teqb := neqb |}.
Definition IsNoneX_option {A} `{Num A} : IsNoneX (option A) A :=
  {| tnone := Ok None;
     teqb := fun a b => match a, b with
                        | Some x, Some y => neqb x y | None, None => true | _, _ => false end |}.
Definition IsNoneX_never {A} `{Num A} : IsNoneX A A := {| tnone := Panic OtherPanic; teqb := neqb |}.

Section SortCmp.
  Context {A : Type} `{NA : Num A} {T : Type} `{DT : IsNone T A}.

  (* Cast<f64>: a null casts to NaN *)
  Definition tcast (v : T) : A := if is_none v then nnan else unwrap v.

  Definition count_valid (xs : list T) : nat := length (filter not_none xs).
  Definition vfirst (xs : list T) : option T := find not_none xs.

  (* Number::max_with: if other > self {other} else {self}; min_with: if other < self {other} else {self} *)
  Definition max_with (s o : A) : A := if nltb s o then o else s.
  Definition min_with (s o : A) : A := if nltb o s then o else s.
  (* vfold(None, ..): nulls skipped *)
  Definition vmax (xs : list T) : option A :=
    fold_left (fun acc x => if not_none x then
                              Some (match acc with None => unwrap x | Some v => max_with v (unwrap x) end)
                            else acc) xs None.
  Definition vmin (xs : list T) : option A :=
    fold_left (fun acc x => if not_none x then
                              Some (match acc with None => unwrap x | Some v => min_with v (unwrap x) end)
                            else acc) xs None.
  (* `.map(|v| v.f64()).cast()` : Option<f64> -> f64 *)
  Definition opt_cast (o : option A) : A := match o with Some v => v | None => nnan end.

  (* f64::partial_cmp *)
  Definition partial_cmp (a b : A) : option comparison :=
    if nltb a b then Some Lt else if neqb a b then Some Eq else if nltb b a then Some Gt else None.

  Definition sort_cmp (x y : T) : comparison :=
    match to_opt x, to_opt y with
    | Some a, Some b =>
        match partial_cmp a b with Some c => c | None => if nisnan a then Gt else Lt end
    | None, None => Eq
    | None, Some _ => Gt
    | Some _, None => Lt
    end.

  Definition sort_cmp_rev (x y : T) : comparison :=
    match to_opt x, to_opt y with
    | Some a, Some b =>
        CompOpp (match partial_cmp a b with Some c => c | None => if nisnan a then Lt else Gt end)
    | None, None => Eq
    | None, Some _ => Gt
    | Some _, None => Lt
    end.

  Definition cmp_dir (rev : bool) : T -> T -> comparison := if rev then sort_cmp_rev else sort_cmp.
End SortCmp.

(* ---- std sorting, modelled by stable insertion sort ------------------------------------------ *)
Section Sort.
  Context {X : Type} (cmp : X -> X -> comparison).
  Definition cle (a b : X) : bool := match cmp a b with Gt => false | _ => true end.

  Fixpoint insert (x : X) (l : list X) : list X :=
    match l with
    | [] => [x]
    | y :: r => if cle x y then x :: l else y :: insert x r
    end.
  Definition isort (l : list X) : list X := fold_right insert [] l.
End Sort.

(* comparator on indices into xs: the closures |a, b| uget(a).sort_cmp(uget(b)) *)
Definition cmp_idx {T} (cmp : T -> T -> comparison) (xs : list T) (a b : nat) : comparison :=
  match nth_error xs a, nth_error xs b with
  | Some va, Some vb => cmp va vb
  | _, _ => Eq
  end.
