(* Model/Cast.v — the null (IsNone) dictionary and the Cast lattice of tea-dtype, for a finite universe of
   element types.  Definitions only.  Mirrors (repaired tree, line numbers of the work-C15 branch):
     tea-dtype/src/isnone.rs   default methods from_opt / unwrap / not_none / map / vabs / sort_cmp / sort_cmp_rev
                               (l.128-288); IntoCast (l.291-301); IsNone for f32, f64 (l.303-415), Option<T>
                               (l.417-470), impl_not_none!(bool u8 i32 i64 isize u64 usize) (l.472-545), String, &str
                               (l.547-646), DateTime<U>, TimeDelta, Time (l.648-798)
     tea-dtype/src/cast.rs     generic Cast<Option<T>> for T and Cast<T> for T (l.25-37); impl_numeric_cast! (l.39-193)
                               and its 8 invocations (l.385-392); bool arms (l.195-267); impl_time_cast! (l.269-323,
                               invoked l.397); time <-> i64 (l.325-383); impl_cast_from_string! (l.399-437); misc
                               string / time arms (l.439-517)
     tea-dtype/src/number.rs   Number::{f32,f64,i32,i64,usize,to,fromas} (l.107-160), min_/max_/abs (l.201-277)
     tea-dtype/src/bool_type.rs BoolType::bool_
     tea-time                  DateTime(i64) / Time(i64) with NaT = i64::MIN, TimeDelta{months,inner} with NaT = months
                               i32::MIN, PartialOrd for TimeDelta; From<i64> (impls/impl_datetime.rs l.19-24,
                               impl_time.rs l.23-28, impl_timedelta.rs l.35-43, 56-69)
   Not a cleaned-up specification: branches, guards and the order of conversions are those of the macros.
   External behaviour (Rust's numeric `as` on floats, float abs / partial_cmp / Display / FromStr, chrono
   formatting and parsing) is the parameter record `Ext`; integer `as`, integer Display / FromStr, saturation and
   the sentinels are concrete.  Not modelled: time_unit_cast! (DateTime unit change, property C16), IsNone for
   Vec<T>, char / u16 / u32 / i8 / i16 targets of String.                                                   *)
From Coq Require Import ZArith List Bool.
From Tevec Require Import Base.Prelude.
Import ListNotations.
Local Open Scope Z_scope.

(* ------------------------------------------------------------------ *)
(* The universe of type codes *)

Inductive nt := F32 | F64 | I32 | I64 | U8 | U64 | Usize | Isize.          (* numeric element types *)
Inductive bt := N (n : nt) | Bool | Str | DT | TD | TM.                    (* String/&str, DateTime<U>, TimeDelta, Time *)
Inductive ty := Plain (b : bt) | Opt (b : bt).                             (* T and Option<T> *)

Definition all_nt : list nt := [F32; F64; I32; I64; U8; U64; Usize; Isize].
Definition all_bt : list bt := map N all_nt ++ [Bool; Str; DT; TD; TM].
Definition all_ty : list ty := map Plain all_bt ++ map Opt all_bt.

Definition is_float (n : nt) : bool := match n with F32 | F64 => true | _ => false end.
Definition nt_eqb (a b : nt) : bool :=
  match a, b with
  | F32, F32 | F64, F64 | I32, I32 | I64, I64 | U8, U8 | U64, U64 | Usize, Usize | Isize, Isize => true
  | _, _ => false
  end.

(* integer ranges (usize/isize are 64-bit on the checked platform) *)
Definition imin (n : nt) : Z :=
  match n with I32 => - 2 ^ 31 | I64 | Isize => - 2 ^ 63 | _ => 0 end.
Definition imax (n : nt) : Z :=
  match n with I32 => 2 ^ 31 - 1 | I64 | Isize => 2 ^ 63 - 1 | U8 => 255 | U64 | Usize => 2 ^ 64 - 1
          | F32 | F64 => 0 end.
Definition i64min : Z := - 2 ^ 63.
Definition i32min : Z := - 2 ^ 31.

(* Rust integer `as` between integer types: wrap modulo 2^bits into the target range *)
Definition wrap (t : nt) (z : Z) : Z := (z - imin t) mod (imax t - imin t + 1) + imin t.
(* saturation used by float -> integer `as` *)
Definition clamp (t : nt) (z : Z) : Z := Z.max (imin t) (Z.min (imax t) z).

(* classification of a float for float -> int `as`: NaN, +-inf, or its truncation toward zero *)
Inductive fcls := FNaN | FPInf | FNInf | FFin (z : Z).

(* strings are lists of byte codes *)
Definition str := list Z.
Definition s_None : str := [78; 111; 110; 101].                         (* "None" *)
Definition s_true : str := [116; 114; 117; 101].                        (* "true" *)
Definition s_false : str := [102; 97; 108; 115; 101].                   (* "false" *)

Fixpoint str_eqb (a b : str) : bool :=
  match a, b with
  | [], [] => true
  | x :: a', y :: b' => (x =? y) && str_eqb a' b'
  | _, _ => false
  end.

(* ------------------------------------------------------------------ *)
(* External behaviour: the float type and what std/chrono do with it *)

Record Ext (F : Type) := {
  f_nan : F;                                   (* f64::NAN / f32::NAN *)
  feq : F -> F -> bool;                       (* IEEE ==  (false when either side is NaN) *)
  fabs : F -> F;                              (* f64::abs *)
  fcmp : F -> F -> option comparison;         (* PartialOrd::partial_cmp *)
  ftrunc : F -> fcls;                         (* the exact real truncated toward zero, or its class *)
  round32 : F -> F;                           (* f64 as f32 (f32 values are kept widened to f64) *)
  z2f32 : Z -> F;                             (* integer as f32: round to nearest even *)
  z2f64 : Z -> F;                             (* integer as f64 *)
  f2s32 : F -> str;                           (* <f32 as Display>::to_string *)
  f2s64 : F -> str;
  s2f32 : str -> option F;                    (* str::parse::<f32>().ok() *)
  s2f64 : str -> option F;
  td2s : Z * Z -> str;                        (* format!("{:?}", TimeDelta) *)
  s2dt : str -> option Z;                     (* str::parse::<DateTime<U>>().ok() *)
  s2td : str -> option (Z * Z);               (* TimeDelta::parse(..).ok() *)
}.
Arguments f_nan {F}. Arguments feq {F}. Arguments fabs {F}. Arguments fcmp {F}. Arguments ftrunc {F}.
Arguments round32 {F}. Arguments z2f32 {F}. Arguments z2f64 {F}. Arguments f2s32 {F}. Arguments f2s64 {F}.
Arguments s2f32 {F}. Arguments s2f64 {F}. Arguments td2s {F}. Arguments s2dt {F}. Arguments s2td {F}.

Section Model.
  Context {F : Type} (X : Ext F).

  (* ---------------------------------------------------------------- *)
  (* Values *)

  Definition nval (n : nt) : Type := match n with F32 | F64 => F | _ => Z end.
  Definition bval (b : bt) : Type :=
    match b with
    | N n => nval n | Bool => bool | Str => str
    | DT => Z                 (* the i64 payload; NaT = i64::MIN *)
    | TD => (Z * Z)%type      (* (months, total nanoseconds of `inner`); NaT = months i32::MIN *)
    | TM => Z
    end.
  Definition val (t : ty) : Type := match t with Plain b => bval b | Opt b => option (bval b) end.
  Definition base (t : ty) : bt := match t with Plain b | Opt b => b end.
  Definition inner (t : ty) : Type := bval (base t).          (* IsNone::Inner *)

  (* `self != self` *)
  Definition fisnan (f : F) : bool := negb (feq X f f).

  (* ---------------------------------------------------------------- *)
  (* Rust's `as` between the numeric types *)

  Definition f2i (t : nt) (f : F) : Z :=
    match ftrunc X f with FNaN => 0 | FPInf => imax t | FNInf => imin t | FFin z => clamp t z end.

  Definition f_to (s t : nt) (f : F) : nval t :=
    match t return nval t with
    | F32 => match s with F64 => round32 X f | _ => f end
    | F64 => f
    | I32 => f2i I32 f | I64 => f2i I64 f | U8 => f2i U8 f | U64 => f2i U64 f
    | Usize => f2i Usize f | Isize => f2i Isize f
    end.

  Definition i2i (s t : nt) (z : Z) : Z := if nt_eqb s t then z else wrap t z.

  Definition z_to (s t : nt) (z : Z) : nval t :=
    match t return nval t with
    | F32 => z2f32 X z
    | F64 => z2f64 X z
    | I32 => i2i s I32 z | I64 => i2i s I64 z | U8 => i2i s U8 z | U64 => i2i s U64 z
    | Usize => i2i s Usize z | Isize => i2i s Isize z
    end.

  (* `v as t` for s <> t, the identity (impl<T> Cast<T> for T) for s = t *)
  Definition as_nn (s t : nt) : nval s -> nval t :=
    match s return nval s -> nval t with
    | F32 => f_to F32 t | F64 => f_to F64 t
    | I32 => z_to I32 t | I64 => z_to I64 t | U8 => z_to U8 t | U64 => z_to U64 t
    | Usize => z_to Usize t | Isize => z_to Isize t
    end.

  (* ---------------------------------------------------------------- *)
  (* IsNone, per base type (the impl for T) *)

  Definition n_is_none (n : nt) : nval n -> bool :=
    match n return nval n -> bool with
    | F32 | F64 => fun v => fisnan v                         (* self != self *)
    | _ => fun _ => false                                    (* impl_not_none! *)
    end.
  Definition n_not_none (n : nt) : nval n -> bool :=
    match n return nval n -> bool with
    | F32 | F64 => fun v => feq X v v                        (* self == self *)
    | _ => fun _ => true
    end.
  Definition n_none (n : nt) : res (nval n) :=
    match n return res (nval n) with
    | F32 | F64 => Ok (f_nan X)
    | _ => Panic OtherPanic                                  (* "Cannot call none() on a non-float type" *)
    end.

  Definition b_is_none (b : bt) : bval b -> bool :=
    match b return bval b -> bool with
    | N n => n_is_none n
    | Bool => fun _ => false
    | Str => fun s => str_eqb s s_None                       (* self == "None" *)
    | DT => fun z => z =? i64min                             (* is_nat *)
    | TD => fun d => fst d =? i32min
    | TM => fun z => z =? i64min
    end.
  Definition b_not_none (b : bt) : bval b -> bool :=
    match b return bval b -> bool with
    | N n => n_not_none n
    | Bool => fun _ => true
    | Str => fun s => negb (str_eqb s s_None)                (* default method: !is_none *)
    | DT => fun z => negb (z =? i64min)
    | TD => fun d => negb (fst d =? i32min)
    | TM => fun z => negb (z =? i64min)
    end.
  Definition b_none (b : bt) : res (bval b) :=
    match b return res (bval b) with
    | N n => n_none n
    | Bool => Panic OtherPanic
    | Str => Ok s_None
    | DT => Ok i64min
    | TD => Ok (i32min, 0)
    | TM => Ok i64min
    end.

  (* whether the type has a null at all *)
  Definition b_can_null (b : bt) : bool :=
    match b with N n => is_float n | Bool => false | _ => true end.
  Definition can_null (t : ty) : bool := match t with Plain b => b_can_null b | Opt _ => true end.

  (* ---------------------------------------------------------------- *)
  (* IsNone, per type code (T or Option<T>) *)

  Definition is_none (t : ty) : val t -> bool :=
    match t return val t -> bool with
    | Plain b => b_is_none b
    | Opt b => fun o => match o with None => true | Some _ => false end
    end.
  Definition not_none (t : ty) : val t -> bool :=
    match t return val t -> bool with
    | Plain b => b_not_none b
    | Opt b => fun o => match o with None => false | Some _ => true end      (* is_some *)
    end.
  Definition to_opt (t : ty) : val t -> option (inner t) :=
    match t return val t -> option (inner t) with
    | Plain b => fun v => if b_is_none b v then None else Some v
    | Opt b => fun o => o
    end.
  (* as_opt is to_opt by reference; separate body in every impl *)
  Definition as_opt (t : ty) : val t -> option (inner t) :=
    match t return val t -> option (inner t) with
    | Plain b => fun v => if b_is_none b v then None else Some v
    | Opt b => fun o => match o with Some x => Some x | None => None end     (* as_ref *)
    end.
  (* every non-Option impl overrides unwrap with `self`; Option keeps to_opt().unwrap() *)
  Definition unwrap (t : ty) : val t -> res (inner t) :=
    match t return val t -> res (inner t) with
    | Plain b => fun v => Ok v
    | Opt b => fun o => match o with Some x => Ok x | None => Panic UnwrapNone end
    end.
  Definition from_inner (t : ty) : inner t -> val t :=
    match t return inner t -> val t with
    | Plain b => fun x => x
    | Opt b => fun x => if b_is_none b x then None else Some x
    end.
  Definition none (t : ty) : res (val t) :=
    match t return res (val t) with
    | Plain b => b_none b
    | Opt b => Ok None
    end.
  (* opt.map_or_else(Self::none, Self::from_inner) *)
  Definition from_opt (t : ty) (o : option (inner t)) : res (val t) :=
    match o with None => none t | Some x => Ok (from_inner t x) end.
  (* IsNone::map into the type u *)
  Definition map_ (s u : ty) (f : inner s -> inner u) : val s -> res (val u) :=
    match s return (inner s -> inner u) -> val s -> res (val u) with
    | Plain b => fun f v => Ok (from_inner u (f v))                           (* U::from_inner(f(self)) *)
    | Opt b => fun f o => match o with Some x => Ok (from_inner u (f x)) | None => none u end
    end f.
  (* T::inner_cast(v) / v.into_cast::<T>(): re-wrap a value v of the base type b in the shape of T *)
  Definition into_cast (shape_opt : bool) (b : bt) (v : bval b) : val (if shape_opt then Opt b else Plain b) :=
    match shape_opt return val (if shape_opt then Opt b else Plain b) with
    | false => v
    | true => if b_is_none b v then None else Some v
    end.

  (* Number::abs (debug build: iN::MIN.abs() overflows) *)
  Definition n_abs (n : nt) : nval n -> res (nval n) :=
    match n return nval n -> res (nval n) with
    | F32 | F64 => fun f => Ok (fabs X f)
    | I32 => fun z => if z =? imin I32 then Panic Overflow else Ok (Z.abs z)
    | I64 => fun z => if z =? imin I64 then Panic Overflow else Ok (Z.abs z)
    | Isize => fun z => if z =? imin Isize then Panic Overflow else Ok (Z.abs z)
    | _ => fun z => Ok z
    end.
  (* vabs = self.map(|v| v.abs()) at a numeric base *)
  Definition vabs (shape_opt : bool) (n : nt) : val (if shape_opt then Opt (N n) else Plain (N n)) ->
                                                res (val (if shape_opt then Opt (N n) else Plain (N n))) :=
    match shape_opt return val (if shape_opt then Opt (N n) else Plain (N n)) ->
                           res (val (if shape_opt then Opt (N n) else Plain (N n))) with
    | false => fun v => do a <- n_abs n v; Ok a
    | true => fun o => match o with
                       | Some x => do a <- n_abs n x; Ok (if n_is_none n a then None else Some a)
                       | None => Ok None
                       end
    end.

  (* Number::f32() f64() i32() i64() usize() / to::<T>() / fromas: Cast::<T>::cast(self) (number.rs l.107-160) *)
  Definition number_to (s u : nt) (v : nval s) : nval u := as_nn s u v.

  (* Number::min_() / max_() of the integer types: <T>::MIN / <T>::MAX (number.rs l.205-216) *)
  Definition number_min (n : nt) : Z := imin n.
  Definition number_max (n : nt) : Z := imax n.

  (* BoolType::bool_ for bool and &bool (bool_type.rs) *)
  Definition bool_ (b : bool) : bool := b.

  (* ---------------------------------------------------------------- *)
  (* partial_cmp of the inner types, sort_cmp, sort_cmp_rev *)

  Definition bool_cmp (a b : bool) : comparison :=
    match a, b with false, true => Lt | true, false => Gt | _, _ => Eq end.
  Fixpoint lex_cmp (a b : str) : comparison :=
    match a, b with
    | [], [] => Eq | [], _ :: _ => Lt | _ :: _, [] => Gt
    | x :: a', y :: b' => match x ?= y with Eq => lex_cmp a' b' | c => c end
    end.
  Definition b_pcmp (b : bt) : bval b -> bval b -> option comparison :=
    match b return bval b -> bval b -> option comparison with
    | N n => match n return nval n -> nval n -> option comparison with
             | F32 | F64 => fun x y => fcmp X x y
             | _ => fun x y => Some (x ?= y)
             end
    | Bool => fun x y => Some (bool_cmp x y)
    | Str => fun x y => Some (lex_cmp x y)
    | DT => fun x y => Some (x ?= y)                          (* derived on the i64 *)
    | TD => fun x y =>                                        (* impl PartialOrd for TimeDelta *)
        if negb (fst x =? i32min) then
          if negb (fst x =? fst y) then Some (fst x ?= fst y) else Some (snd x ?= snd y)
        else None
    | TM => fun x y => Some (x ?= y)
    end.

  Definition is_intlike (b : bt) : bool :=                     (* impl_not_none!(bool, u8, i32, i64, isize, u64, usize) *)
    match b with N n => negb (is_float n) | Bool => true | _ => false end.

  Definition sort_cmp (t : ty) (a b : val t) : res comparison :=
    match t return val t -> val t -> res comparison with
    | Plain bb => fun a b =>
        if is_intlike bb then                                  (* self.partial_cmp(&other).unwrap() *)
          match b_pcmp bb a b with Some c => Ok c | None => Panic UnwrapNone end
        else
          match as_opt (Plain bb) a, as_opt (Plain bb) b with
          | Some va, Some vb => Ok (match b_pcmp bb va vb with
                                    | Some c => c
                                    | None => if b_is_none bb va then Gt else Lt end)
          | None, None => Ok Eq
          | None, _ => Ok Gt
          | _, None => Ok Lt
          end
    | Opt bb => fun a b =>
        match as_opt (Opt bb) a, as_opt (Opt bb) b with
        | Some va, Some vb => Ok (match b_pcmp bb va vb with
                                  | Some c => c
                                  | None => if b_is_none bb va then Gt else Lt end)
        | None, None => Ok Eq
        | None, _ => Ok Gt
        | _, None => Ok Lt
        end
    end a b.

  Definition sort_cmp_rev (t : ty) (a b : val t) : res comparison :=
    match as_opt t a, as_opt t b with
    | Some va, Some vb => Ok (CompOpp (match b_pcmp (base t) va vb with
                                       | Some c => c
                                       | None => if b_is_none (base t) va then Lt else Gt end))
    | None, None => Ok Eq
    | None, _ => Ok Gt
    | _, None => Ok Lt
    end.

  (* ---------------------------------------------------------------- *)
  (* Display / FromStr of the numeric types and bool *)

  Fixpoint dec_digits (fuel : nat) (z : Z) (acc : str) : str :=
    match fuel with
    | O => acc
    | S k => let acc' := (48 + z mod 10) :: acc in
             if z <? 10 then acc' else dec_digits k (z / 10) acc'
    end.
  Definition z_to_string (z : Z) : str :=
    if z <? 0 then 45 :: dec_digits 80 (- z) [] else dec_digits 80 z [].

  Fixpoint parse_digits (acc : Z) (l : str) : option Z :=
    match l with
    | [] => Some acc
    | c :: r => if (48 <=? c) && (c <=? 57) then parse_digits (acc * 10 + (c - 48)) r else None
    end.
  (* core::num from_str_radix(10): optional '+' (any type) or '-' (signed types), at least one digit, range checked *)
  Definition parse_int (t : nt) (l : str) : option Z :=
    let body (neg : bool) (r : str) :=
        match r with
        | [] => None
        | _ => match parse_digits 0 r with
               | Some z => let z' := if neg then - z else z in
                           if (imin t <=? z') && (z' <=? imax t) then Some z' else None
               | None => None
               end
        end in
    match l with
    | 43 :: r => body false r
    | 45 :: r => if imin t <? 0 then body true r else None
    | _ => body false l
    end.

  Definition n_to_string (n : nt) : nval n -> str :=
    match n return nval n -> str with
    | F32 => f2s32 X | F64 => f2s64 X
    | _ => z_to_string
    end.
  Definition n_parse (n : nt) (s : str) : option (nval n) :=
    match n return option (nval n) with
    | F32 => s2f32 X s | F64 => s2f64 X s
    | I32 => parse_int I32 s | I64 => parse_int I64 s | U8 => parse_int U8 s | U64 => parse_int U64 s
    | Usize => parse_int Usize s | Isize => parse_int Isize s
    end.
  Definition bool_parse (s : str) : option bool :=
    if str_eqb s s_true then Some true else if str_eqb s s_false then Some false else None.

  (* ---------------------------------------------------------------- *)
  (* The Cast lattice *)

  (* --- helpers shared by the arms --- *)
  (* Cast<bool> for $T: through i32; 0 / 1 / panic "can not cast {value} to bool" *)
  Definition n_to_bool (s : nt) (v : nval s) : res bool :=
    let i : Z := as_nn s I32 v in
    if i =? 0 then Ok false else if i =? 1 then Ok true else Panic OtherPanic.
  (* Cast<$T> for bool: (self as u8).cast() *)
  Definition bool_to_n (t : nt) (b : bool) : nval t := as_nn U8 t (if b then 1 else 0).

  (* From<i64> for TimeDelta: i64::MIN is NaT, otherwise Duration::nanoseconds; DateTime::new / Time::from_i64 keep the i64 *)
  Definition td_of_i64 (z : Z) : Z * Z := if z =? i64min then (i32min, 0) else (0, z).
  (* Cast<DateTime<U>> / Cast<TimeDelta> / Cast<Time> for $T (repaired: the null is looked at first) *)
  Definition n_to_dt (s : nt) (v : nval s) : Z := if n_is_none s v then i64min else as_nn s I64 v.
  Definition n_to_td (s : nt) (v : nval s) : Z * Z := if n_is_none s v then (i32min, 0) else td_of_i64 (as_nn s I64 v).

  (* time -> i64 / Option<i64> *)
  Definition td_micros (d : Z * Z) : option Z :=              (* chrono num_microseconds(): None on i64 overflow *)
    let q := Z.quot (snd d) 1000 in
    if (i64min <=? q) && (q <=? 2 ^ 63 - 1) then Some q else None.
  Definition time_to_i64 (b : bt) : bval b -> res Z :=
    match b return bval b -> res Z with
    | DT => fun z => Ok z                                      (* into_i64 *)
    | TM => fun z => Ok z                                      (* self.0 *)
    | TD => fun d => if negb (fst d =? 0) then Panic OtherPanic   (* "not support cast TimeDelta to i64 when months is not zero" *)
                     else Ok (match td_micros d with Some q => q | None => i64min end)
    | _ => fun _ => Panic OtherPanic
    end.
  Definition time_to_opt_i64 (b : bt) : bval b -> res (option Z) :=
    match b return bval b -> res (option Z) with
    | DT => fun z => Ok (if z =? i64min then None else Some z)  (* into_opt_i64 *)
    | TM => fun z => Ok (if z =? i64min then None else Some z)
    | TD => fun d => if fst d =? i32min then Ok None             (* repaired: NaT first *)
                     else if negb (fst d =? 0) then Panic OtherPanic
                     else Ok (td_micros d)
    | _ => fun _ => Panic OtherPanic
    end.

  (* impl_time_cast!: Cast<$T> for DateTime / TimeDelta / Time, $T in u8 u64 f32 f64 i32 usize isize bool
     (repaired: a null source gives <$T>::none(); otherwise through the i64) *)
  Definition time_to_n (b : bt) (u : nt) (v : bval b) : res (nval u) :=
    if b_is_none b v then n_none u else do z <- time_to_i64 b v; Ok (as_nn I64 u z).
  Definition time_to_bool (b : bt) (v : bval b) : res bool :=
    if b_is_none b v then Panic OtherPanic else do z <- time_to_i64 b v; n_to_bool I64 z.

  (* --- targets reached from a numeric / bool source, plain or optional --- *)

  (* source: a value of numeric type s *)
  Definition cast_num (s : nt) (t : ty) (v : nval s) : res (val t) :=
    match t return res (val t) with
    | Plain (N u) => Ok (as_nn s u v)                                           (* self as U / identity *)
    | Opt (N u) => Ok (if n_is_none s v then None else Some (as_nn s u v))
    | Plain Bool => n_to_bool s v
    | Opt Bool => if n_is_none s v then Ok None else do b <- n_to_bool s v; Ok (Some b)
    | Plain Str => Ok (n_to_string s v)
    | Plain DT => Ok (n_to_dt s v)
    | Plain TD => Ok (n_to_td s v)
    | Plain TM => Ok (n_to_dt s v)
    | Opt _ => Panic OtherPanic                                                  (* not implemented *)
    end.

  (* source: Option<s> *)
  Definition cast_onum (s : nt) (t : ty) (o : option (nval s)) : res (val t) :=
    match t return res (val t) with
    | Plain (N u) => match o with Some v => Ok (as_nn s u v) | None => n_none u end   (* map(as).unwrap_or_else(none) *)
    | Opt (N u) => Ok (match o with Some v => Some (as_nn s u v) | None => None end)   (* map(cast) / identity *)
    | Plain Bool => match o with Some v => n_to_bool s v | None => Panic OtherPanic end   (* expect("can not cast None to bool") *)
    | Opt Bool => match o with Some v => do b <- n_to_bool s v; Ok (Some b) | None => Ok None end
    | Plain Str => Ok (match o with Some v => n_to_string s v | None => s_None end)
    | Plain DT => Ok (match o with Some v => n_to_dt s v | None => i64min end)        (* map(cast).unwrap_or(nat) *)
    | Plain TD => Ok (match o with Some v => n_to_td s v | None => (i32min, 0) end)
    | Plain TM => Ok (match o with Some v => n_to_dt s v | None => i64min end)
    | Opt _ => Panic OtherPanic
    end.

  Definition cast_bool (t : ty) (b : bool) : res (val t) :=
    match t return res (val t) with
    | Plain (N u) => Ok (bool_to_n u b)
    | Opt (N u) => Ok (Some (bool_to_n u b))
    | Plain Bool => Ok b
    | Opt Bool => Ok (Some b)                                                    (* generic T -> Option<T>; bool is never none *)
    | Plain Str => Ok (if b then s_true else s_false)
    | Plain DT | Plain TD | Plain TM => Panic OtherPanic                         (* "Should not cast bool to datetime" *)
    | Opt _ => Panic OtherPanic
    end.

  Definition cast_obool (t : ty) (o : option bool) : res (val t) :=
    match t return res (val t) with
    | Plain (N u) => match o with Some b => Ok (bool_to_n u b) | None => n_none u end
    | Opt (N u) => Ok (match o with Some b => Some (bool_to_n u b) | None => None end)
    | Plain Bool => match o with Some b => Ok b | None => Panic OtherPanic end    (* "Should not cast None to bool" *)
    | Opt Bool => Ok o
    | Plain Str => Ok (match o with Some b => if b then s_true else s_false | None => s_None end)   (* repaired: map(to_string).unwrap_or("None") *)
    | Plain DT | Plain TD | Plain TM => Panic OtherPanic
    | Opt _ => Panic OtherPanic
    end.

  (* source: String / &str *)
  Definition cast_str (t : ty) (s : str) : res (val t) :=
    match t return res (val t) with
    | Plain (N u) => match n_parse u s with Some v => Ok v | None => Panic OtherPanic end   (* expect("Parse string error") *)
    | Opt (N u) => if str_eqb s s_None then Ok None
                   else match n_parse u s with Some v => Ok (Some v) | None => Panic OtherPanic end
    | Plain Bool => match bool_parse s with Some v => Ok v | None => Panic OtherPanic end
    | Opt Bool => if str_eqb s s_None then Ok None
                  else match bool_parse s with Some v => Ok (Some v) | None => Panic OtherPanic end
    | Plain Str => Ok s
    | Opt Str => Ok (if str_eqb s s_None then None else Some s)
    | Plain DT => match s2dt X s with Some z => Ok z | None => Panic OtherPanic end
    | Plain TD => match s2td X s with Some d => Ok d | None => Panic OtherPanic end
    | Plain TM | Opt _ => Panic OtherPanic
    end.

  (* source: DateTime<U> / TimeDelta / Time (b is DT, TD or TM) *)
  Definition cast_time (b : bt) (t : ty) (v : bval b) : res (val t) :=
    match t return res (val t) with
    | Plain (N I64) => time_to_i64 b v
    | Opt (N I64) => time_to_opt_i64 b v
    | Plain (N u) => time_to_n b u v
    | Opt (N u) => if b_is_none b v then Ok None else do x <- time_to_n b u v; Ok (Some x)
    | Plain Bool => time_to_bool b v
    | Opt Bool => if b_is_none b v then Ok None else do x <- time_to_bool b v; Ok (Some x)
    | Plain Str => match b return bval b -> res str with
                   | TD => fun d => Ok (td2s X d)
                   | _ => fun _ => Panic OtherPanic
                   end v
    | Plain b' =>                                    (* identity on the same type; DT <-> TD is unreachable!() *)
        match b, b' return bval b -> res (bval b') with
        | DT, DT => fun z => Ok z | TD, TD => fun d => Ok d | TM, TM => fun z => Ok z
        | _, _ => fun _ => Panic OtherPanic
        end v
    | Opt b' =>                                      (* generic T -> Option<T> *)
        match b, b' return bval b -> res (option (bval b')) with
        | DT, DT => fun z => Ok (if z =? i64min then None else Some z)
        | TD, TD => fun d => Ok (if fst d =? i32min then None else Some d)
        | TM, TM => fun z => Ok (if z =? i64min then None else Some z)
        | _, _ => fun _ => Panic OtherPanic
        end v
    end.

  (* identity on Option<String> / Option<time> *)
  Definition cast_oother (b : bt) (t : ty) (o : option (bval b)) : res (val t) :=
    match t return res (val t) with
    | Opt b' => match b, b' return option (bval b) -> res (option (bval b')) with
                | Str, Str => fun o => Ok o | DT, DT => fun o => Ok o | TD, TD => fun o => Ok o | TM, TM => fun o => Ok o
                | _, _ => fun _ => Panic OtherPanic
                end o
    | Plain _ => Panic OtherPanic
    end.

  Definition cast (s t : ty) : val s -> res (val t) :=
    match s return val s -> res (val t) with
    | Plain (N a) => cast_num a t
    | Opt (N a) => cast_onum a t
    | Plain Bool => cast_bool t
    | Opt Bool => cast_obool t
    | Plain Str => cast_str t
    | Plain DT => cast_time DT t
    | Plain TD => cast_time TD t
    | Plain TM => cast_time TM t
    | Opt Str => cast_oother Str t
    | Opt DT => cast_oother DT t
    | Opt TD => cast_oother TD t
    | Opt TM => cast_oother TM t
    end.

  (* which `impl Cast<t> for s` exist (the harness probes every pair of the universe at compile time) *)
  Definition is_numlike (b : bt) : bool := match b with N _ | Bool => true | _ => false end.
  Definition is_time (b : bt) : bool := match b with DT | TD | TM => true | _ => false end.
  Definition bt_eqb (a b : bt) : bool :=
    match a, b with
    | N x, N y => nt_eqb x y
    | Bool, Bool | Str, Str | DT, DT | TD, TD | TM, TM => true
    | _, _ => false
    end.
  Definition implemented (s t : ty) : bool :=
    match s, t with
    | Plain a, Plain b =>
        bt_eqb a b
        || (is_numlike a && (is_numlike b || is_time b || bt_eqb b Str))
        || (bt_eqb a Str && (is_numlike b || bt_eqb b DT || bt_eqb b TD))
        || (is_time a && is_numlike b)
        || (bt_eqb a TD && bt_eqb b Str)
        || (bt_eqb a DT && bt_eqb b TD) || (bt_eqb a TD && bt_eqb b DT)
    | Plain a, Opt b =>
        bt_eqb a b || (is_numlike a && is_numlike b) || (bt_eqb a Str && is_numlike b) || (is_time a && is_numlike b)
    | Opt a, Plain b =>
        is_numlike a && (is_numlike b || is_time b || bt_eqb b Str)
    | Opt a, Opt b =>
        bt_eqb a b || (is_numlike a && is_numlike b)
    end.

  (* ---------------------------------------------------------------- *)
  (* Known finding (class 1): the String null is the text "None", but the null of a float / time source is
     rendered with its own text ("NaN", Debug of TimeDelta) and the text "NaN" parses to a null float.    *)
  Definition kf_text_null (s t : ty) : bool :=
    match s, t with
    | Plain (N F32), Plain Str | Plain (N F64), Plain Str | Plain TD, Plain Str => true     (* null -> non-null text *)
    | Plain Str, Plain (N F32) | Plain Str, Plain (N F64) => true                           (* "NaN" -> NaN *)
    | _, _ => false
    end.

  (* canonical nulls (DESIGN 5.4): no Some(null) *)
  Definition canonical (t : ty) : val t -> bool :=
    match t return val t -> bool with
    | Plain _ => fun _ => true
    | Opt b => fun o => match o with Some x => negb (b_is_none b x) | None => true end
    end.
End Model.

(* ------------------------------------------------------------------ *)
(* IsNone for Vec<T> (isnone.rs l.800-848; added by the C15 audit, definitions only): the null is the empty vector;
   Inner = Vec<T>; unwrap / from_inner are the identity; not_none and from_opt are the default methods *)
Section VecNone.
  Context {T : Type}.
  Definition vec_is_none (v : list T) : bool := match v with [] => true | _ :: _ => false end.   (* is_empty *)
  Definition vec_none : list T := [].                                                              (* Vec::new() *)
  Definition vec_not_none (v : list T) : bool := negb (vec_is_none v).                           (* default *)
  Definition vec_to_opt (v : list T) : option (list T) := if vec_is_none v then None else Some v.
  Definition vec_as_opt (v : list T) : option (list T) := if vec_is_none v then None else Some v.
  Definition vec_from_inner (v : list T) : list T := v.
  Definition vec_unwrap (v : list T) : res (list T) := Ok v.                                       (* override: self *)
  Definition vec_from_opt (o : option (list T)) : list T :=                                        (* default: map_or_else(none, from_inner) *)
    match o with None => vec_none | Some x => vec_from_inner x end.
End VecNone.
