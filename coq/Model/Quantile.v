(* Model/Quantile.v — tea-agg/src/vec_valid.rs:31-97 `vquantile` (+ `vmedian` :106-112) and
   tea-agg/src/lib.rs:154-199 `vpercentile_of`, as they are after the fix of the n = 1 early
   return (first *valid* element instead of slc[0]).  Definitions only.                        *)
From Coq Require Import ZArith.
From Tevec Require Import Base.Prelude Base.Num Model.SortCmp.
Set Implicit Arguments.

Inductive qmethod := Linear | Lower | Higher | MidPoint.
Inductive pmethod := PRank | PWeak | PStrict.

Section Quantile.
  Context {A : Type} `{NA : Num A} `{NF : NumFloor A} {T : Type} `{DT : IsNone T A}.
  Local Open Scope num_scope.

  Definition nhalf : A := none / ntwo.   (* the literal 0.5 *)

  (* `slc.select_nth_unstable_by(j, cmp)` -> (head, m, _tail); panics when j >= len *)
  Definition select_nth (cmp : T -> T -> comparison) (j : nat) (slc : list T) : res (list T * T) :=
    let s := isort cmp slc in
    match nth_error s j with
    | Some m => Ok (firstn j s, m)
    | None => Panic OtherPanic
    end.

  (* Ok None = Err("q must be between 0 and 1"), Ok (Some v) = Ok(v) *)
  Definition vquantile (q : A) (method : qmethod) (xs : list T) : res (option A) :=
    if negb (nleb nzero q && nleb q none) then Ok None else
    let n := count_valid xs in
    if (n =? 0)%nat then Ok (Some nnan) else
    if (n =? 1)%nat then
      match vfirst xs with Some v => Ok (Some (tcast v)) | None => Panic UnwrapNone end
    else
    let len_1 := nofnat (n - 1)%nat in
    if nleb q nhalf then
      let q_idx := len_1 * q in
      let i := Z.to_nat (nfloorZ q_idx) in
      let j := Z.to_nat (nceilZ q_idx) in
      do hm <- select_nth sort_cmp j xs;
      let '(head, m) := hm in
      if negb (i =? j)%nat then
        let vi := opt_cast (vmax head) in
        let vj := tcast m in
        Ok (Some (match method with
                  | Linear =>
                      let qi := nofnat i / len_1 in
                      let qj := nofnat j / len_1 in
                      let fraction := (q - qi) / (qj - qi) in
                      vi + (vj - vi) * fraction
                  | Lower => vi
                  | Higher => vj
                  | MidPoint => (vi + vj) / ntwo
                  end))
      else Ok (Some (tcast m))
    else
      (* sort from largest to smallest *)
      let q := none - q in
      let q_idx := len_1 * q in
      let i := Z.to_nat (nfloorZ q_idx) in
      let j := Z.to_nat (nceilZ q_idx) in
      do hm <- select_nth sort_cmp_rev j xs;
      let '(head, m) := hm in
      if negb (i =? j)%nat then
        let vi := opt_cast (vmin head) in
        let vj := tcast m in
        Ok (Some (match method with
                  | Lower => vj                 (* early return Ok(m) *)
                  | Higher => vi                (* early return Ok(vi) *)
                  | Linear =>
                      let qi := nofnat i / len_1 in
                      let qj := nofnat j / len_1 in
                      let fraction := (q - qi) / (qj - qi) in
                      vi + (vj - vi) * fraction
                  | MidPoint => (vi + vj) / ntwo
                  end))
      else Ok (Some (tcast m)).

  (* vmedian = vquantile(0.5, Linear).unwrap() *)
  Definition vmedian (xs : list T) : res A :=
    do r <- vquantile nhalf Linear xs;
    match r with Some v => Ok v | None => Panic UnwrapNone end.

  (* ---- vpercentile_of ------------------------------------------------------------------- *)
  (* (less_than_count, exact_match_count, total_count) *)
  Definition pct_counts (sc : A) (xs : list T) : nat * nat * nat :=
    fold_left (fun (c : nat * nat * nat) v =>
                 let '(l, e, t) := c in
                 if is_none v then c else
                 let x := unwrap v in
                 if nltb x sc then (S l, e, S t)
                 else if neqb x sc then (l, S e, S t)
                 else (l, e, S t)) xs (0, 0, 0)%nat.

  Definition vpercentile_of (score : T) (method : pmethod) (xs : list T) : A :=
    if is_none score then nnan else
    let '(lt, eq, tot) := pct_counts (unwrap score) xs in
    if (tot =? 0)%nat then nnan else
    match method with
    | PRank =>
        if (1 <? eq)%nat then
          let rank_start := (lt + 1)%nat in
          let rank_end := (rank_start + (eq - 1))%nat in
          (nofnat (rank_start + rank_end)%nat * nhalf) / nofnat tot
        else nofnat (lt + eq)%nat / nofnat tot
    | PWeak => nofnat (lt + eq)%nat / nofnat tot
    | PStrict => nofnat lt / nofnat tot
    end.
End Quantile.
