(* Model/Binning.v — tea-map/src/valid_iter.rs: vcut (384-484), vsorted_unique_idx (500-557),
   vsorted_unique (577-600).  Definitions only (always runnable).

   The model is generic in the element type A with its comparison booleans (Rust `<`, `<=`, `==` on
   T::Inner), so that the same definitions run at Z (i32 / Option<i32>) and at PrimFloat (f64); the
   theorems are proved at Z.  A series element is `option A` (None = null: None / NaN).

   The code modelled is the code AFTER the two `fix:` commits of property C14 (notes/C14.md):
     - vcut: the two edges added by `add_bounds` stand for -inf / +inf: interval 0 has no lower test,
       the last interval no upper test (before: strict comparison with T::MIN / T::MAX);
     - vsorted_unique_idx(Keep::Last): an index is emitted only when the previous element was
       non-null (before: the first non-null value after a null emitted the null's index).          *)
From Tevec Require Import Base.Prelude.
Set Implicit Arguments.

(* ------------------------------------------------------------------ *)
(* vcut                                                                *)

(* one output item: Ok(label) | Ok(T2::none()) | Err("value not in bins") *)
Inductive item (L : Type) := Lab (l : L) | NullLab | ErrItem.
Arguments Lab {L} l.
Arguments NullLab {L}.
Arguments ErrItem {L}.

Section Cut.
  Context {A L : Type}.
  Variables ltb leb : A -> A -> bool.      (* `<` and `<=` of T::Inner *)
  Variables tmin tmax : A.                 (* T::Inner::min_(), T::Inner::max_() *)

  (* itertools tuple_windows::<(_, _)>() *)
  Fixpoint windows (l : list A) : list (A * A) :=
    match l with
    | a :: (b :: _) as r => (a, b) :: windows r
    | _ => []
    end.

  (* the test of one (bound, label) pair at enumerate index i; nlab = labels.len() *)
  Definition bin_test (right add_bounds : bool) (nlab i : nat) (w : A * A) (v : A) : bool :=
    let above := (add_bounds && (i =? 0)) || (if right then ltb (fst w) v else leb (fst w) v) in
    let below := (add_bounds && (S i =? nlab)) || (if right then leb v (snd w) else ltb v (snd w)) in
    above && below.

  (* for (i, (bound, label)) in windows.zip(labels).enumerate(): first match wins, `break` *)
  Fixpoint scan (right add_bounds : bool) (nlab : nat) (v : A) (i : nat) (ws : list ((A * A) * L))
    : option L :=
    match ws with
    | [] => None
    | (w, lab) :: r =>
        if bin_test right add_bounds nlab i w v then Some lab
        else scan right add_bounds nlab v (S i) r
    end.

  (* the materialised edge vector *)
  Definition mat_bins (add_bounds : bool) (edges : list A) : list A :=
    if add_bounds then tmin :: edges ++ [tmax] else edges.

  (* the closure applied to one element *)
  Definition cut1 (right add_bounds : bool) (edges : list A) (labels : list L) (x : option A) : item L :=
    match x with
    | None => NullLab
    | Some v =>
        match scan right add_bounds (length labels) v 0
                   (combine (windows (mat_bins add_bounds edges)) labels) with
        | Some lab => Lab lab
        | None => ErrItem
        end
    end.

  (* label-count check of the entry point: None = the whole call returns Err (tbail!) *)
  Definition count_ok (add_bounds : bool) (edges : list A) (labels : list L) : bool :=
    if add_bounds then length labels =? length edges + 1
    else length labels + 1 =? length edges.

  Definition vcut (right add_bounds : bool) (edges : list A) (labels : list L) (xs : list (option A))
    : option (list (item L)) :=
    if count_ok add_bounds edges labels then Some (map (cut1 right add_bounds edges labels) xs)
    else None.
End Cut.

(* ------------------------------------------------------------------ *)
(* vsorted_unique_idx / vsorted_unique                                  *)

Definition is_some {A} (o : option A) : bool := match o with Some _ => true | None => false end.

Section Unique.
  Context {A : Type}.
  Variable eqb : A -> A -> bool.           (* `==` of T::Inner *)

  (* `last_value == Some(v.clone())` *)
  Definition last_is (last : option A) (v : A) : bool :=
    match last with Some u => eqb u v | None => false end.

  (* Keep::First: enumerate().filter_map with the captured `last_value`; nulls leave the state alone *)
  Fixpoint uidx_first_go (last : option A) (i : nat) (xs : list (option A)) : list nat :=
    match xs with
    | [] => []
    | Some v :: r =>
        if last_is last v then uidx_first_go last (S i) r
        else i :: uidx_first_go (Some v) (S i) r
    | None :: r => uidx_first_go last (S i) r
    end.
  Definition uidx_first (xs : list (option A)) : list nat := uidx_first_go None 0 xs.

  (* Keep::Last: the first element initialises `last_value`; the rest, followed by the sentinel None,
     is enumerated from 0, so that index i is the position of the PREVIOUS element *)
  Fixpoint uidx_last_go (last : option A) (i : nat) (ys : list (option A)) : list nat :=
    match ys with
    | [] => []
    | Some v :: r =>
        if last_is last v then uidx_last_go last (S i) r
        else (if is_some last then [i] else []) ++ uidx_last_go (Some v) (S i) r
    | None :: r => (if is_some last then [i] else []) ++ uidx_last_go None (S i) r
    end.
  Definition uidx_last (xs : list (option A)) : list nat :=
    match xs with
    | [] => uidx_last_go None 0 [None]
    | x :: r => uidx_last_go x 0 (r ++ [None])
    end.

  (* vsorted_unique: `value` = last emitted value *)
  Fixpoint uniq_go (value : option A) (xs : list (option A)) : list A :=
    match xs with
    | [] => []
    | Some v :: r =>
        match value with
        | Some lv => if negb (eqb v lv) then v :: uniq_go (Some v) r else uniq_go value r
        | None => v :: uniq_go (Some v) r
        end
    | None :: r => uniq_go value r
    end.
  Definition vsorted_unique (xs : list (option A)) : list A := uniq_go None xs.
End Unique.

(* ------------------------------------------------------------------ *)
(* The entry point as the code receives its arguments (added by the C14 audit; definitions only; nothing above is
   changed).  The edge vector is a Vec1View<T>, so its elements may be null.  After the label-count guard (`tbail!`, which
   looks at the lengths only) the code collects `bins.titer().map(IsNone::unwrap)`: for Option<_> edges a None panics
   (`Option::unwrap()` on a `None` value) AT CALL TIME, before any item is produced; for float edges `unwrap` is the
   identity and a NaN edge simply stays in the vector (use `vcut` with the NaN among the edges).
   `collect_items nullable`: the label type T2 has a null or not; without one `T2::none()` panics ("Cannot call none()
   on a non-float type") when the first null VALUE is reached, i.e. the iteration unwinds.                          *)
Definition item_is_null {L} (it : item L) : bool := match it with NullLab => true | _ => false end.

Section CutCall.
  Context {A L : Type}.
  Variables ltb leb : A -> A -> bool.
  Variables tmin tmax : A.

  Fixpoint unwrap_all (es : list (option A)) : option (list A) :=
    match es with
    | [] => Some []
    | Some e :: r => match unwrap_all r with Some l => Some (e :: l) | None => None end
    | None :: _ => None
    end.

  Definition vcut_call (right add_bounds : bool) (edges : list (option A)) (labels : list L) (xs : list (option A))
    : res (option (list (item L))) :=
    if count_ok add_bounds edges labels then
      match unwrap_all edges with
      | Some es => Ok (Some (map (cut1 ltb leb tmin tmax right add_bounds es labels) xs))
      | None => Panic UnwrapNone
      end
    else Ok None.

  Definition collect_items (nullable : bool) (its : list (item L)) : res (list (item L)) :=
    if negb nullable && existsb item_is_null its then Panic OtherPanic else Ok its.
End CutCall.
