(* Model/Iter.v — iterator states behind tevec's trusted-length iterators (property C09).
   Definitions only (always runnable).

   An iterator is a value of the inductive type `it`; `step fuel back s` is one call of
   `next()` (back = false) or `next_back()` (back = true) and returns the item together with the NEW
   state (a call that returns None may still have changed the state: Zip drops an item of `a` when `b`
   is exhausted, Chain clears an exhausted half, Take decrements `n`).  `size_hint` follows std's
   documented formulas node by node, so a wrong `ITrust` length anywhere below propagates exactly as
   it does in the code (vshift reads its input's hint through `TrustedLen::len()`).

   Anchors (repo): tea-core/src/vec_core/trusted.rs (TrustIter 141-195, collectors 254-302),
   tea-core/src/linspace.rs, tea-map/src/lib.rs (shift), tea-map/src/valid_iter.rs (ffill, bfill,
   fill, vclip, vshift, vcut), tea-map/src/vec_map.rs (vdiff, vpct_change, v[arg_]partition),
   tevec/src/map.rs (winsorize), tea-core/src/vec_core/cores/view.rs (rolling_custom_iter, opt),
   tea-core/src/create.rs (range, linspace).  std: core/src/iter/adapters/{chain,zip,take,skip,
   enumerate,map,rev}.rs, core/src/iter/sources/repeat_n.rs, core/src/iter/range.rs.             *)
From Tevec Require Import Base.Prelude.
Set Implicit Arguments.
Local Open Scope nat_scope.

(* ---- items: one universal type so that heterogeneous zip / map stages fit one inductive ------- *)
Inductive val :=
| VZ (z : Z)            (* a number (integers, and floats with integral / scaled values) *)
| VNull                 (* NaN / None *)
| VPair (a b : val)     (* tuple items of zip / enumerate *)
| VErr.                 (* an Err(..) item (vcut) *)

Definition is_none (v : val) : bool := match v with VNull => true | _ => false end.
Definition not_none (v : val) : bool := negb (is_none v).

(* ---- iterator states ------------------------------------------------------------------------- *)
Inductive it :=
| IList (l : list val)                      (* slice::Iter.cloned(), vec::IntoIter, VecDeque / ndarray iter *)
| IRange (a b : nat)                        (* a..b over usize *)
| IRepeatN (v : val) (n : nat)              (* std::iter::repeat_n *)
| IChain (la lb : bool) (a b : it)          (* Chain { a: Option<A>, b: Option<B> }: la/lb = "is Some" *)
| ITake (i : it) (n : nat)
| ISkip (i : it) (n : nat)
| IZip (a b : it)                           (* the general (non-TrustedRandomAccess) Zip *)
| IMap (g : val -> val) (i : it)            (* Map with a stateless closure *)
| IMapS (g : val -> val -> val * val) (st : val) (i : it)   (* Map with an FnMut closure owning `st` *)
| IRev (i : it)
| IEnum (i : it) (k : nat)                  (* Enumerate { iter, count } *)
| IPad (la : bool) (i : it) (v : val) (n : nat)   (* i.chain(std::iter::repeat(v)).take(n) as one node *)
| ITrust (i : it) (len : nat)               (* TrustIter { iter, len } (repaired: len shrinks) *)
| ILin (start stp : Z) (index len : nat)    (* Linspace { start, step, index, len } *)
| IBox (i : it).                            (* Box<dyn TrustedLen>, &mut dyn TrustedLen: forwarding *)

(* ---- size_hint ------------------------------------------------------------------------------- *)
Definition oadd (a b : option nat) : option nat :=
  match a, b with Some x, Some y => Some (x + y) | _, _ => None end.
Definition omin (a b : option nat) : option nat :=
  match a, b with
  | Some x, Some y => Some (Nat.min x y) | Some x, None => Some x | None, Some y => Some y
  | None, None => None end.

Fixpoint size_hint (s : it) : nat * option nat :=
  match s with
  | IList l => (length l, Some (length l))
  | IRange a b => (b - a, Some (b - a))
  | IRepeatN _ n => (n, Some n)
  | IChain la lb a b =>
      match la, lb with
      | true, true => (fst (size_hint a) + fst (size_hint b), oadd (snd (size_hint a)) (snd (size_hint b)))
      | true, false => size_hint a
      | false, true => size_hint b
      | false, false => (0, Some 0)
      end
  | ITake i n =>
      if n =? 0 then (0, Some 0)
      else (Nat.min (fst (size_hint i)) n,
            match snd (size_hint i) with Some x => if x <? n then Some x else Some n | None => Some n end)
  | ISkip i n => (fst (size_hint i) - n, option_map (fun x => x - n) (snd (size_hint i)))
  | IZip a b => (Nat.min (fst (size_hint a)) (fst (size_hint b)), omin (snd (size_hint a)) (snd (size_hint b)))
  | IMap _ i | IMapS _ _ i | IRev i | IEnum i _ | IBox i => size_hint i
  | IPad _ _ _ n => (n, Some n)       (* take(n) of a chain whose tail is unbounded: min(usize::MAX, n) *)
  | ITrust _ len => (len, Some len)
  | ILin _ _ index len => (len - index, Some (len - index))
  end.

(* TrustedLen::len(): size_hint().1.unwrap() *)
Definition tlen (s : it) : res nat :=
  match snd (size_hint s) with Some n => Ok n | None => Panic UnwrapNone end.

(* ---- next / next_back ------------------------------------------------------------------------ *)
(* Iterator::nth / DoubleEndedIterator::nth_back (default bodies: advance_by(k).ok()?; next()) *)
Fixpoint nth_by (nx : it -> option val * it) (k : nat) (i : it) : option val * it :=
  match k with
  | 0 => nx i
  | S k' => let '(o, i') := nx i in
            match o with Some _ => nth_by nx k' i' | None => (None, i') end
  end.
(* `for _ in 0..k { it.next_back(); }` *)
Fixpoint drop_by (nx : it -> option val * it) (k : nat) (i : it) : it :=
  match k with 0 => i | S k' => drop_by nx k' (snd (nx i)) end.

Fixpoint step (fuel : nat) (back : bool) (s : it) {struct fuel} : option val * it :=
  match fuel with
  | 0 => (None, s)
  | S f =>
    match s with
    | IList l =>
        if back then match l with [] => (None, s) | _ => (Some (last l VNull), IList (removelast l)) end
        else match l with [] => (None, s) | x :: r => (Some x, IList r) end
    | IRange a b =>
        if a <? b then
          if back then (Some (VZ (Z.of_nat (b - 1))), IRange a (b - 1))
          else (Some (VZ (Z.of_nat a)), IRange (S a) b)
        else (None, s)
    | IRepeatN v n => match n with 0 => (None, s) | S m => (Some v, IRepeatN v m) end
    | IChain la lb a b =>
        if back then
          (* and_then_or_clear(&mut self.b, next_back).or_else(|| self.a.as_mut()?.next_back()) *)
          let try_a (b' : it) :=
              if la then let '(o, a') := step f true a in (o, IChain la false a' b')
              else (None, IChain la false a b') in
          if lb then
            let '(o, b') := step f true b in
            match o with Some x => (Some x, IChain la true a b') | None => try_a b' end
          else try_a b
        else
          let try_b (a' : it) :=
              if lb then let '(o, b') := step f false b in (o, IChain false lb a' b')
              else (None, IChain false lb a' b) in
          if la then
            let '(o, a') := step f false a in
            match o with Some x => (Some x, IChain true lb a' b) | None => try_b a' end
          else try_b a
    | ITake i n =>
        match n with
        | 0 => (None, s)
        | S m =>
            if back then
              (* let n = self.n; self.n -= 1; self.iter.nth_back(self.iter.len().saturating_sub(n)) *)
              let '(o, i') := nth_by (step f true) (fst (size_hint i) - n) i in (o, ITake i' m)
            else let '(o, i') := step f false i in (o, ITake i' m)
        end
    | ISkip i n =>
        if back then
          (* if self.len() > 0 { self.iter.next_back() } else { None } *)
          if 0 <? fst (size_hint s) then let '(o, i') := step f true i in (o, ISkip i' n) else (None, s)
        else
          (* if n > 0 { self.iter.nth(take(&mut self.n)) } else { self.iter.next() } *)
          let '(o, i') := nth_by (step f false) n i in (o, ISkip i' 0)
    | IZip a b =>
        if back then
          let sa := fst (size_hint a) in
          let sb := fst (size_hint b) in
          let a1 := drop_by (step f true) (sa - sb) a in
          let b1 := drop_by (step f true) (sb - sa) b in
          let '(oa, a2) := step f true a1 in
          let '(ob, b2) := step f true b1 in
          match oa, ob with
          | Some x, Some y => (Some (VPair x y), IZip a2 b2)
          | _, _ => (None, IZip a2 b2)      (* (None, None); the mixed cases are `unreachable!()` in std *)
          end
        else
          let '(oa, a') := step f false a in
          match oa with
          | None => (None, IZip a' b)
          | Some x =>
              let '(ob, b') := step f false b in
              match ob with
              | None => (None, IZip a' b')     (* x is dropped *)
              | Some y => (Some (VPair x y), IZip a' b')
              end
          end
    | IMap g i => let '(o, i') := step f back i in (option_map g o, IMap g i')
    | IMapS g st i =>
        let '(o, i') := step f back i in
        match o with
        | Some x => let '(st', y) := g st x in (Some y, IMapS g st' i')
        | None => (None, IMapS g st i')
        end
    | IRev i => let '(o, i') := step f (negb back) i in (o, IRev i')
    | IEnum i k =>
        let '(o, i') := step f back i in
        match o with
        | None => (None, IEnum i' k)
        | Some x =>
            if back then (Some (VPair (VZ (Z.of_nat (k + fst (size_hint i')))) x), IEnum i' k)
            else (Some (VPair (VZ (Z.of_nat k)) x), IEnum i' (S k))
        end
    | IPad la i v n =>
        if back then (None, s)          (* Take<Chain<_, Repeat<_>>> is not double-ended *)
        else match n with
             | 0 => (None, s)
             | S m =>
                 if la then
                   let '(o, i') := step f false i in
                   match o with
                   | Some x => (Some x, IPad true i' v m)
                   | None => (Some v, IPad false i' v m)
                   end
                 else (Some v, IPad false i v m)
             end
    | ITrust i len =>
        let '(o, i') := step f back i in
        (o, ITrust i' (match o with Some _ => len - 1 | None => len end))   (* saturating_sub(1) *)
    | ILin st sp index len =>
        if len <=? index then (None, s)
        else if back then (Some (VZ (st + sp * Z.of_nat (len - 1))), ILin st sp index (len - 1))
        else (Some (VZ (st + sp * Z.of_nat index)), ILin st sp (S index) len)
    | IBox i => let '(o, i') := step f back i in (o, IBox i')
    end
  end.

(* the nesting depth is enough fuel for one call and is unchanged by a call *)
Fixpoint depth (s : it) : nat :=
  match s with
  | IList _ | IRange _ _ | IRepeatN _ _ | ILin _ _ _ _ => 1
  | IChain _ _ a b | IZip a b => S (Nat.max (depth a) (depth b))
  | ITake i _ | ISkip i _ | IMap _ i | IMapS _ _ i | IRev i | IEnum i _ | IPad _ i _ _
  | ITrust i _ | IBox i => S (depth i)
  end.

Definition next (s : it) : option val * it := step (depth s) false s.
Definition next_back (s : it) : option val * it := step (depth s) true s.
Definition nextd (back : bool) (s : it) : option val * it := step (depth s) back s.

(* a consumption script: false = next(), true = next_back() *)
Fixpoint consume (cs : list bool) (s : it) : it :=
  match cs with [] => s | c :: r => consume r (snd (nextd c s)) end.

(* ---- the abstract sequence of a state (what plain forward iteration yields) -------------------- *)
Fixpoint elems (s : it) : list val :=
  match s with
  | IList l => l
  | IRange a b => map (fun k => VZ (Z.of_nat k)) (seq a (b - a))
  | IRepeatN v n => repeat v n
  | IChain la lb a b => (if la then elems a else []) ++ (if lb then elems b else [])
  | ITake i n => firstn n (elems i)
  | ISkip i n => skipn n (elems i)
  | IZip a b => map (fun p => VPair (fst p) (snd p)) (combine (elems a) (elems b))
  | IMap g i => map g (elems i)
  | IMapS g st i => run g st (elems i)
  | IRev i => rev (elems i)
  | IEnum i k => map (fun p => VPair (VZ (Z.of_nat (fst p))) (snd p))
                     (combine (seq k (length (elems i))) (elems i))
  | IPad la i v n => let e := if la then elems i else [] in firstn n e ++ repeat v (n - length e)
  | ITrust i _ => elems i
  | ILin st sp index len => map (fun k => VZ (st + sp * Z.of_nat k)) (seq index (len - index))
  | IBox i => elems i
  end.

(* plain safe iteration: call next() until it returns None (at most k+1 calls) *)
Fixpoint drain_n (k : nat) (s : it) : list val :=
  match k with
  | 0 => []
  | S k' => let '(o, s') := next s in match o with Some x => x :: drain_n k' s' | None => [] end
  end.
Definition drain (s : it) : list val := drain_n (S (length (elems s))) s.

(* ---- the raw collector: tea-core/src/vec_core/trusted.rs:254-302 ------------------------------ *)
(* with_capacity(hint); for v in iter { ptr::write(ptr, v); ptr = ptr.add(1) }; set_len(hint) *)
Inductive coutcome :=
| CDone (out : list val)                       (* every slot 0..hint-1 written once, nothing else *)
| COverflow (cap : nat) (writes : nat)         (* a write at an index >= capacity: heap overflow *)
| CUninit (buf : list (option val))            (* set_len exposes never-written slots *)
| CPanic (k : panic_kind).

Fixpoint write_all (buf : list (option val)) (ptr : nat) (items : list val) : option (list (option val)) :=
  match items with
  | [] => Some buf
  | x :: r => if ptr <? length buf
              then write_all (firstn ptr buf ++ Some x :: skipn (S ptr) buf) (S ptr) r
              else None
  end.

Fixpoint all_init (buf : list (option val)) : option (list val) :=
  match buf with
  | [] => Some []
  | None :: _ => None
  | Some v :: r => match all_init r with Some l => Some (v :: l) | None => None end
  end.

Definition collect_items (hint : option nat) (items : list val) : coutcome :=
  match hint with
  | None => CPanic OtherPanic                 (* .expect("The iterator must have an upper bound") *)
  | Some cap =>
      match write_all (repeat None cap) 0 items with
      | None => COverflow cap (length items)
      | Some buf => match all_init buf with Some l => CDone l | None => CUninit buf end
      end
  end.
Definition collect_raw (s : it) : coutcome := collect_items (snd (size_hint s)) (drain s).

(* ---- the library's adaptors as constructors of states, with their guards ------------------------ *)
(* n : Z is the i32 lag; n.unsigned_abs() as usize.  The guard `len <= n_abs` is evaluated on Z so that
   i32::MIN never becomes a unary numeral; `n_abs n` is only computed when it is below `len`. *)
Definition n_abs (n : Z) : nat := Z.abs_nat n.
Definition len_le_nabs (len : nat) (n : Z) : bool := (Z.of_nat len <=? Z.abs n)%Z.

(* tea-map/src/lib.rs:54-76 MapBasic::shift (repaired: `len <= n_abs` guard) *)
Definition shift (n : Z) (value : val) (s : it) : res it :=
  do len <- tlen s;
  if len_le_nabs len n then Ok (IBox (IRepeatN value len))
  else let na := n_abs n in
  if (0 <? n)%Z then
    do k <- usub len na;
    Ok (IBox (ITrust (IChain true true (IRepeatN value na) (ITake s k)) len))
  else if (n <? 0)%Z then
    Ok (IBox (ITrust (IChain true true (ISkip s na) (IRepeatN value na)) len))
  else Ok (IBox s).

(* tea-map/src/valid_iter.rs:305-333 MapValidBasic::vshift *)
Definition vshift (n : Z) (value : option val) (s : it) : res it :=
  shift n (match value with Some v => v | None => VNull end) s.

(* valid_iter.rs:52-74 ffill_mask closure: state = last_valid (VNull = None) *)
Definition fill_f (value : option val) (last : val) (v : val) : val * val :=
  if is_none v then
    (last, if is_none last then match value with Some x => x | None => VNull end else last)
  else (v, v).
Definition ffill (value : option val) (s : it) : it := IMapS (fill_f value) VNull s.

(* valid_iter.rs:119-146 bfill_mask: self.rev().map(f).collect_trusted_to_vec().into_iter().rev() *)
Definition bfill (value : option val) (s : it) : res it :=
  match collect_raw (IMapS (fill_f value) VNull (IRev s)) with
  | CDone l => Ok (IRev (IList l))
  | CPanic k => Panic k
  | _ => Panic OtherPanic        (* undefined behaviour in the collector *)
  end.

(* valid_iter.rs:262-285 fill / fill_mask *)
Definition fill (value : val) (s : it) : it := IMap (fun v => if is_none v then value else v) s.

Definition vlt (a b : val) : bool := match a, b with VZ x, VZ y => (x <? y)%Z | _, _ => false end.

(* valid_iter.rs:190-241 vclip: four branches on which bounds are non-null *)
Definition vclip (lower upper : val) (s : it) : it :=
  match not_none lower, not_none upper with
  | true, true => IBox (IMap (fun v => if not_none v then
                                         if vlt v lower then lower else if vlt upper v then upper else v
                                       else v) s)
  | true, false => IBox (IMap (fun v => if andb (not_none v) (vlt v lower) then lower else v) s)
  | false, true => IBox (IMap (fun v => if andb (not_none v) (vlt upper v) then upper else v) s)
  | false, false => IBox s
  end.

Definition vabs (s : it) : it :=
  IMap (fun v => match v with VZ z => VZ (Z.abs z) | _ => v end) s.

(* valid_iter.rs:372-455 vcut: None = Err(..) from the label-count check *)
Definition cut_f (bins : list Z) (labels : list val) (right : bool) (v : val) : val :=
  match v with
  | VNull => VNull
  | VZ x =>
      match find (fun w => let '((lo, hi), _) := w in
                           if right then andb (lo <? x)%Z (x <=? hi)%Z else andb (lo <=? x)%Z (x <? hi)%Z)
                 (combine (combine bins (tl bins)) labels) with
      | Some (_, lab) => lab
      | None => VErr
      end
  | _ => VErr
  end.
Definition vcut (tmin tmax : Z) (bins : list Z) (labels : list val) (right add_bounds : bool) (s : it)
  : option it :=
  if add_bounds then
    if negb (length labels =? length bins + 1) then None
    else Some (IBox (IMap (cut_f ([tmin] ++ bins ++ [tmax]) labels right) s))
  else
    if negb (length labels + 1 =? length bins) then None
    else Some (IBox (IMap (cut_f bins labels right) s)).

(* vec_map.rs:20-48 vdiff over a view `xs` (len = xs.len(), titer() = IList xs) *)
Definition vsub (a b : val) : val :=       (* b - a *)
  match a, b with VZ x, VZ y => VZ (y - x) | _, _ => VNull end.
Definition pair_f (h : val -> val -> val) (p : val) : val :=
  match p with VPair a b => h a b | _ => VErr end.

(* the `_` arm (n <= 0, lag 0 included since 18f1208 / a1124e7) shared by vdiff and vpct_change:
   titer().skip(n_abs).zip(titer()).map(h).chain(repeat_n(value, n_abs)).to_trust(len) *)
Definition lag_nonpos (h : val -> val -> val) (na : nat) (value : val) (xs : list val) : it :=
  IBox (ITrust (IChain true true
                  (IMap (pair_f h) (IZip (ISkip (IList xs) na) (IList xs)))
                  (IRepeatN value na)) (length xs)).

(* vdiff (repaired by bf86c60 and 18f1208): for n > 0 the fill values come first, as they are:
   repeat_n(value, n_abs).chain(titer().take(len - n_abs).zip(titer().skip(n_abs)).map(|(a, b)| b - a)) *)
Definition vdiff (n : Z) (value : option val) (xs : list val) : res it :=
  let value := match value with Some v => v | None => VNull end in
  let len := length xs in
  if len_le_nabs len n then Ok (IBox (IRepeatN value len))
  else let na := n_abs n in
  if (0 <? n)%Z then
    do k <- usub len na;
    Ok (IBox (ITrust (IChain true true (IRepeatN value na)
                        (IMap (pair_f vsub) (IZip (ITake (IList xs) k) (ISkip (IList xs) na)))) len))
  else Ok (lag_nonpos vsub na value xs).

(* vec_map.rs:60-100 vpct_change: only the null pattern of the quotient is modelled (VZ 1 = a number) *)
Definition vpct (a b : val) : val :=
  match a, b with
  | VZ x, VZ y => if (x =? 0)%Z then VNull else VZ 1
  | _, _ => VNull
  end.
(* n > 0: repeat_n(NaN, n_abs).chain(titer().take(len - n_abs).map(cast)).zip(titer()).map(..) (unchanged) *)
Definition vpct_change (n : Z) (xs : list val) : res it :=
  let len := length xs in
  if len_le_nabs len n then Ok (IBox (IRepeatN VNull len))
  else let na := n_abs n in
  if (0 <? n)%Z then
    do k <- usub len na;
    Ok (IBox (ITrust (IMap (pair_f vpct)
                       (IZip (IChain true true (IRepeatN VNull na) (ITake (IList xs) k)) (IList xs))) len))
  else Ok (lag_nonpos vpct na VNull xs).

(* vec_map.rs:280-406 partitions: which TrustIter length wraps which iterator.  The ORDER of the
   yielded values (selection / sort) belongs to property C12; here the content is the input order. *)
Definition count_valid (xs : list val) : nat := length (filter not_none xs).

Definition vpartition (kth : nat) (sort : bool) (xs : list val) : it :=
  let n := count_valid xs in
  if andb (n =? kth + 1) (negb sort) then IBox (ITrust (IList (filter not_none xs)) (kth + 1))
  else if n <=? kth + 1 then
    if negb sort then IBox (ITrust (IPad true (IList (filter not_none xs)) VNull (kth + 1)) (kth + 1))
    else IBox (ITrust (IPad true (IList xs) VNull (kth + 1)) (kth + 1))   (* 139b672: padded like the unsorted arm *)
  else IBox (ITrust (IList (firstn (kth + 1) xs)) (kth + 1)).

Definition idx_valid (xs : list val) : list val :=
  map (fun p => VZ (Z.of_nat (fst p))) (filter (fun p => not_none (snd p)) (combine (seq 0 (length xs)) xs)).

Definition varg_partition (kth : nat) (sort : bool) (xs : list val) : it :=
  let n := count_valid xs in
  if n <=? kth + 1 then
    if negb sort then IBox (ITrust (IPad true (IList (idx_valid xs)) (VZ (-1)) (kth + 1)) (kth + 1))
    else IBox (ITrust (IPad true (ITake (IList (map (fun k => VZ (Z.of_nat k)) (seq 0 (length xs)))) n)
                            (VZ (-1)) (kth + 1)) (kth + 1))
  else IBox (ITrust (IList (firstn (kth + 1) (map (fun k => VZ (Z.of_nat k)) (seq 0 (length xs))))) (kth + 1)).

(* tevec/src/map.rs:44-94 winsorize: every branch is iter_cast (+ vclip): one item per element,
   nulls stay null, numbers stay numbers (the clip bounds are C20's business) *)
Definition winsorize (xs : list val) : it :=
  IBox (IMap (fun v => if is_none v then VNull else VZ 1) (IList xs)).

(* view.rs:311-319 rolling_custom_iter: (1..len+1).zip(repeat_n(0, w-1).chain(0..len)).map(f).to_trust(len);
   the callback of the harness returns (slice length, first element of the slice) *)
Definition roll_f (xs : list val) (p : val) : val :=
  match p with
  | VPair (VZ e) (VZ st) =>
      VPair (VZ (e - st)) (nth (Z.to_nat st) xs VNull)
  | _ => VErr
  end.
Definition rolling_custom_iter (w : nat) (xs : list val) : res it :=
  let len := length xs in
  do w1 <- usub w 1;
  Ok (ITrust (IMap (roll_f xs)
                (IZip (IRange 1 (len + 1)) (IChain true true (IRepeatN (VZ 0) w1) (IRange 0 len)))) len).

(* view.rs:182-194 + iter.rs opt view: titer().map(to_opt) *)
Definition opt_view (xs : list val) : it := IMap (fun v => v) (IList xs).

(* linspace.rs:66-108.  Values are integers (or floats on a common dyadic grid, scaled to integers).
   `linspace`: step = (b - a) / (n - 1) (truncating for integers) when n > 1, else 0. *)
Definition linspace (a b : Z) (n : nat) : it :=
  ILin a (if 1 <? n then Z.quot (b - a) (Z.of_nat (n - 1)) else 0%Z) 0 n.
(* `range` (repaired by e1a8736): empty when nothing lies strictly before `b` in the direction of the
   step, else ceil of the exact quotient (b - a) / step (both have the sign of the step there) *)
Definition range_empty (a b stp : Z) : bool := if (0 <? stp)%Z then (b <=? a)%Z else (a <=? b)%Z.
Definition range_count (a b stp : Z) : nat :=
  if range_empty a b stp then 0
  else if (stp =? 0)%Z then 0      (* floats: ceil(-inf) + 1 cast to usize saturates at 0 *)
  else Z.to_nat ((Z.abs (b - a) + Z.abs stp - 1) / Z.abs stp).
Definition range_f (a b stp : Z) : it := ILin a stp 0 (range_count a b stp).
(* integer element types: step = 0 with a non-empty direction divides by zero *)
Definition range_i (a b stp : Z) : res it :=
  if andb (negb (range_empty a b stp)) (stp =? 0)%Z then Panic OtherPanic
  else Ok (ILin a stp 0 (range_count a b stp)).

(* Vec1Create::{range, linspace}: collect_from_trusted(lin.map(T::from_inner)) *)
Definition create (s : it) : coutcome := collect_raw (IMap (fun v => v) s).

(* ---- pipelines: the adaptor grammar of the random part of the harness --------------------------- *)
Inductive source :=
| SVec (xs : list val)                       (* v.titer() *)
| SRev (xs : list val)                       (* v.titer().rev() *)
| SBfill (value : option val) (xs : list val)(* v.titer().bfill(value) *)
| SVdiff (n : Z) (value : option val) (xs : list val)
| SRoll (w : nat) (xs : list val)            (* v.rolling_custom_iter(w, ..) *)
| SLinspace (a b : Z) (n : nat)
| SRepeatN (v : val) (n : nat).

Inductive stage :=
| GShift (n : Z) (v : val)
| GVShift (n : Z) (v : option val)
| GFfill (v : option val)
| GFill (v : val)
| GClip (lo hi : val)
| GAbs
| GTake (k : nat)                            (* .take(k) *)
| GChainBack (v : val) (k : nat)             (* .chain(repeat_n(v, k)) *)
| GChainFront (v : val) (k : nat)            (* repeat_n(v, k).chain(self) *)
| GZipRange (k : nat)                        (* .zip(0..k).map(|(a, b)| a + b) *)
| GEnumFst                                   (* .enumerate().map(|(i, a)| a + i) *)
| GTrust                                     (* let n = it.len(); it.to_trust(n) *)
| GAdvance (k : nat).                        (* call next() k times, keep going with the rest *)

Definition build_source (src : source) : res it :=
  match src with
  | SVec xs => Ok (IList xs)
  | SRev xs => Ok (IRev (IList xs))
  | SBfill v xs => bfill v (IList xs)
  | SVdiff n v xs => vdiff n v xs
  | SRoll w xs => do s <- rolling_custom_iter w xs; Ok (IMap (pair_f (fun a _ => a)) s)
  | SLinspace a b n => Ok (linspace a b n)
  | SRepeatN v n => Ok (IRepeatN v n)
  end.

Definition vadd (a b : val) : val := match a, b with VZ x, VZ y => VZ (x + y) | _, _ => VNull end.

Definition apply_stage (g : stage) (s : it) : res it :=
  match g with
  | GShift n v => shift n v s
  | GVShift n v => vshift n v s
  | GFfill v => Ok (ffill v s)
  | GFill v => Ok (fill v s)
  | GClip lo hi => Ok (vclip lo hi s)
  | GAbs => Ok (vabs s)
  | GTake k => Ok (ITake s k)
  | GChainBack v k => Ok (IChain true true s (IRepeatN v k))
  | GChainFront v k => Ok (IChain true true (IRepeatN v k) s)
  | GZipRange k => Ok (IMap (pair_f vadd) (IZip s (IRange 0 k)))
  | GEnumFst => Ok (IMap (pair_f vadd) (IEnum s 0))
  | GTrust => do n <- tlen s; Ok (ITrust s n)
  | GAdvance k => Ok (consume (repeat false k) s)
  end.

Fixpoint apply_stages (gs : list stage) (s : it) : res it :=
  match gs with
  | [] => Ok s
  | g :: r => do s' <- apply_stage g s; apply_stages r (IBox s')
  end.

Definition build (src : source) (gs : list stage) : res it :=
  do s <- build_source src; apply_stages gs (IBox s).

(* ==== the other consuming methods (X21) =============================================================
   TrustIter (tea-core/src/vec_core/trusted.rs:149-183) overrides `next`, `size_hint` and `next_back`
   ONLY; `nth`, `nth_back`, `last`, `count`, `fold`, `advance_by` are inherited from std's trait
   defaults (core/src/iter/traits/iterator.rs, double_ended.rs):
     advance_by(n): for i in 0..n { if self.next().is_none() { return Err(n - i) } } Ok(())
     nth(n):        self.advance_by(n).ok()?; self.next()              = `nth_by next n`
     nth_back(n):   self.advance_back_by(n).ok()?; self.next_back()    = `nth_by next_back n`
     fold(init, f): while let Some(x) = self.next() { acc = f(acc, x) } acc
     last():        self.fold(None, |_, x| Some(x))
     count():       self.fold(0, |n, _| n + 1)
   i.e. at most k+1 calls of next(), stopping at the first None.  The std adaptors below a TrustIter
   that do override `nth` (Chain, Skip, Take, Rev, Enumerate, slice / range sources) promise the same
   observable result; that promise is checked by the correspondence run, not assumed by the theorems
   (which are about this model).                                                                    *)
Definition nthd (back : bool) (k : nat) (s : it) : option val * it := nth_by (nextd back) k s.
Definition nth_it (k : nat) (s : it) : option val * it := nthd false k s.
Definition nth_back_it (k : nat) (s : it) : option val * it := nthd true k s.

(* what a caller writes by hand: `for _ in 0..k { it.next(); } it.next()` — k+1 calls, no early exit *)
Fixpoint calls (back : bool) (k : nat) (s : it) : option val * it :=
  match k with 0 => nextd back s | S k' => calls back k' (snd (nextd back s)) end.

(* one more call unless the previous one already returned None (the early exit of advance_by) *)
Definition and_next (back : bool) (p : option val * it) : option val * it :=
  match fst p with Some _ => nextd back (snd p) | None => p end.

(* Iterator::advance_by / DoubleEndedIterator::advance_back_by: (number of steps NOT taken, state) *)
Fixpoint advance_by (back : bool) (k : nat) (s : it) : nat * it :=
  match k with
  | 0 => (0, s)
  | S k' => let '(o, s') := nextd back s in
            match o with Some _ => advance_by back k' s' | None => (k, s') end
  end.

(* Iterator::fold / DoubleEndedIterator::rfold; the fuel bounds the number of Some items (drain's bound) *)
Fixpoint fold_n {A : Type} (fuel : nat) (back : bool) (f : A -> val -> A) (acc : A) (s : it) : A * it :=
  match fuel with
  | 0 => (acc, s)
  | S k => let '(o, s') := nextd back s in
           match o with Some x => fold_n k back f (f acc x) s' | None => (acc, s') end
  end.
Definition fold_it {A : Type} (back : bool) (f : A -> val -> A) (acc : A) (s : it) : A * it :=
  fold_n (S (length (elems s))) back f acc s.
Definition last_it (s : it) : option val * it := fold_it false (fun _ x => Some x) None s.
Definition count_it (s : it) : nat * it := fold_it false (fun n _ => S n) 0 s.

(* the instruction set of consumption scripts *)
Inductive instr :=
| INext
| INextBack
| INth (k : nat)
| INthBack (k : nat).

Definition instr_back (c : instr) : bool :=
  match c with INext | INth _ => false | INextBack | INthBack _ => true end.

Definition exec (c : instr) (s : it) : option val * it :=
  match c with
  | INext => next s
  | INextBack => next_back s
  | INth k => nth_it k s
  | INthBack k => nth_back_it k s
  end.

Fixpoint run_script (cs : list instr) (s : it) : it :=
  match cs with [] => s | c :: r => run_script r (snd (exec c s)) end.

Definition instr_of_bool (c : bool) : instr := if c then INextBack else INext.

(* ---- adaptors built on nth: Skip (already a node: its next() is `iter.nth(take(&mut n))`) and StepBy.
   core/src/iter/adapters/step_by.rs, the generic (non-Range) implementation:
     new(iter, step):   assert!(step != 0); StepBy { iter, step_minus_one: step - 1, first_take: true }
     next():            let k = if first_take { 0 } else { step_minus_one }; first_take = false; iter.nth(k)
     size_hint():       first_take: n == 0 ? 0 : 1 + (n - 1) / (step_minus_one + 1);  else n / (step_minus_one + 1)
   StepBy is a wrapper around a state (not a node of `it`): the library declares it TrustedLen
   (trusted.rs:99) and it is the std client that calls `nth` on a TrustIter for every item.          *)
Record stepby := StepBy { sb_iter : it; sb_step1 : nat; sb_first : bool }.

Definition step_by (n : nat) (s : it) : res stepby :=
  if n =? 0 then Panic AssertFail else Ok (StepBy s (n - 1) true).

Definition sb_next (t : stepby) : option val * stepby :=
  let k := if sb_first t then 0 else sb_step1 t in
  let '(o, i') := nth_it k (sb_iter t) in (o, StepBy i' (sb_step1 t) false).

Definition sb_size (first : bool) (step1 n : nat) : nat :=
  if first then (if n =? 0 then 0 else 1 + (n - 1) / (step1 + 1)) else n / (step1 + 1).

Definition sb_size_hint (t : stepby) : nat * option nat :=
  (sb_size (sb_first t) (sb_step1 t) (fst (size_hint (sb_iter t))),
   option_map (sb_size (sb_first t) (sb_step1 t)) (snd (size_hint (sb_iter t)))).

Fixpoint sb_drain_n (fuel : nat) (t : stepby) : list val :=
  match fuel with
  | 0 => []
  | S k => let '(o, t') := sb_next t in match o with Some x => x :: sb_drain_n k t' | None => [] end
  end.
Definition sb_drain (t : stepby) : list val := sb_drain_n (S (length (elems (sb_iter t)))) t.

Fixpoint sb_consume (k : nat) (t : stepby) : stepby :=
  match k with 0 => t | S k' => sb_consume k' (snd (sb_next t)) end.

(* the abstract sequence of a StepBy: every (step1+1)-th element, from offset 0 (first) or step1 *)
Fixpoint every_nth (fuel step1 : nat) (l : list val) : list val :=
  match fuel with
  | 0 => []
  | S f => match l with [] => [] | x :: r => x :: every_nth f step1 (skipn step1 r) end
  end.
Definition sb_elems (t : stepby) : list val :=
  let l := elems (sb_iter t) in
  every_nth (length l) (sb_step1 t) (if sb_first t then l else skipn (sb_step1 t) l).
