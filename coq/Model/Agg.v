(* Model/Agg.v — tea-core/src/agg.rs (AggValidBasic, AggBasic), tea-agg/src/lib.rs (AggValidExt: masked
   sum / mean, vkurt), tea-core/src/vec_core/iter_traits.rs (vfold, vfold_n, vapply_n), tea-dtype/src/number.rs
   (min_with / max_with): the one-pass aggregation folds exactly as written, once over
     A  : the element's inner numeric type (T::Inner),   T : the element type with its null dictionary,
     F  : the type the statistics are computed in (f64),  tof : A -> F  = Number::f64.
   Instances: proofs  A = F = XR, tof = id  and  A = Z (exact kernels);  execution  A = F = float  /  A = Z, F = float.
   `vmean_var` is modelled AFTER the repair of defect #9 (n < 2 tested before the EPS floor).
   Definitions only.                                                                                      *)
From Coq Require Import ZArith.
From Tevec Require Import Base.Prelude Base.Num.
Set Implicit Arguments.

(* the integer carrier: code that stays in the integer element type (vsum, vmin, vmax, arg-extrema, counts) *)
Definition AggNumZ : Num Z := {|
  nzero := 0%Z; none := 1%Z;
  nadd := Z.add; nsub := Z.sub; nmul := Z.mul; ndiv := Z.quot;
  nneg := Z.opp; nabs := Z.abs; nsqrt := Z.sqrt;
  nofZ := fun z => z;
  nltb := Z.ltb; nleb := Z.leb; neqb := Z.eqb;
  nisnan := fun _ => false; nnan := 0%Z; neps := 0%Z; ntwo := 2%Z;
|}.

(* null dictionaries that need no numeric structure: never-null element types (i32, i64, bool), Option<_> *)
Definition IsNone_plain {A} : IsNone A A := {| is_none := fun _ => false; unwrap := fun x => x |}.
Definition IsNone_opt {A} (dflt : A) : IsNone (option A) A :=
  {| is_none := fun o => match o with None => true | Some _ => false end;
     unwrap := fun o => match o with Some x => x | None => dflt end |}.

(* ---- iter_traits.rs : null-skipping folds -------------------------------------------------------- *)
Section Folds.
  Context {A T : Type} {DT : IsNone T A}.

  (* vfold: fold(init, |acc, v| if v.not_none() { f(acc, v) } else { acc }) *)
  Definition vfold {U} (f : U -> T -> U) (init : U) (xs : list T) : U :=
    fold_left (fun acc v => if not_none v then f acc v else acc) xs init.

  (* vfold_n: the same with the count of valid elements; the callback receives v.unwrap() *)
  Definition vfold_n {U} (f : U -> A -> U) (init : U) (xs : list T) : nat * U :=
    fold_left (fun na v => if not_none v then (S (fst na), f (snd na) (unwrap v)) else na) xs (0, init).

  (* vapply_n: FnMut(Inner) mutating captured accumulators = vfold_n threading them as state *)
  Definition vapply_n {U} (f : U -> A -> U) (init : U) (xs : list T) : nat * U := vfold_n f init xs.
End Folds.

(* ---- AggValidBasic / AggValidExt ----------------------------------------------------------------- *)
Section Agg.
  Context {A : Type} {NA : Num A} {T : Type} {DT : IsNone T A} {F : Type} {NF : Num F}.
  Variable tof : A -> F.                       (* Number::f64 *)
  Local Open Scope num_scope.

  Definition three : F := nofZ 3.
  Definition four : F := nofZ 4.
  Definition six : F := nofZ 6.

  (* agg.rs:31 count_valid (and the deprecated count): vfold_n((), |(), _| {}).0 *)
  Definition count_valid (xs : list T) : nat := fst (vfold_n (fun (u : unit) (_ : A) => u) tt xs).

  (* agg.rs:57 vfirst: find(|v| v.not_none());  agg.rs:87 vlast: rev().find(..) *)
  Definition vfirst (xs : list T) : option T := find (fun v => not_none v) xs.
  Definition vlast (xs : list T) : option T := find (fun v => not_none v) (rev xs).

  (* agg.rs count_none: for_each(|v| if v.is_none() { n += 1 }) *)
  Definition count_none (xs : list T) : nat :=
    fold_left (fun n v => if is_none v then S n else n) xs 0%nat.

  (* agg.rs vcount_value *)
  Definition vcount_value (value : T) (xs : list T) : nat :=
    if not_none value then
      let value' := unwrap value in
      vfold (fun acc x => if neqb (unwrap x) value' then S acc else acc) 0%nat xs
    else fold_left (fun acc x => if is_none x then S acc else acc) xs 0%nat.

  (* agg.rs:236 vsum / agg.rs:275 vmean: the sum is accumulated in the inner type, then cast *)
  Definition vsum (xs : list T) : option A :=
    let ns := vfold_n (fun acc x => acc + x) nzero xs in
    if 1 <=? fst ns then Some (snd ns) else None.
  Definition vmean (xs : list T) : F :=
    let ns := vfold_n (fun acc x => acc + x) nzero xs in
    if 1 <=? fst ns then tof (snd ns) / nofnat (fst ns) else nnan.

  (* agg.rs:321 vmean_var (repaired: `n < 2` is decided before the EPS floor) *)
  Definition mv_step (s : F * F) (v : A) : F * F :=
    let v := tof v in (fst s + v, snd s + v * v).
  Definition vmean_var (mp : nat) (xs : list T) : F * F :=
    let ns := vapply_n mv_step (nzero, nzero) xs in
    let n := fst ns in
    if n <? mp then (nnan, nnan) else
    let nf := nofnat n in
    let m1 := fst (snd ns) / nf in
    let m2 := snd (snd ns) / nf in
    let m2 := m2 - powi m1 2 in
    if n <? 2 then (m1, nnan)
    else if nleb m2 neps then (m1, nzero)
    else (m1, m2 * nf / nofnat (n - 1)%nat).
  Definition vvar (mp : nat) (xs : list T) : F := snd (vmean_var mp xs).
  Definition vstd (mp : nat) (xs : list T) : F := nsqrt (vvar mp xs).

  (* the code as it was before the repair (kept for the refutation remark and the mutation self-test) *)
  Definition vmean_var_before_fix (mp : nat) (xs : list T) : F * F :=
    let ns := vapply_n mv_step (nzero, nzero) xs in
    let n := fst ns in
    if n <? mp then (nnan, nnan) else
    let nf := nofnat n in
    let m1 := fst (snd ns) / nf in
    let m2 := snd (snd ns) / nf in
    let m2 := m2 - powi m1 2 in
    if nleb m2 neps then (m1, nzero)
    else if 2 <=? n then (m1, m2 * nf / nofnat (n - 1)%nat)
    else (nnan, nnan).

  (* agg.rs:444 vskew *)
  Definition sk_step (s : F * F * F) (v : A) : F * F * F :=
    let '(m1, m2, m3) := s in
    let v := tof v in let v2 := v * v in (m1 + v, m2 + v2, m3 + v2 * v).
  Definition vskew (mp : nat) (xs : list T) : F :=
    let ns := vapply_n sk_step (nzero, nzero, nzero) xs in
    let n := fst ns in
    let '(m1, m2, m3) := snd ns in
    if n <? mp then nnan else
    let res :=
      if 3 <=? n then
        let nf := nofnat n in
        let m1 := m1 / nf in
        let m2 := m2 / nf in
        let var := m2 - powi m1 2 in
        if nleb var neps then nzero
        else
          let std := nsqrt var in
          let m3 := m3 / nf in
          let mean_std := m1 / std in
          m3 / powi std 3 - three * mean_std - powi mean_std 3
      else nnan in
    if negb (nisnan res) && negb (neqb res nzero) then
      let adjust := nsqrt (nofnat (n * (n - 1))%nat) / nofnat (n - 2)%nat in
      res * adjust
    else res.

  (* tea-agg/src/lib.rs:101 vkurt *)
  Definition ku_step (s : F * F * F * F) (v : A) : F * F * F * F :=
    let '(m1, m2, m3, m4) := s in
    let v := tof v in let v2 := v * v in (m1 + v, m2 + v2, m3 + v2 * v, m4 + v2 * v2).
  Definition vkurt (mp : nat) (xs : list T) : F :=
    let ns := vapply_n ku_step (nzero, nzero, nzero, nzero) xs in
    let n := fst ns in
    let '(m1, m2, m3, m4) := snd ns in
    if n <? mp then nnan else
    let res :=
      if 4 <=? n then
        let nf := nofnat n in
        let m1 := m1 / nf in
        let m2 := m2 / nf in
        let var := m2 - powi m1 2 in
        if nleb var neps then nzero
        else
          let var2 := powi var 2 in
          let m4 := m4 / nf in
          let m3 := m3 / nf in
          let mean2_var := powi m1 2 / var in
          (m4 - four * m1 * m3) / var2 + six * mean2_var + three * powi mean2_var 2
      else nnan in
    if negb (nisnan res) && negb (neqb res nzero) then
      none / nofnat ((n - 2) * (n - 3))%nat
      * (nofnat (n * n - 1)%nat * res - nofnat (3 * ((n - 1) * (n - 1)))%nat)
    else res.

  (* number.rs:85 min_with / max_with *)
  Definition min_with (self other : A) : A := if nltb other self then other else self.
  Definition max_with (self other : A) : A := if nltb self other then other else self.

  (* agg.rs:502 vmax / agg.rs:532 vmin *)
  Definition vmax (xs : list T) : option A :=
    vfold (fun acc x => match acc with None => Some (unwrap x) | Some v => Some (max_with v (unwrap x)) end) None xs.
  Definition vmin (xs : list T) : option A :=
    vfold (fun acc x => match acc with None => Some (unwrap x) | Some v => Some (min_with v (unwrap x)) end) None xs.

  (* agg.rs:562 vargmax / agg.rs:609 vargmin: state (extreme, its index, current index); the index counts nulls;
     `better cur new` says the new value replaces the current extreme (strictly, so the FIRST extreme wins) *)
  Definition arg_step (better : A -> A -> bool) (s : option A * option nat * nat) (v : T)
    : option A * option nat * nat :=
    let '(ext, idx, cur) := s in
    if not_none v then
      let v := unwrap v in
      match ext with
      | Some e => if better e v then (Some v, Some cur, S cur) else (ext, idx, S cur)
      | None => (Some v, Some cur, S cur)
      end
    else (ext, idx, S cur).
  Definition varg (better : A -> A -> bool) (xs : list T) : option nat :=
    snd (fst (fold_left (arg_step better) xs (None, None, 0%nat))).
  Definition vargmax (xs : list T) : option nat := varg (fun e v => nltb e v) xs.   (* v > max *)
  Definition vargmin (xs : list T) : option nat := varg (fun e v => nltb v e) xs.   (* v < min *)

  (* two-series functions; the second series has its own element type and dictionary *)
  Context {T2 : Type} {DT2 : IsNone T2 A}.

  (* agg.rs:653 vcov *)
  Definition cov_step (s : nat * F * F * F) (p : T * T2) : nat * F * F * F :=
    let '(n, sa, sb, sab) := s in
    if not_none (fst p) && not_none (snd p) then
      let va := tof (unwrap (fst p)) in let vb := tof (unwrap (snd p)) in
      (S n, sa + va, sb + vb, sab + va * vb)
    else s.
  Definition vcov (mp : nat) (xs : list T) (ys : list T2) : F :=
    let mp := Nat.max mp 2 in
    let '(n, sa, sb, sab) := fold_left cov_step (combine xs ys) (0%nat, nzero, nzero, nzero) in
    if mp <=? n then (sab - (sa * sb) / nofnat n) / nofnat (n - 1)%nat else nnan.

  (* agg.rs:701 vcorr_pearson *)
  Definition corr_step (s : nat * F * F * F * F * F) (p : T * T2) : nat * F * F * F * F * F :=
    let '(n, sa, s2a, sb, s2b, sab) := s in
    if not_none (fst p) && not_none (snd p) then
      let va := tof (unwrap (fst p)) in let vb := tof (unwrap (snd p)) in
      (S n, sa + va, s2a + va * va, sb + vb, s2b + vb * vb, sab + va * vb)
    else s.
  Definition vcorr_pearson (mp : nat) (xs : list T) (ys : list T2) : F :=
    let mp := Nat.max mp 2 in
    let '(n, sa, s2a, sb, s2b, sab) :=
      fold_left corr_step (combine xs ys) (0%nat, nzero, nzero, nzero, nzero, nzero) in
    if mp <=? n then
      let nf := nofnat n in
      let mean_a := sa / nf in
      let var_a := s2a / nf in
      let mean_b := sb / nf in
      let var_b := s2b / nf in
      let var_a := var_a - powi mean_a 2 in
      let var_b := var_b - powi mean_b 2 in
      if nltb neps var_a && nltb neps var_b then
        let exy := sab / nf in
        let exey := sa * sb / (nf * nf) in
        (exy - exey) / nsqrt (var_a * var_b)
      else nnan
    else nnan.

  (* tea-agg/src/lib.rs:26 n_vsum_filter: zip(mask).filter_map(flag valid && flag true).vfold_n(zero, +) *)
  Context {U : Type} {DU : IsNone U bool}.
  Definition mask_filter (xs : list T) (mask : list U) : list T :=
    flat_map (fun p : T * U =>
                if not_none (snd p) then (if (unwrap (snd p) : bool) then [fst p] else []) else [])
             (combine xs mask).
  Definition n_vsum_filter (xs : list T) (mask : list U) : nat * A :=
    vfold_n (fun acc x => acc + x) nzero (mask_filter xs mask).
  Definition n_sum_filter (xs : list T) (mask : list U) : option A :=
    let ns := n_vsum_filter xs mask in if 1 <=? fst ns then Some (snd ns) else None.
  Definition vmean_filter (mp : nat) (xs : list T) (mask : list U) : F :=
    let ns := n_vsum_filter xs mask in
    if mp <=? fst ns then tof (snd ns) / nofnat (fst ns) else nnan.
End Agg.

(* ---- boolean aggregations (agg.rs vany / vall; AggBasic any / all) -------------------------------- *)
Section BoolAgg.
  Context {TB : Type} {DB : IsNone TB bool}.
  Definition vany (xs : list TB) : bool := vfold (fun acc x => acc || unwrap x) false xs.
  Definition vall (xs : list TB) : bool := vfold (fun acc x => acc && unwrap x) true xs.
End BoolAgg.
Definition any_plain (xs : list bool) : bool := existsb (fun x => x) xs.
Definition all_plain (xs : list bool) : bool := forallb (fun x => x) xs.

(* ---- AggBasic: the plain family, every element is an ordinary value ------------------------------- *)
Section Plain.
  Context {A : Type} {NA : Num A} {F : Type} {NF : Num F}.
  Variable tof : A -> F.
  Local Open Scope num_scope.

  Definition count_value (value : A) (xs : list A) : nat :=
    fold_left (fun acc x => if neqb x value then S acc else acc) xs 0%nat.
  Definition first {X} (xs : list X) : option X := match xs with [] => None | x :: _ => Some x end.
  Definition last {X} (xs : list X) : option X := first (rev xs).
  Definition n_sum (xs : list A) : nat * option A :=
    let ns := fold_left (fun na x => (S (fst na), snd na + x)) xs (0%nat, nzero) in
    if 1 <=? fst ns then (fst ns, Some (snd ns)) else (fst ns, None).
  Definition sum (xs : list A) : option A := snd (n_sum xs).
  Definition mean (xs : list A) : option F :=
    let ns := n_sum xs in
    match snd ns with Some v => Some (tof v / nofnat (fst ns)) | None => None end.
  Definition pmax (xs : list A) : option A :=
    fold_left (fun acc x => match acc with None => Some x | Some v => Some (max_with v x) end) xs None.
  Definition pmin (xs : list A) : option A :=
    fold_left (fun acc x => match acc with None => Some x | Some v => Some (min_with v x) end) xs None.
  Definition parg_step (better : A -> A -> bool) (s : option A * option nat * nat) (v : A) :=
    let '(ext, idx, cur) := s in
    match ext with
    | Some e => if better e v then (Some v, Some cur, S cur) else (ext, idx, S cur)
    | None => (Some v, Some cur, S cur)
    end.
  Definition parg (better : A -> A -> bool) (xs : list A) : option nat :=
    snd (fst (fold_left (parg_step better) xs (None, None, 0%nat))).
  Definition argmax (xs : list A) : option nat := parg (fun e v => nltb e v) xs.
  Definition argmin (xs : list A) : option nat := parg (fun e v => nltb v e) xs.
End Plain.
