(* Model/Fdiff.v — tevec/src/rolling.rs: fdiff_coef, ts_fdiff, ts_vfdiff (feature "fdiff").
   `ffi::binom` (C++ special::binom) is external: modelled by the generalised binomial product
   C(d,k) = prod_{j<k} (d-j)/(j+1) and compared by the correspondence within DESIGN 5.1.
   Definitions only.                                                                              *)
From Coq Require Import ZArith.
From Tevec Require Import Base.Prelude Base.Num Model.Driver Model.Features.
Set Implicit Arguments.

Section Fdiff.
  Context {A : Type} `{NA : Num A} {T : Type} `{DT : IsNone T A}.
  Local Open Scope num_scope.

  Fixpoint binom_from (d : A) (j k : nat) : A :=   (* prod_{i=j}^{j+k-1} (d-i)/(i+1) *)
    match k with O => none | S k' => ((d - nofnat j) / nofnat (S j)) * binom_from d (S j) k' end.
  Definition binom (d : A) (k : nat) : A := binom_from d 0 k.

  (* let mut sign = if window % 2 == 0 { 1. } else { -1. };
     (0..window).rev().map(|v| { sign = -sign; binom(d, v) * sign })                              *)
  Fixpoint coef_go (d : A) (sign : A) (vs : list nat) : list A :=
    match vs with
    | [] => []
    | v :: r => let sign' := nneg sign in (binom d v * sign') :: coef_go d sign' r
    end.
  Definition fdiff_coef (d : A) (w : nat) : list A :=
    coef_go d (if Nat.even w then none else nneg none) (rev (seq 0 w)).

  (* arr.titer().zip(coef).fold(0., |acc, (v, c)| acc + v * c) *)
  Definition dot (cast : T -> A) (arr : list T) (coef : list A) : A :=
    fold_left (fun acc vc => acc + cast (fst vc) * snd vc) (combine arr coef) nzero.

  (* ts_fdiff (plain family; after the repair: a short warm-up window is aligned with the END of coef) *)
  Definition ts_fdiff_cb (d : A) (w : nat) (cast : T -> A) (u : unit) (arr : list T) : unit * A :=
    (u, dot cast arr (skipn (w - length arr) (fdiff_coef d w))).
  Definition ts_fdiff (body : bool) (d : A) (w : nat) (cast : T -> A) (xs : list T) : outcome A :=
    if body then rolling_custom_to w (ts_fdiff_cb d w cast) tt xs
    else rolling_custom_default w (ts_fdiff_cb d w cast) tt xs.

  (* ts_vfdiff *)
  Definition vdot (arr : list T) (coef : list A) : A :=
    fold_left (fun acc vc => if not_none (fst vc) then acc + unwrap (fst vc) * snd vc else acc)
              (combine arr coef) nzero.
  Definition ts_vfdiff_cb (d : A) (w mp : nat) (u : unit) (arr : list T) : unit * A :=
    let n := length (filter not_none arr) in
    (u, if n =? w then vdot arr (fdiff_coef d w)
        else if mp <=? n then vdot (filter not_none arr) (fdiff_coef d n)
        else nnan).
  Definition ts_vfdiff (body : bool) (d : A) (w : nat) (mp : option nat) (xs : list T) : outcome A :=
    let mp' := mp_eff mp w 0 in
    if body then rolling_custom_to w (ts_vfdiff_cb d w mp') tt xs
    else rolling_custom_default w (ts_vfdiff_cb d w mp') tt xs.
End Fdiff.
