(* Model/DriverDispatch.v — which body of Model/Driver.v every backend runs for every public rolling
   entry point, on the returned path (`out = None`) and on the caller-buffer path (`out = Some(buf)`).
   Definitions only; additive to Model/Driver.v (nothing there is changed).

   Anchors (repo):
     tea-core/src/backends_impl/vec.rs:66-182     macro impl_vec1!(view ..): Vec<T>, [T], [T; N] override
         rolling_custom, rolling_apply, rolling2_apply, rolling_apply_idx, rolling2_apply_idx:
         `if let Some(out) = out { self.X_to(.., out) } else { O::uninit(len); self.X_to(..); assume_init }`
     tea-core/src/backends_impl/ndarray.rs:66-177  the same five overrides for Array1 / ArrayView1 / ArrayViewMut1
     tea-core/src/backends_impl/arc.rs:49-118      Arc<V>: `self.deref().X(.., out)` (written with a double star in the source) for the same five
     tea-core/src/backends_impl/vecdeque.rs, vec_core/iter.rs (OptIter), backends_impl/polars.rs: no override,
         i.e. the default trait methods of tea-core/src/vec_core/cores/view.rs
     view.rs:310  rolling_custom_iter and view.rs:443 rolling2_custom are overridden by NO backend
     view.rs:383 / 565 / 690 / 811 / 938  the *_to entry points are overridden by NO backend            *)
From Tevec Require Import Base.Prelude Model.Driver.
Set Implicit Arguments.

Inductive backend :=
| BVec | BSlice | BArray                  (* Vec<T>, [T], [T; N] *)
| BNdOwned | BNdView | BNdViewMut         (* Array1, ArrayView1 (any stride), ArrayViewMut1 *)
| BDeque | BOptView | BPolars             (* default trait methods *)
| BArc (inner : backend).                 (* Arc<V> *)

(* does the backend carry the "fast path" overrides? *)
Fixpoint fast (b : backend) : bool :=
  match b with
  | BVec | BSlice | BArray | BNdOwned | BNdView | BNdViewMut => true
  | BDeque | BOptView | BPolars => false
  | BArc i => fast i
  end.

Section One.
  Context {T S O : Type}.

  (* view.rs:501 (default) / vec.rs:98, ndarray.rs:89 (override) *)
  Definition rolling_apply_on (b : backend) (out : bool) (w : nat) (f : S -> option T * T -> S * O) (s0 : S)
             (xs : list T) : outcome O :=
    if fast b then rolling_apply_to w f s0 xs                    (* both paths: index body *)
    else if out then rolling_apply_to w f s0 xs                  (* default, out = Some *)
    else rolling_apply_default w f s0 xs.                        (* default, out = None: iterator body *)

  (* view.rs:753 / vec.rs:140, ndarray.rs:132 *)
  Definition rolling_apply_idx_on (b : backend) (out : bool) (w : nat)
             (f : S -> option nat * nat * T -> S * O) (s0 : S) (xs : list T) : outcome O :=
    if fast b then rolling_apply_idx_to w f s0 xs
    else if out then rolling_apply_idx_to w f s0 xs
    else rolling_apply_idx_default w f s0 xs.

  (* view.rs:344 (default: rolling_custom_iter, then `write(&mut out).unwrap()` or collect_trusted_vec1 -
     the same iterator body on both paths) / vec.rs:66, ndarray.rs:66 (override: rolling_custom_to on both) *)
  Definition rolling_custom_on (b : backend) (out : bool) (w : nat) (f : S -> list T -> S * O) (s0 : S)
             (xs : list T) : outcome O :=
    if fast b then rolling_custom_to w f s0 xs else rolling_custom_default w f s0 xs.

  (* view.rs:310 rolling_custom_iter is LAZY: `window - 1` is computed when the iterator is built; the
     callback runs when an item is pulled.  Pulling k items (k calls of next()) gives the first k results
     (fewer when the series is shorter) and leaves the callback in the state after those calls.        *)
  Definition rolling_custom_iter_take (k w : nat) (f : S -> list T -> S * O) (s0 : S) (xs : list T)
    : outcome O :=
    if w =? 0 then Panicked Underflow
    else Done (run f s0 (firstn k (map (fun '(st, e) => seg st e xs) (slices_iter w (length xs))))).
End One.

Section TwoOn.
  Context {T1 T2 S O : Type}.

  (* view.rs:627 / vec.rs:119, ndarray.rs:110 *)
  Definition rolling2_apply_on (b : backend) (out : bool) (w : nat)
             (f : S -> option (T1 * T2) * (T1 * T2) -> S * O) (s0 : S) (xs : list T1) (ys : list T2)
    : outcome O :=
    if fast b then rolling2_apply_to w f s0 xs ys
    else if out then rolling2_apply_to w f s0 xs ys
    else rolling2_apply_default w f s0 xs ys.

  (* view.rs:868 / vec.rs:161, ndarray.rs:153 *)
  Definition rolling2_apply_idx_on (b : backend) (out : bool) (w : nat)
             (f : S -> option nat * nat * (T1 * T2) -> S * O) (s0 : S) (xs : list T1) (ys : list T2)
    : outcome O :=
    if fast b then rolling2_apply_idx_to w f s0 xs ys
    else if out then rolling2_apply_idx_to w f s0 xs ys
    else rolling2_apply_idx_default w f s0 xs ys.

  (* view.rs:443: one body for every backend and both paths *)
  Definition rolling2_custom_on (b : backend) (out : bool) (w : nat)
             (f : S -> list T1 * list T2 -> S * O) (s0 : S) (xs : list T1) (ys : list T2) : outcome O :=
    rolling2_custom_default w f s0 xs ys.
End TwoOn.
