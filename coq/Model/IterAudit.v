(* Model/IterAudit.v — additions to the iterator model of property C09 found missing by the audit (YA).
   Definitions only; Model/Iter.v is unchanged.

   1. TrustedLen::is_empty (tea-core/src/vec_core/trusted.rs:26) and MapBasic::abs (tea-map/src/lib.rs:28),
      two public functions of the anchored files that the model lacked.
   2. Sources whose OWN size hint is inexact.  The library wraps them in a TrustIter:
        vec_map.rs vpartition:     self.titer().filter(IsNone::not_none).to_trust(kth + 1)
                                   self.titer().filter(IsNone::not_none).chain(repeat(T::none())).take(kth + 1).to_trust(kth + 1)
        vec_map.rs varg_partition: self.titer().enumerate().filter_map(|(i, v)| ..).chain(repeat(-1)).take(kth + 1).to_trust(kth + 1)
      Model/Iter.v idealises `titer().filter(p)` as `IList (filter p xs)` (an exact hint that the code never
      has).  Here the Filter / FilterMap node is modelled as std defines it - next() = inner.find_map(g),
      size_hint() = (0, inner upper) - in a small second type `itf` around `it`, together with the nodes that
      the library puts on top of it (the padded take, TrustIter, Box).  Proofs/Audit09.v shows that the law of
      C09 holds for these states at every point of their consumption and that the idealisation of
      Model/Iter.v is observationally exact.
      std: core/src/iter/adapters/filter.rs (size_hint: `(0, upper)`), filter_map.rs (same), take.rs, chain.rs. *)
From Tevec Require Import Base.Prelude Model.Iter.
Set Implicit Arguments.
Local Open Scope nat_scope.

(* ---- 1. is_empty, abs ---------------------------------------------------------------------------- *)
(* fn is_empty(&self) -> bool { self.len() == 0 }   with len() = size_hint().1.unwrap() *)
Definition tis_empty (s : it) : res bool := do n <- tlen s; Ok (n =? 0).

(* MapBasic::abs: self.map(|v| v.abs()) - on the value type of the model the same function as vabs
   (a NaN stays a NaN, a number becomes its absolute value) *)
Definition mabs (s : it) : it :=
  IMap (fun v => match v with VZ z => VZ (Z.abs z) | _ => v end) s.

(* ---- 2. Filter / FilterMap and what the library builds on them ------------------------------------ *)
Inductive itf :=
| FBase (i : it)                                   (* any state of Model/Iter.v *)
| FFilterMap (g : val -> option val) (i : it)      (* i.filter_map(g); i.filter(p) = filter_map(|v| p(v).then(v)) *)
| FPad (la : bool) (i : itf) (v : val) (n : nat)   (* i.chain(repeat(v)).take(n); la = "the first half is still there" *)
| FTrust (i : itf) (len : nat)                     (* TrustIter { iter, len } *)
| FBox (i : itf).                                  (* Box<dyn TrustedLen> *)

(* Iterator::find_map on the inner iterator: call next() until g accepts an item or None comes back.
   The fuel bounds the number of calls (drain's bound: one more than the items that are left). *)
Fixpoint find_map_n (g : val -> option val) (fuel : nat) (i : it) : option val * it :=
  match fuel with
  | 0 => (None, i)
  | S k => let '(o, i') := next i in
           match o with
           | None => (None, i')
           | Some x => match g x with Some y => (Some y, i') | None => find_map_n g k i' end
           end
  end.

Fixpoint f_size_hint (t : itf) : nat * option nat :=
  match t with
  | FBase i => size_hint i
  | FFilterMap _ i => (0, snd (size_hint i))       (* `let (_, upper) = self.iter.size_hint(); (0, upper)` *)
  | FPad _ _ _ n => (n, Some n)                    (* Take over a Chain whose tail is unbounded *)
  | FTrust _ len => (len, Some len)
  | FBox i => f_size_hint i
  end.

Fixpoint f_next (t : itf) : option val * itf :=
  match t with
  | FBase i => let '(o, i') := next i in (o, FBase i')
  | FFilterMap g i => let '(o, i') := find_map_n g (S (length (elems i))) i in (o, FFilterMap g i')
  | FPad la i v n =>
      match n with
      | 0 => (None, FPad la i v n)
      | S m =>
          if la then
            let '(o, i') := f_next i in
            match o with
            | Some x => (Some x, FPad true i' v m)
            | None => (Some v, FPad false i' v m)
            end
          else (Some v, FPad false i v m)
      end
  | FTrust i len =>
      let '(o, i') := f_next i in
      (o, FTrust i' (match o with Some _ => len - 1 | None => len end))
  | FBox i => let '(o, i') := f_next i in (o, FBox i')
  end.

Definition opt_list {A} (o : option A) : list A := match o with Some y => [y] | None => [] end.

(* the abstract sequence *)
Fixpoint f_elems (t : itf) : list val :=
  match t with
  | FBase i => elems i
  | FFilterMap g i => flat_map (fun x => opt_list (g x)) (elems i)
  | FPad la i v n => let e := if la then f_elems i else [] in firstn n e ++ repeat v (n - length e)
  | FTrust i _ => f_elems i
  | FBox i => f_elems i
  end.

Fixpoint f_consume (k : nat) (t : itf) : itf :=
  match k with 0 => t | S k' => f_consume k' (snd (f_next t)) end.

Fixpoint f_drain_n (fuel : nat) (t : itf) : list val :=
  match fuel with
  | 0 => []
  | S k => let '(o, t') := f_next t in match o with Some x => x :: f_drain_n k t' | None => [] end
  end.
Definition f_drain (t : itf) : list val := f_drain_n (S (length (f_elems t))) t.

(* ---- the partition arms as the code builds them -------------------------------------------------- *)
Definition keep_valid (v : val) : option val := if not_none v then Some v else None.
Definition keep_valid_idx (p : val) : option val :=
  match p with VPair i v => if not_none v then Some i else None | _ => None end.

Definition vpartition_f (kth : nat) (sort : bool) (xs : list val) : itf :=
  let n := count_valid xs in
  if andb (n =? kth + 1) (negb sort) then FBox (FTrust (FFilterMap keep_valid (IList xs)) (kth + 1))
  else if n <=? kth + 1 then
    if negb sort then FBox (FTrust (FPad true (FFilterMap keep_valid (IList xs)) VNull (kth + 1)) (kth + 1))
    else FBox (FTrust (FPad true (FBase (IList xs)) VNull (kth + 1)) (kth + 1))
  else FBox (FTrust (FBase (IList (firstn (kth + 1) xs))) (kth + 1)).

Definition varg_partition_f (kth : nat) (sort : bool) (xs : list val) : itf :=
  let n := count_valid xs in
  if n <=? kth + 1 then
    if negb sort then
      FBox (FTrust (FPad true (FFilterMap keep_valid_idx (IEnum (IList xs) 0)) (VZ (-1)) (kth + 1)) (kth + 1))
    else FBox (FTrust (FPad true (FBase (ITake (IList (map (fun k => VZ (Z.of_nat k)) (seq 0 (length xs)))) n))
                            (VZ (-1)) (kth + 1)) (kth + 1))
  else FBox (FTrust (FBase (IList (firstn (kth + 1) (map (fun k => VZ (Z.of_nat k)) (seq 0 (length xs)))))) (kth + 1)).

(* ---- 3. an iterator state as the collectors of Model/Collect.v see it ------------------------------
   A collector reads `iter.len()` (the upper bound of the hint) once and then pulls the items.  `as_titer`
   packs exactly that; `as_try_titer` is the same for iterators of `TResult` items (vcut), an `Err` item
   being `VErr` in this model.                                                                        *)
From Tevec Require Model.Collect.
Definition as_titer (s : it) : Model.Collect.titer val := Model.Collect.TI (fst (size_hint s)) (drain s).
Definition res_item (v : val) : val + unit := match v with VErr => inr tt | _ => inl v end.
Definition as_try_titer (s : it) : Model.Collect.titer (val + unit) :=
  Model.Collect.TI (fst (size_hint s)) (map res_item (drain s)).

(* ---- 4. MapValidBasic::drop_none (tea-map/src/valid_iter.rs): `self.filter(T::not_none)` ----------------
   The receiver is a TrustedLen iterator (a state of Model/Iter.v); the result is `impl Iterator` - a bare std
   Filter, NOT a TrustedLen: next() = inner.find(not_none), size_hint() = (0, inner upper).  It is the
   FFilterMap node with the predicate-as-filter_map `keep_valid` (`filter(p)` = `filter_map(|v| p(&v).then_some(v))`),
   with nothing on top.                                                                                   *)
Definition drop_none (s : it) : itf := FFilterMap keep_valid s.

(* what is left of the SOURCE after one next() of the filter: everything behind the first non-null item
   (nothing when there is none: the filter ran the source dry looking for one) *)
Fixpoint after_first_valid (xs : list val) : list val :=
  match xs with
  | [] => []
  | x :: r => if not_none x then r else after_first_valid r
  end.
(* ... after k calls *)
Fixpoint after_valid (k : nat) (xs : list val) : list val :=
  match k with 0 => xs | S k' => after_valid k' (after_first_valid xs) end.
