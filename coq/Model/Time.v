(* Model/Time.v — executable model of tea-time (DateTime<U>, TimeDelta, Time) as it is in the repo
   working tree (after the `fix:` commits recorded in KNOWN_FINDINGS.d/C16.txt, C17.txt and C15's 3cb9707), and of the
   chrono 0.4 functions it delegates to.  Definitions only.

   Anchors (tea-time/src):
     datetime.rs   DateTime::{new,is_nat,nat,into_i64,from_opt_i64,into_opt_i64,as_cr,duration_trunc},
                   getters year/month/day/hour/minute/second
     convert.rs    into_unit (12-arm table)
     impls/impl_datetime.rs   TryFrom<DateTime<U>> for chrono::DateTime<Utc>, From<chrono::DateTime<Utc>>
     impls/impl_ops.rs        DateTime +- TimeDelta, DateTime - DateTime, TimeDelta neg/+/-/*i32 and / ,
                              Time +- TimeDelta
     timedelta.rs  TimeDelta {months: i32, inner: chrono::Duration}, nat = months == i32::MIN
     time.rs, impls/impl_time.rs   Time(i64 ns since midnight), constructors, as_cr/from_cr, Timelike

   Representation: a DateTime<U> is its i64 as a Z (NaT = -2^63); i64/i32 arithmetic that overflows is
   `Panic Overflow` (debug build).  A chrono::DateTime<Utc> is (secs, nanos) with 0 <= nanos < 10^9 and
   the date inside chrono's range; a chrono::Duration is its total number of nanoseconds (a Z) inside
   chrono's range (+- i64::MAX milliseconds).                                                        *)
From Coq Require Import ZArith List Bool Lia.
From Tevec Require Import Base.Prelude Spec.Calendar.
Local Open Scope Z_scope.

(* ------------------------------------------------------------------ machine integers *)
Definition i64_min : Z := -9223372036854775808.
Definition i64_max : Z := 9223372036854775807.
Definition i32_min : Z := -2147483648.
Definition i32_max : Z := 2147483647.
Definition in_i64 (z : Z) : bool := (i64_min <=? z) && (z <=? i64_max).
Definition in_i32 (z : Z) : bool := (i32_min <=? z) && (z <=? i32_max).
Definition chk64 (z : Z) : res Z := if in_i64 z then Ok z else Panic Overflow.
Definition chk32 (z : Z) : res Z := if in_i32 z then Ok z else Panic Overflow.
(* a subtraction: the debug-build message is "attempt to subtract with overflow" (panic kind Underflow) *)
Definition chk64s (z : Z) : res Z := if in_i64 z then Ok z else Panic Underflow.
Definition chk32s (z : Z) : res Z := if in_i32 z then Ok z else Panic Underflow.
Definition wrap_u32 (z : Z) : Z := z mod 4294967296.                   (* `as u32` *)
Definition wrap_i32 (z : Z) : Z := (z + 2147483648) mod 4294967296 - 2147483648.   (* `as i32` *)

Definition unwrap {A} (o : option A) : res A := match o with Some a => Ok a | None => Panic UnwrapNone end.
Definition expect_other {A} (o : option A) : res A := match o with Some a => Ok a | None => Panic OtherPanic end.
Definition expect_overflow {A} (o : option A) : res A := match o with Some a => Ok a | None => Panic Overflow end.

(* ------------------------------------------------------------------ units, NaT (datetime.rs, timeunit.rs) *)
Inductive tunit := Sec | Milli | Micro | Nano.
Definition unit_eqb (a b : tunit) : bool :=
  match a, b with Sec, Sec | Milli, Milli | Micro, Micro | Nano, Nano => true | _, _ => false end.

Definition NaT : Z := i64_min.
Definition is_nat (x : Z) : bool := x =? NaT.
Definition into_opt_i64 (x : Z) : option Z := if is_nat x then None else Some x.
Definition from_opt_i64 (o : option Z) : Z := match o with Some v => v | None => NaT end.

(* convert.rs constants *)
Definition NANOS_PER_MICRO : Z := 1000.
Definition NANOS_PER_MILLI : Z := 1000000.
Definition NANOS_PER_SEC : Z := 1000000000.
Definition MICROS_PER_MILLI : Z := 1000.
Definition MICROS_PER_SEC : Z := 1000000.
Definition MILLIS_PER_SEC : Z := 1000.
Definition SECS_PER_MINUTE : Z := 60.
Definition SECS_PER_HOUR : Z := 3600.
Definition SECS_PER_DAY : Z := 86400.

(* number of units per second, nanoseconds per unit *)
Definition per_sec (u : tunit) : Z :=
  match u with Sec => 1 | Milli => 1000 | Micro => 1000000 | Nano => 1000000000 end.
Definition unit_ns (u : tunit) : Z :=
  match u with Sec => 1000000000 | Milli => 1000000 | Micro => 1000 | Nano => 1 end.

(* convert.rs into_unit: same unit = transmute; NaT guard; then the 12-arm table.
   Z's `/` is floor division = i64::div_euclid for a positive divisor. *)
Definition into_unit (u t : tunit) (x : Z) : res Z :=
  if unit_eqb u t then Ok x
  else if is_nat x then Ok NaT
  else match u, t with
       | Nano, Micro => Ok (x / NANOS_PER_MICRO)
       | Nano, Milli => Ok (x / NANOS_PER_MILLI)
       | Nano, Sec => Ok (x / NANOS_PER_SEC)
       | Micro, Milli => Ok (x / MICROS_PER_MILLI)
       | Micro, Sec => Ok (x / MICROS_PER_SEC)
       | Milli, Sec => Ok (x / MILLIS_PER_SEC)
       | Micro, Nano => chk64 (x * NANOS_PER_MICRO)
       | Milli, Nano => chk64 (x * NANOS_PER_MILLI)
       | Sec, Nano => chk64 (x * NANOS_PER_SEC)
       | Milli, Micro => chk64 (x * MICROS_PER_MILLI)
       | Sec, Micro => chk64 (x * MICROS_PER_SEC)
       | Sec, Milli => chk64 (x * MILLIS_PER_SEC)
       | _, _ => Panic OtherPanic                      (* unimplemented!(): unreachable, same unit *)
       end.

(* ------------------------------------------------------------------ chrono::DateTime<Utc> *)
Record crdt := mkcr { cr_secs : Z; cr_nanos : Z }.

Definition MIN_YEAR : Z := -262143.
Definition MAX_YEAR : Z := 262142.
(* days since 1970-01-01 of NaiveDate::MIN = -262143-01-01 and NaiveDate::MAX = +262142-12-31 *)
Definition cr_min_day : Z := -96465292.
Definition cr_max_day : Z := 95026236.
Definition date_in_range (day : Z) : bool := (cr_min_day <=? day) && (day <=? cr_max_day).

(* DateTime::from_timestamp(secs, nsecs): None outside the date range (nsecs is always < 10^9 here) *)
Definition cr_from_timestamp (secs nanos : Z) : option crdt :=
  if date_in_range (secs / SECS_PER_DAY) then Some (mkcr secs nanos) else None.

(* impl_datetime.rs TryFrom<DateTime<U>> + datetime.rs as_cr (`try_into().ok()` after the NaT test) *)
Definition as_cr (u : tunit) (x : Z) : option crdt :=
  if is_nat x then None
  else match u with
       | Sec => cr_from_timestamp x 0
       | Milli => cr_from_timestamp (x / 1000) (x mod 1000 * 1000000)
       | Micro => cr_from_timestamp (x / 1000000) (x mod 1000000 * 1000)
       | Nano => Some (mkcr (x / 1000000000) (x mod 1000000000))    (* from_timestamp_nanos never fails *)
       end.

(* impl_datetime.rs From<chrono::DateTime<Utc>>: timestamp(), timestamp_millis(), timestamp_micros(),
   timestamp_nanos_opt().into()  (From<Option<i64>>: None = NaT).  Since repo commit 3cb9707 the nanosecond
   conversion is total: an instant outside the i64 nanosecond range becomes NaT, it no longer panics.
   The result type stays `res Z` (always `Ok`, see Proofs/Time.v from_cr_total) so that the operators
   that chain it with panicking steps read uniformly. *)
Definition from_cr (u : tunit) (c : crdt) : res Z :=
  match u with
  | Sec => Ok (cr_secs c)
  | Milli => Ok (cr_secs c * 1000 + cr_nanos c / 1000000)
  | Micro => Ok (cr_secs c * 1000000 + cr_nanos c / 1000)
  | Nano => let v := cr_secs c * 1000000000 + cr_nanos c in
            Ok (if in_i64 v then v else NaT)
  end.

Definition cr_total_ns (c : crdt) : Z := cr_secs c * 1000000000 + cr_nanos c.
Definition cr_of_total_ns (t : Z) : crdt := mkcr (t / 1000000000) (t mod 1000000000).

(* calendar fields (chrono Datelike / Timelike on a UTC date-time) *)
Definition cr_day (c : crdt) : Z := cr_secs c / SECS_PER_DAY.
Definition cr_sod (c : crdt) : Z := cr_secs c mod SECS_PER_DAY.
Definition cr_civil (c : crdt) : civil := civil_of_days (cr_day c).
Definition cr_year (c : crdt) : Z := let '(y, _, _) := cr_civil c in y.
Definition cr_month (c : crdt) : Z := let '(_, m, _) := cr_civil c in m.
Definition cr_dom (c : crdt) : Z := let '(_, _, d) := cr_civil c in d.
Definition cr_hour (c : crdt) : Z := cr_sod c / 3600.
Definition cr_minute (c : crdt) : Z := cr_sod c / 60 mod 60.
Definition cr_second (c : crdt) : Z := cr_sod c mod 60.

(* datetime.rs getters: as_cr().map(..) *)
Definition dt_field (f : crdt -> Z) (u : tunit) (x : Z) : option Z := option_map f (as_cr u x).

(* chrono NaiveDate::diff_months (checked_add_months / checked_sub_months with a signed count):
   year*12 + month0 + k, split with div/rem_euclid, day clamped to the length of the new month,
   None when the year leaves MIN_YEAR..=MAX_YEAR.  The time of day is untouched. *)
Definition cr_add_months (c : crdt) (k : Z) : option crdt :=
  let '(y, m, d) := cr_civil c in
  let t := y * 12 + (m - 1) + k in
  let y' := t / 12 in
  let m' := t mod 12 + 1 in
  let dmax := days_in_month y' m' in
  let d' := if dmax <? d then dmax else d in
  if (MIN_YEAR <=? y') && (y' <=? MAX_YEAR)
  then Some (mkcr (days_of_civil (y', m', d') * SECS_PER_DAY + cr_sod c) (cr_nanos c))
  else None.

Definition cr_sub_months (c : crdt) (k : Z) : option crdt := cr_add_months c (- k).

(* chrono checked_add_signed / checked_sub_signed with a Duration of `ns` nanoseconds *)
Definition cr_add_ns (c : crdt) (ns : Z) : option crdt :=
  let r := cr_of_total_ns (cr_total_ns c + ns) in
  if date_in_range (cr_day r) then Some r else None.

(* ------------------------------------------------------------------ chrono::Duration, TimeDelta *)
Definition DUR_MAX_NS : Z := i64_max * 1000000.            (* TimeDelta::MAX = i64::MAX milliseconds *)
Definition dur_in_range (ns : Z) : bool := (- DUR_MAX_NS <=? ns) && (ns <=? DUR_MAX_NS).
(* Duration + Duration, Duration - Duration: checked_*().expect("`TimeDelta + TimeDelta` overflowed") *)
Definition dur_chk (ns : Z) : res Z := if dur_in_range ns then Ok ns else Panic Overflow.
(* Duration * i32: checked_mul admits every product whose whole seconds lie strictly inside i64 *)
Definition dur_mul (ns k : Z) : res Z :=
  let t := ns * k in
  let s := t / 1000000000 in
  if (s <=? i64_min) || (i64_max <=? s) then Panic Overflow else Ok t.
(* Duration::num_nanoseconds *)
Definition num_ns (ns : Z) : option Z := if in_i64 ns then Some ns else None.

Record tdelta := mktd { td_months : Z; td_ns : Z }.
Definition td_nat : tdelta := mktd i32_min 0.
Definition td_is_nat (d : tdelta) : bool := td_months d =? i32_min.
Definition td_zero : tdelta := mktd 0 0.

(* impl_timedelta.rs From<i64> (nanoseconds; i64::MIN is NaT) *)
Definition td_from_i64 (v : Z) : tdelta := if v =? i64_min then td_nat else mktd 0 v.

(* impl_ops.rs: Neg, Add, Sub, Mul<i32> for TimeDelta *)
Definition td_neg (d : tdelta) : tdelta :=
  if negb (td_is_nat d) then mktd (- td_months d) (- td_ns d) else d.

Definition td_add (a b : tdelta) : res tdelta :=
  if negb (td_is_nat a) && negb (td_is_nat b) then
    do m <- chk32 (td_months a + td_months b);
    do n <- dur_chk (td_ns a + td_ns b);
    Ok (mktd m n)
  else Ok td_nat.

Definition td_sub (a b : tdelta) : res tdelta :=
  if negb (td_is_nat a) && negb (td_is_nat b) then
    do m <- chk32s (td_months a - td_months b);
    do n <- dur_chk (td_ns a - td_ns b);
    Ok (mktd m n)
  else Ok td_nat.

Definition td_mul (a : tdelta) (k : Z) : res tdelta :=
  if negb (td_is_nat a) then
    do m <- chk32 (td_months a * k);
    do n <- dur_mul (td_ns a) k;
    Ok (mktd m n)
  else Ok td_nat.

(* impl_ops.rs Div<TimeDelta> for TimeDelta -> i32 (documented "may not as expected") *)
Definition i64_quot (a b : Z) : res Z :=
  if b =? 0 then Panic OtherPanic                                  (* attempt to divide by zero *)
  else if (a =? i64_min) && (b =? -1) then Panic Overflow
  else Ok (Z.quot a b).
Definition td_div (a b : tdelta) : res Z :=
  if negb (td_is_nat a) && negb (td_is_nat b) then
    do na <- unwrap (num_ns (td_ns a));
    do nb <- unwrap (num_ns (td_ns b));
    do q <- i64_quot na nb;
    if (td_months a =? 0) || (td_months b =? 0) then Ok (wrap_i32 q)
    else
      (* i32 division; the divisor is non-zero here, MIN / -1 is impossible (MIN is NaT) *)
      let md := Z.quot (td_months a) (td_months b) in
      if md =? wrap_i32 q then Ok md else Panic OtherPanic
  else Panic OtherPanic.

(* ------------------------------------------------------------------ DateTime operators (impl_ops.rs) *)
Definition dt_add (u : tunit) (x : Z) (d : tdelta) : res Z :=
  if negb (is_nat x) && negb (td_is_nat d) then
    do dt <- unwrap (as_cr u x);
    do out <- (if negb (td_months d =? 0) then
                 (if 0 <? td_months d then expect_other (cr_add_months dt (td_months d))
                  else expect_other (cr_sub_months dt (- td_months d)))
               else Ok dt);
    do r <- expect_overflow (cr_add_ns out (td_ns d));
    from_cr u r
  else Ok NaT.

Definition dt_sub (u : tunit) (x : Z) (d : tdelta) : res Z :=
  if negb (is_nat x) && negb (td_is_nat d) then
    do dt <- unwrap (as_cr u x);
    do out <- (if negb (td_months d =? 0) then
                 (if 0 <? td_months d then expect_other (cr_sub_months dt (td_months d))
                  else expect_other (cr_add_months dt (- td_months d)))
               else Ok dt);
    do r <- expect_overflow (cr_add_ns out (- td_ns d));
    from_cr u r
  else Ok NaT.

Definition dt_diff (u : tunit) (a b : Z) : res tdelta :=
  if negb (is_nat a) && negb (is_nat b) then
    do dt1 <- unwrap (as_cr u a);
    do dt2 <- unwrap (as_cr u b);
    Ok (mktd 0 (cr_total_ns dt1 - cr_total_ns dt2))
  else Ok td_nat.

(* ------------------------------------------------------------------ duration_trunc (datetime.rs) *)
(* chrono::DurationRound::duration_trunc on DateTime<Utc> (round.rs): *)
Definition cr_duration_trunc (c : crdt) (dur_ns : Z) : res crdt :=
  match num_ns dur_ns with
  | None => Panic OtherPanic                                       (* DurationExceedsLimit *)
  | Some span =>
    if span <=? 0 then Panic OtherPanic
    else match num_ns (cr_total_ns c) with
         | None => Panic OtherPanic                                (* TimestampExceedsLimit *)
         | Some stamp =>
           let delta_down := Z.rem stamp span in
           if delta_down =? 0 then Ok c
           else if 0 <? delta_down then expect_overflow (cr_add_ns c (- delta_down))
           else expect_overflow (cr_add_ns c (- (span - Z.abs delta_down)))
         end
  end.

(* the month part: 0-based month index counted in years of the common era (year_ce), floored to a
   multiple of dm; day reset to 1 and time to midnight *)
Definition trunc_months (c : crdt) (dm : Z) : res crdt :=
  let '(y, m, _) := cr_civil c in
  let dt_month := if 1 <=? y then y * 12 + (m - 1) else (1 - y) * (-12) + (m - 1) in
  let delta_down := Z.rem dt_month dm in
  let c0 := mkcr (days_of_civil (y, m, 1) * SECS_PER_DAY) 0 in
  if delta_down =? 0 then Ok c0
  else if 0 <? delta_down then expect_other (cr_sub_months c0 delta_down)
  else expect_other (cr_sub_months c0 (dm - Z.abs delta_down)).

Definition dt_trunc (u : tunit) (x : Z) (d : tdelta) : res Z :=
  if is_nat x then Ok x
  else
    do dt <- unwrap (as_cr u x);
    let dm := td_months d in
    if negb (dm =? 0) then
      if dm <? 0 then Panic OtherPanic                             (* unimplemented!() — also a NaT duration *)
      else
        do dt1 <- trunc_months dt dm;
        match num_ns (td_ns d) with
        | Some 0 => from_cr u dt1
        | _ => do r <- cr_duration_trunc dt1 (td_ns d); from_cr u r
        end
    else
      do r <- cr_duration_trunc dt (td_ns d); from_cr u r.

(* ------------------------------------------------------------------ Time (time.rs, impl_time.rs) *)
Definition time_from_hms (h m s : Z) : res Z :=
  do a <- chk64 (h * SECS_PER_HOUR);
  do b <- chk64 (m * SECS_PER_MINUTE);
  do ab <- chk64 (a + b);
  do secs <- chk64 (ab + s);
  chk64 (secs * NANOS_PER_SEC).

Definition time_from_hms_sub (scale : Z) (h m s sub : Z) : res Z :=
  do t <- time_from_hms h m s;
  do n <- chk64 (sub * scale);
  chk64 (t + n).
Definition time_from_hms_milli := time_from_hms_sub NANOS_PER_MILLI.
Definition time_from_hms_micro := time_from_hms_sub NANOS_PER_MICRO.
Definition time_from_hms_nano (h m s nano : Z) : res Z :=
  do t <- time_from_hms h m s; chk64 (t + nano).
Definition time_from_nsm (secs nano : Z) : res Z :=
  do a <- chk64 (secs * NANOS_PER_SEC); chk64 (a + nano).

(* chrono NaiveTime = (secs 0..86400, frac 0..2*10^9) *)
Definition naive_time_opt (secs nano : Z) : option (Z * Z) :=
  if (86400 <=? secs) || (2000000000 <=? nano) || ((1000000000 <=? nano) && negb (secs mod 60 =? 59))
  then None else Some (secs, nano).

(* Time::as_cr: truncating / and %, then `as u32` *)
Definition time_as_cr (t : Z) : option (Z * Z) :=
  let secs := Z.quot t NANOS_PER_SEC in
  let nanos := Z.rem t NANOS_PER_SEC in
  naive_time_opt (wrap_u32 secs) (wrap_u32 nanos).

Definition time_from_cr (c : Z * Z) : Z := fst c * NANOS_PER_SEC + snd c.

Definition time_hour (t : Z) : res Z := do c <- unwrap (time_as_cr t); Ok (fst c / 3600).
Definition time_minute (t : Z) : res Z := do c <- unwrap (time_as_cr t); Ok (fst c / 60 mod 60).
Definition time_second (t : Z) : res Z := do c <- unwrap (time_as_cr t); Ok (fst c mod 60).
Definition time_nanosecond (t : Z) : res Z := do c <- unwrap (time_as_cr t); Ok (snd c).

(* chrono NaiveTime::with_* then Time::from_cr *)
Definition time_with_hour (t h : Z) : option Z :=
  match time_as_cr t with
  | Some (secs, frac) => if 24 <=? h then None else Some (time_from_cr (h * 3600 + secs mod 3600, frac))
  | None => None end.
Definition time_with_minute (t mi : Z) : option Z :=
  match time_as_cr t with
  | Some (secs, frac) =>
    if 60 <=? mi then None else Some (time_from_cr (secs / 3600 * 3600 + mi * 60 + secs mod 60, frac))
  | None => None end.
Definition time_with_second (t s : Z) : option Z :=
  match time_as_cr t with
  | Some (secs, frac) => if 60 <=? s then None else Some (time_from_cr (secs / 60 * 60 + s, frac))
  | None => None end.
Definition time_with_nanosecond (t n : Z) : option Z :=
  match time_as_cr t with
  | Some (secs, frac) => if 2000000000 <=? n then None else Some (time_from_cr (secs, n))
  | None => None end.

(* impl_ops.rs Time +- TimeDelta *)
Definition time_add (t : Z) (d : tdelta) : res Z :=
  if negb (is_nat t) && negb (td_is_nat d) then
    if negb (td_months d =? 0) then Panic OtherPanic
    else match num_ns (td_ns d) with
         | Some n => chk64 (t + n)
         | None => Ok NaT
         end
  else Ok NaT.

Definition time_sub (t : Z) (d : tdelta) : res Z :=
  if negb (is_nat t) && negb (td_is_nat d) then
    if negb (td_months d =? 0) then Panic OtherPanic
    else match num_ns (td_ns d) with
         | Some n => chk64s (t - n)
         | None => Ok NaT
         end
  else Ok NaT.

(* ------------------------------------------------------------------ known-finding class (C17) *)
(* class 1: DateTime<u> + d - d with d not a whole number of units (u coarser than ns): both steps
   truncate toward the past at the unit, so the round trip loses one unit.  Inherent to computing at
   nanosecond resolution in chrono and storing at the unit. *)
Definition kf_subunit (u : tunit) (d : tdelta) : bool := negb (td_ns d mod unit_ns u =? 0).

(* ------------------------------------------------------------------ additions for C17 (extension X27) *)
(* impl_timedelta.rs:56-69 PartialOrd for TimeDelta ("may not as expected"): only the LEFT operand is tested for
   NaT; months first, then chrono's derived order on Duration (secs, nanos) = the order of the total nanoseconds *)
Definition td_partial_cmp (a b : tdelta) : option comparison :=
  if negb (td_is_nat a) then
    if negb (td_months a =? td_months b) then Some (td_months a ?= td_months b)
    else Some (td_ns a ?= td_ns b)
  else None.

(* impl_time.rs:23-38 From<i64> / From<Option<i64>> for Time, time.rs:25-35 is_nat / is_not_nat *)
Definition time_from_opt_i64 (o : option Z) : Z := match o with Some v => v | None => NaT end.
Definition time_is_nat (t : Z) : bool := t =? NaT.
(* impl_timedelta.rs:45-53 From<Option<i64>> for TimeDelta *)
Definition td_from_opt_i64 (o : option Z) : tdelta := match o with Some v => td_from_i64 v | None => td_nat end.
