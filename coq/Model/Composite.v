(* Model/Composite.v — the composite analytics of the `tevec` crate (property C20).  Definitions only.
     tevec/src/map.rs:43-100   MapValidFinal::winsorize  (Quantile / Median / Sigma -> vclip)
     tevec/src/agg.rs:27-53    AggValidFinal::vcorr      (Pearson | Spearman = vrank, vrank, vcorr_pearson)
     tevec/src/agg.rs:66-110   AggValidFinal::half_life  (doubling search then bisection; repaired tree)
   Everything is assembled from the models the other properties already tie to the code:
     Model/Quantile.v  vquantile, vmedian          Model/Rank.v     vrank
     Model/Agg.v       vmean_var, vcorr_pearson    Model/MapOps.v   vclip, shift (vshift)
     Model/HalfLife.v  doubling + bisection over an oracle `above : nat -> bool`.
   Element type T with inner numeric type A = f64 carrier (f64: T = A, NaN null; Option<f64>; i32 is
   rendered through its exact f64 value with the never-null dictionary).  The element type is seen
   through two dictionaries because the reused models use two: `IsNone T A` (tea-core / tea-agg side)
   and `NullDict T A` (tea-map side: `T::none()` may panic).                                        *)
From Coq Require Import ZArith.
From Tevec Require Import Base.Prelude Model.MapOps Base.Num Model.SortCmp Model.Quantile Model.Rank
     Model.Agg Model.HalfLife.
Set Implicit Arguments.

Inductive wmethod := WQuantile | WMedian | WSigma.

Section Composite.
  Context {A : Type} {NA : Num A} {NF : NumFloor A} {T : Type} {DT : IsNone T A} {DX : IsNoneX T A}.
  Variable dm : NullDict T A.
  Local Open Scope num_scope.

  (* the f64 dictionaries: the iterator handed to vclip yields f64 (`iter_cast::<f64>()`) *)
  Definition fdict : NullDict A A := dict_float nisnan nnan.
  Definition DF : IsNone A A := IsNone_float.
  Definition DFX : IsNoneX A A := IsNoneX_float.

  (* self.iter_cast::<f64>() : a null casts to NaN *)
  Definition iter_cast (xs : list T) : list A := map tcast xs.
  (* `.vclip(min, max)` on the f64 iterator; `>` / `<` of f64 *)
  Definition clip_f64 (lo hi : A) (ys : list A) : res (list A) := MapOps.vclip fdict nltb lo hi ys.

  Definition lit_001 : A := none / nofZ 100.     (* the literal 0.01 (correctly rounded 1/100) *)
  Definition lit_3 : A := nofZ 3.                (* the literal 3. *)
  Definition idA (a : A) : A := a.               (* Number::f64 on an f64 *)

  (* Ok None = Err (q outside [0, 1], propagated by `?`); Ok (Some l) = the items the iterator yields *)
  Definition winsorize (m : wmethod) (p : option A) (xs : list T) : res (option (list A)) :=
    match m with
    | WQuantile =>
        let q := match p with Some q => q | None => lit_001 end in
        do rmin <- vquantile q Linear xs;
        match rmin with
        | None => Ok None
        | Some mn =>
            do rmax <- vquantile (none - q) Linear xs;
            match rmax with
            | None => Ok None
            | Some mx => do r <- clip_f64 mn mx (iter_cast xs); Ok (Some r)
            end
        end
    | WMedian =>
        let k := match p with Some k => k | None => lit_3 end in
        do median <- vmedian xs;
        if negb (nisnan median) then
          (* self.map(|v| (v.cast() - median).abs()).collect_trusted_to_vec().vmedian() *)
          do mad <- vmedian (DT := DF) (map (fun v => nabs (tcast v - median)) xs);
          let mn := median - k * mad in
          let mx := median + k * mad in
          do r <- clip_f64 mn mx (iter_cast xs); Ok (Some r)
        else Ok (Some (iter_cast xs))
    | WSigma =>
        let k := match p with Some k => k | None => lit_3 end in
        let mv := Agg.vmean_var idA 2 xs in
        let mean := fst mv in let var := snd mv in
        if negb (nisnan mean) && negb (nisnan var) && nltb neps var then
          let std := nsqrt var in
          let mn := mean - k * std in
          let mx := mean + k * std in
          do r <- clip_f64 mn mx (iter_cast xs); Ok (Some r)
        else Ok (Some (iter_cast xs))
    end.

  (* ---- vcorr ---------------------------------------------------------------------------------- *)
  (* the Vec<f64> returned by vrank; None = a slot was never written (does not happen: C12_rank) *)
  Fixpoint slots (l : list (option A)) : option (list A) :=
    match l with
    | [] => Some []
    | Some v :: r => match slots r with Some t => Some (v :: t) | None => None end
    | None :: _ => None
    end.
  Definition rank_vec (xs : list T) : option (list A) := slots (vrank false false xs).

  (* min_periods.unwrap_or(self.len() / 2) *)
  Definition mp_default (mp : option nat) (len : nat) : nat :=
    match mp with Some m => m | None => len / 2 end.

  (* ranks are taken within each series (over its own valid elements) BEFORE the pairwise deletion
     that vcorr_pearson performs *)
  Definition vcorr (mp : option nat) (spearman : bool) (xs ys : list T) : option A :=
    let mp := mp_default mp (length xs) in
    if spearman then
      match rank_vec xs, rank_vec ys with
      | Some r1, Some r2 => Some (Agg.vcorr_pearson (DT := DF) (DT2 := DF) idA mp r1 r2)
      | _, _ => None
      end
    else Some (Agg.vcorr_pearson idA mp xs ys).

  (* ---- half_life ------------------------------------------------------------------------------- *)
  (* self.titer().vshift(lag as i32, None) with the fill T::none() already evaluated; `shift` is total
     (C13_shift_positional), the Panic arm is unreachable *)
  Definition lagged (nv : T) (lag : nat) (xs : list T) : list T :=
    match MapOps.shift (Z.of_nat lag) nv xs with Ok l => l | Panic _ => [] end.
  Definition autocorr (mp : nat) (nv : T) (xs : list T) (lag : nat) : A :=
    Agg.vcorr_pearson idA mp xs (lagged nv lag xs).
  (* !((corr <= 0.5) || corr.is_nan()) *)
  Definition above_half (mp : nat) (nv : T) (xs : list T) (lag : nat) : bool :=
    let c := autocorr mp nv xs lag in negb (nleb c nhalf || nisnan c).

  (* None = out of fuel (never: C20_half_life_total) *)
  Definition half_life_exec (mp : option nat) (xs : list T) : option (res nat) :=
    let len := length xs in
    if (len =? 0)%nat then Some (Ok 0%nat) else
    let mp := mp_default mp len in
    match MapOps.none dm with          (* value.unwrap_or_else(|| T::none()) in the first vshift *)
    | Panic k => Some (Panic k)
    | Ok nv => half_life (above_half mp nv xs) len
    end.
End Composite.
