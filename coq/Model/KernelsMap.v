(* Model/KernelsMap.v — C10: the CHECKED, TRACED text of `vrank` (tea-map/src/vec_map.rs:112-276).
   Model/Rank.v writes `idx_sorted.uget(i)` as `nth i idx_sorted 0`, `self.uget(idx).is_none()` as a total
   function that answers `true` out of range, `i - j` / `len - repeat_num` with truncated subtraction and
   `out.uset(i, v)` as a list update that drops an out-of-range write.  Here the same text is written in the
   traced result monad of Model/Kernels.v: every read of the series (view 0) and of the internal
   `Vec<usize>` idx_sorted (view 2) goes through the checked `uget` (out of range = Panic OtherPanic) and is
   logged, every usize subtraction is `usub` (Panic Underflow), every `out.uset` is logged as `AUset`.
   Proofs/KernelsMap.v proves  snd (vrank_tr ..) = Ok (vrank ..)  — the checked text never panics and computes
   the model value — and that the logged accesses are in bounds and write every slot exactly once.
   The comparator calls of `sort_unstable_by` are not traced: std passes only elements of the slice, i.e.
   members of 0..len (trusted: std's sort).  Definitions only.                                        *)
From Coq Require Import ZArith.
From Tevec Require Import Base.Prelude Base.Num Model.Driver Model.Cmp Model.Kernels Model.SortCmp Model.Rank.
Set Implicit Arguments.

(* `out.uset(slot, v)` *)
Definition tset {X} (slot : nat) (v : X) (out : list (option X)) : tr (list (option X)) :=
  ([AUset slot], Ok (uset slot v out)).

Section RankTr.
  Context {A : Type} `{NA : Num A} {T : Type} `{DT : IsNone T A} `{DX : IsNoneX T A}.

  Section Loop.
    Variables (pct : bool) (nn : nat) (xs : list T) (idx_sorted : list nat).

    (* for j in 0..repeat_num { out.uset(idx_sorted.uget(i - j), v) } *)
    Fixpoint write_run_tr (i : nat) (v : A) (js : list nat) (out : list (option A)) : tr (list (option A)) :=
      match js with
      | [] => tret out
      | j :: r => dot d <- tpure (usub i j);
                  dot slot <- tget 2 idx_sorted d;
                  dot o' <- tset slot v out;
                  write_run_tr i v r o'
      end.

    (* for i in a..b { out.uset(idx_sorted.uget(i), v) } *)
    Fixpoint fill_tr (v : A) (is : list nat) (out : list (option A)) : tr (list (option A)) :=
      match is with
      | [] => tret out
      | i :: r => dot slot <- tget 2 idx_sorted i; dot o' <- tset slot v out; fill_tr v r o'
      end.

    Fixpoint rank_loop_tr (is : list nat) (st : @rstate A) : tr (@rstate A * option nat) :=
      match is with
      | [] => tret (st, None)
      | i :: rest =>
          dot idx <- tget 2 idx_sorted i;
          dot idx1 <- tget 2 idx_sorted (S i);
          dot v <- tget 0 xs idx;
          dot v1 <- tget 0 xs idx1;
          if is_none v1 then
            let sum := (r_sum st + r_cur st)%nat in
            dot o <- write_run_tr i (rk_avg pct nn sum (r_rep st)) (seq 0 (r_rep st)) (r_out st);
            tret ({| r_rep := r_rep st; r_cur := S (r_cur st); r_sum := sum; r_out := o |}, Some (S i))
          else if teqb v v1 then
            rank_loop_tr rest {| r_rep := S (r_rep st); r_cur := S (r_cur st);
                                 r_sum := (r_sum st + r_cur st)%nat; r_out := r_out st |}
          else if (r_rep st =? 1)%nat then
            dot o <- tset idx (rk_one pct nn (r_cur st)) (r_out st);
            rank_loop_tr rest {| r_rep := r_rep st; r_cur := S (r_cur st); r_sum := r_sum st; r_out := o |}
          else
            let sum := (r_sum st + r_cur st)%nat in
            dot o <- write_run_tr i (rk_avg pct nn sum (r_rep st)) (seq 0 (r_rep st)) (r_out st);
            rank_loop_tr rest {| r_rep := 1; r_cur := S (r_cur st); r_sum := 0; r_out := o |}
      end.

    Definition rank_finish_tr (len : nat) (r : @rstate A * option nat) : tr (list (option A)) :=
      let '(st, brk) := r in
      match brk with
      | Some idx => fill_tr nnan (seq idx (len - idx)) (r_out st)
      | None =>
          let sum := (r_sum st + r_cur st)%nat in
          dot a <- tpure (usub len (r_rep st));
          fill_tr (rk_avg pct nn sum (r_rep st)) (seq a (r_rep st)) (r_out st)
      end.
  End Loop.

  Definition vrank_tr (pct rev : bool) (xs : list T) : tr (list (option A)) :=
    let len := length xs in
    if (len =? 0)%nat then tret [] else
    if (len =? 1)%nat then dot v <- tget 0 xs 0; tret [Some (if is_none v then nnan else none)] else
    let idx_sorted := isort (cmp_idx (cmp_dir rev) xs) (seq 0 len) in
    dot i0 <- tget 2 idx_sorted 0;
    dot v0 <- tget 0 xs i0;
    if is_none v0 then tret (repeat (Some nnan) len) else
    let nn := count_valid xs in
    dot r <- rank_loop_tr pct nn xs idx_sorted (seq 0 (len - 1))
                          {| r_rep := 1; r_cur := 1; r_sum := 0; r_out := repeat None len |};
    rank_finish_tr pct nn idx_sorted len r.
End RankTr.
