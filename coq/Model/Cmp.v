(* Model/Cmp.v — tea-rolling/src/cmp.rs (ts_vmin, ts_vmax, ts_vargmin, ts_vargmax, ts_vrank) and the
   null-last comparisons of tea-dtype/src/isnone.rs (sort_cmp, sort_cmp_rev), as state machines over the
   window-index driver (rolling_apply_idx: the callback receives (start, end, v) and reads the series
   through `uget`).  Written once over `Num A` / `IsNone T A`; instances used: Z (proofs, integer runs),
   float (float runs).  Definitions only.  The model follows the REPAIRED code (fix: commits listed in
   KNOWN_FINDINGS.d/C03.txt): arg-extrema emit an offset only when the cached extreme is non-null, and
   ts_vrank computes `window - 1` with saturation.                                                   *)
From Coq Require Import ZArith.
From Tevec Require Import Base.Prelude Base.Num Model.Driver.
Set Implicit Arguments.

(* ---- integer carrier: only the comparisons matter for this family ------------------------------ *)
Global Instance NumZ : Num Z := {|
  nzero := 0%Z; none := 1%Z;
  nadd := Z.add; nsub := Z.sub; nmul := Z.mul; ndiv := Z.quot;
  nneg := Z.opp; nabs := Z.abs; nsqrt := Z.sqrt;
  nofZ := fun z => z;
  nltb := Z.ltb; nleb := Z.leb; neqb := Z.eqb;
  nisnan := fun _ => false; nnan := 0%Z;      (* integers are never null; nnan is never produced *)
  neps := 0%Z; ntwo := 2%Z;
|}.

(* ---- a panic inside the callback aborts the whole call ------------------------------------------ *)
Section Lift.
  Context {St X O : Type}.
  (* the callbacks are written in the Ok/Panic monad; the drivers thread `res St` *)
  Definition lift_cb (g : St -> X -> res (St * O)) : res St -> X -> res St * res O :=
    fun rs a =>
      match rs with
      | Panic k => (Panic k, Panic k)
      | Ok s => match g s a with
                | Ok (s', o) => (Ok s', Ok o)
                | Panic k => (Panic k, Panic k)
                end
      end.

  Fixpoint collect (l : list (res O)) : res (list O) :=
    match l with
    | [] => Ok []
    | Panic k :: _ => Panic k
    | Ok o :: r => match collect r with Ok l' => Ok (o :: l') | Panic k => Panic k end
    end.

  Fixpoint first_panic (buf : list (option (res O))) : option panic_kind :=
    match buf with
    | [] => None
    | Some (Panic k) :: _ => Some k
    | _ :: r => first_panic r
    end.

  Definition seal (o : outcome (res O)) : outcome O :=
    match o with
    | Done l => match collect l with Ok l' => Done l' | Panic k => Panicked k end
    | Uninit buf =>
        match first_panic buf with
        | Some k => Panicked k
        | None => Uninit (map (fun c => match c with Some (Ok v) => Some v | _ => None end) buf)
        end
    | Panicked k => Panicked k
    end.
End Lift.

(* body = false: iterator body (default trait method, e.g. VecDeque returned);
   body = true : two-phase index body (caller buffer; Vec / ndarray fast paths)                     *)
Definition idx_run {T St O} (body : bool) (w : nat)
           (cb : St -> option nat * nat * T -> res (St * O)) (s0 : St) (xs : list T) : outcome O :=
  seal (if body then rolling_apply_idx_to w (lift_cb cb) (Ok s0) xs
        else rolling_apply_idx_default w (lift_cb cb) (Ok s0) xs).

(* `self.uget(i)`: unchecked read; out of range is undefined behaviour (debug build: abort) *)
Definition uget {T} (xs : list T) (i : nat) : res T :=
  match nth_error xs i with Some v => Ok v | None => Panic OtherPanic end.

(* Option<usize> `<` : None < Some _ *)
Definition opt_lt (a b : option nat) : bool :=
  match a, b with
  | None, Some _ => true
  | Some x, Some y => x <? y
  | _, None => false
  end.

(* the clamp and the default of the cmp family: window = min(len, window); min_periods.unwrap_or(window / 2) *)
Definition cmp_window {T} (w : nat) (xs : list T) : nat := Nat.min (length xs) w.
Definition cmp_mp (mp : option nat) (w' : nat) : nat := match mp with Some m => m | None => w' / 2 end.

Section Cmp.
  Context {A : Type} `{NA : Num A} {T : Type} `{DT : IsNone T A}.

  (* PartialOrd::partial_cmp on the inner type *)
  Definition pcmp (a b : A) : option comparison :=
    if nltb a b then Some Lt else if neqb a b then Some Eq else if nltb b a then Some Gt else None.

  (* IsNone::sort_cmp / sort_cmp_rev at Self = Option<T::Inner> (isnone.rs:223-288) *)
  Definition sort_cmp (a b : option A) : comparison :=
    match a, b with
    | Some va, Some vb =>
        match pcmp va vb with Some c => c | None => if nisnan va then Gt else Lt end
    | None, None => Eq
    | None, Some _ => Gt
    | Some _, None => Lt
    end.
  Definition sort_cmp_rev (a b : option A) : comparison :=
    match a, b with
    | Some va, Some vb =>
        CompOpp (match pcmp va vb with Some c => c | None => if nisnan va then Lt else Gt end)
    | None, None => Eq
    | None, Some _ => Gt
    | Some _, None => Lt
    end.

  (* Ordering::Less | Ordering::Equal *)
  Definition takes (c : comparison) : bool := match c with Gt => false | _ => true end.

  (* cached extreme, its index, number of valid elements in the window *)
  Record ext := { x_val : option A; x_idx : option nat; x_n : nat }.
  Definition ext0 : ext := {| x_val := None; x_idx := None; x_n := 0 |}.

  Section Extreme.
    Variable scmp : option A -> option A -> comparison.   (* sort_cmp: minima; sort_cmp_rev: maxima *)

    (* for i in start..=end { v_ = uget(i).to_opt(); Less | Equal => (min, min_idx) = (v_, Some(i)) } *)
    Fixpoint rescan (xs : list T) (i cnt : nat) (m : option A) (mi : option nat)
      : res (option A * option nat) :=
      match cnt with
      | 0 => Ok (m, mi)
      | S c => do v <- uget xs i;
               let v_ := to_opt v in
               if takes (scmp v_ m) then rescan xs (S i) c v_ (Some i) else rescan xs (S i) c m mi
      end.

    (* the closure up to (excluding) the computation of the output *)
    Definition ext_step (xs : list T) (s : ext) (start : option nat) (e : nat) (v : T) : res ext :=
      let v := to_opt v in
      let s1 := match v with
                | Some _ =>
                    match x_idx s with
                    | None => {| x_val := v; x_idx := Some e; x_n := S (x_n s) |}
                    | Some _ => {| x_val := x_val s; x_idx := x_idx s; x_n := S (x_n s) |}
                    end
                | None => s
                end in
      if opt_lt (x_idx s1) start then
        match start with
        | None => Panic UnwrapNone                       (* start.unwrap() *)
        | Some st =>
            do v0 <- uget xs st;
            do r <- rescan xs st (S e - st) (to_opt v0) (x_idx s1);
            Ok {| x_val := fst r; x_idx := snd r; x_n := x_n s1 |}
        end
      else if takes (scmp v (x_val s1)) then Ok {| x_val := v; x_idx := Some e; x_n := x_n s1 |}
      else Ok s1.

    (* if start.is_some() && uget(start.unwrap()).not_none() { n -= 1 } *)
    Definition ext_post (xs : list T) (s : ext) (start : option nat) : res ext :=
      match start with
      | None => Ok s
      | Some st =>
          do v0 <- uget xs st;
          if not_none v0 then
            do n' <- usub (x_n s) 1; Ok {| x_val := x_val s; x_idx := x_idx s; x_n := n' |}
          else Ok s
      end.

    (* ts_vmin / ts_vmax: out = if n >= min_periods { min.cast() } else { None.cast() } *)
    Definition vext_cb (mp : nat) (xs : list T) (s : ext) (a : option nat * nat * T)
      : res (ext * option A) :=
      let '(start, e, v) := a in
      do s1 <- ext_step xs s start e v;
      let out := if mp <=? x_n s1 then x_val s1 else None in
      do s2 <- ext_post xs s1 start;
      Ok (s2, out).

    (* ts_vargmin / ts_vargmax (repaired):
       out = if n >= min_periods && min.is_some() { min_idx.map(|i| i - start.unwrap_or(0) + 1) } else NaN *)
    Definition varg_cb (mp : nat) (xs : list T) (s : ext) (a : option nat * nat * T)
      : res (ext * option nat) :=
      let '(start, e, v) := a in
      do s1 <- ext_step xs s start e v;
      do out <- (if (mp <=? x_n s1) && (match x_val s1 with Some _ => true | None => false end) then
                   match x_idx s1 with
                   | Some mi => do d <- usub mi (match start with Some st => st | None => 0 end);
                                Ok (Some (d + 1))
                   | None => Ok None
                   end
                 else Ok None);
      do s2 <- ext_post xs s1 start;
      Ok (s2, out).

    Definition ts_vext (body : bool) (w : nat) (mp : option nat) (xs : list T) : outcome (option A) :=
      let w' := cmp_window w xs in
      idx_run body w' (vext_cb (cmp_mp mp w') xs) ext0 xs.
    Definition ts_varg (body : bool) (w : nat) (mp : option nat) (xs : list T) : outcome (option nat) :=
      let w' := cmp_window w xs in
      idx_run body w' (varg_cb (cmp_mp mp w') xs) ext0 xs.
  End Extreme.

  Definition ts_vmin := ts_vext sort_cmp.
  Definition ts_vmax := ts_vext sort_cmp_rev.
  Definition ts_vargmin := ts_varg sort_cmp.
  Definition ts_vargmax := ts_varg sort_cmp_rev.
End Cmp.

(* ---- ts_vrank: O(w) recount, average method; input carrier A (comparisons), output carrier B (f64) - *)
Section Rank.
  Context {A : Type} `{NA : Num A} {T : Type} `{DT : IsNone T A} {B : Type} `{NB : Num B}.
  Local Open Scope num_scope.

  (* for i in from..end: a < v -> rank += 1. ; a == v -> n_repeat += 1 *)
  Fixpoint rank_loop (xs : list T) (x : A) (i cnt : nat) (rank : B) (nrep : nat) : res (B * nat) :=
    match cnt with
    | 0 => Ok (rank, nrep)
    | S c => do a <- uget xs i;
             if not_none a then
               let a' := unwrap a in
               if nltb a' x then rank_loop xs x (S i) c (rank + none) nrep
               else if neqb a' x then rank_loop xs x (S i) c rank (S nrep)
               else rank_loop xs x (S i) c rank nrep
             else rank_loop xs x (S i) c rank nrep
    end.

  Definition half : B := none / ntwo.    (* the literal 0.5 *)

  Definition rank_out (mp : nat) (pct rev : bool) (n : nat) (rank : B) (nrep : nat) : B :=
    if mp <=? n then
      let res := if negb rev then rank + half * nofnat (nrep - 1)%nat
                 else nofnat (n + 1)%nat - rank - half * nofnat (nrep - 1)%nat in
      if pct then res / nofnat n else res
    else nnan.

  Definition vrank_cb (mp w_m1 : nat) (pct rev : bool) (xs : list T) (n : nat)
             (a : option nat * nat * T) : res (nat * B) :=
    let '(start, e, v) := a in
    do r <- (if not_none v then
               let from := match start with Some st => st | None => 0 end in
               do rr <- rank_loop xs (unwrap v) from (e - from) none 1;
               Ok (S n, fst rr, snd rr)
             else Ok (n, nnan, 1));
    let '(n1, rank, nrep) := r in
    let out := rank_out mp pct rev n1 rank nrep in
    do n2 <- (if w_m1 <=? e then
                match start with
                | None => Panic UnwrapNone
                | Some st => do v0 <- uget xs st; if not_none v0 then usub n1 1 else Ok n1
                end
              else Ok n1);
    Ok (n2, out).

  (* repaired: w_m1 = window.saturating_sub(1) *)
  Definition ts_vrank (body : bool) (w : nat) (mp : option nat) (pct rev : bool) (xs : list T)
    : outcome B :=
    let w' := cmp_window w xs in
    idx_run body w' (vrank_cb (cmp_mp mp w') (w' - 1) pct rev xs) 0 xs.
End Rank.
