(* Model/Partition.v — tea-map/src/vec_map.rs:290-365 `varg_partition` and :366-410 `vpartition`
   (after the fix: the sorted fast path pads lazily with T::none() up to kth + 1 entries).
   `select_nth_unstable_by(kth)` followed by `truncate(kth + 1)` keeps the kth + 1 first elements of
   *some* arrangement whose kth element is the kth order statistic and whose prefix is <= it; the
   model takes the prefix of the sorted arrangement (the order inside the prefix is unspecified in std
   and is compared as a multiset by the correspondence).  Definitions only.                      *)
From Coq Require Import ZArith.
From Tevec Require Import Base.Prelude Base.Num Model.SortCmp.
Set Implicit Arguments.

Section Partition.
  Context {A : Type} `{NA : Num A} {T : Type} `{DT : IsNone T A} `{DX : IsNoneX T A}.

  (* enumerate().filter_map(|(i, v)| if v.not_none() { Some(i as i32) } else { None }) *)
  Definition valid_idx (xs : list T) : list Z :=
    flat_map (fun p => if not_none (snd p) then [Z.of_nat (fst p)] else [])
             (combine (seq 0 (length xs)) xs).

  (* it.chain(repeat(pad)).take(k1) *)
  Definition pad_take {X} (k1 : nat) (pad : X) (l : list X) : list X := firstn k1 (l ++ repeat pad k1).

  Definition varg_partition (kth : nat) (sort rev : bool) (xs : list T) : list Z :=
    let n := count_valid xs in
    let cmpi := cmp_idx (cmp_dir rev) xs in
    if (n <=? kth + 1)%nat then
      if negb sort then pad_take (kth + 1) (-1)%Z (valid_idx xs)
      else
        let idx_sorted := isort cmpi (seq 0 (length xs)) in
        pad_take (kth + 1) (-1)%Z (map Z.of_nat (firstn n idx_sorted))
    else
      let t := firstn (kth + 1) (isort cmpi (seq 0 (length xs))) in
      map Z.of_nat (if sort then isort cmpi t else t).

  Definition vpartition (kth : nat) (sort rev : bool) (xs : list T) : res (list T) :=
    let n := count_valid xs in
    let cmp := cmp_dir rev in
    if (n =? kth + 1)%nat && negb sort then Ok (filter not_none xs) else
    if (n <=? kth + 1)%nat then
      if negb sort then
        (* repeat(T::none()) is evaluated eagerly *)
        do pad <- tnone; Ok (pad_take (kth + 1) pad (filter not_none xs))
      else
        let v := isort cmp xs in
        (* repeat_with(T::none) is evaluated only when padding is needed *)
        if (length v <? kth + 1)%nat then do pad <- tnone; Ok (pad_take (kth + 1) pad v)
        else Ok (firstn (kth + 1) v)
    else
      let t := firstn (kth + 1) (isort cmp xs) in
      Ok (if sort then isort cmp t else t).
End Partition.
