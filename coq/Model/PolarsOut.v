(* Model/PolarsOut.v — a Polars ChunkedArray as OUTPUT container
   (tea-core/src/backends_impl/polars.rs, `impl Vec1<Option<T>> for ChunkedArray<..>`, after the repair
   "fix: results stored by index can be collected into a Polars array").
   A ChunkedArray cannot be written in place.  `Vec1::uninit(len)` hands out the staging buffer
   `ChunkedUninit<T>(Vec<Option<T>>)` with every slot null, `uset(i, v)` overwrites slot i, `assume_init`
   collects the buffer into an array of ONE chunk; `collect_from_iter` / `collect_from_trusted` (the
   iterator bodies of the drivers) also build one chunk.  The drivers' callbacks then return `Option<T>`
   (the null of the output is `None`).
   Before the repair `uninit` returned `ChunkedArray::full_null(len)` and `uset` was `unimplemented!`:
   the caller-buffer path of every backend and the returned path of the Vec / ndarray fast paths (which
   stage through `O::uninit`) panicked as soon as the first result was stored.
   Definitions only.                                                                                  *)
From Tevec Require Import Base.Prelude Model.Driver Model.Features Model.Containers.
Set Implicit Arguments.

(* ---- the staging buffer --------------------------------------------------------------------- *)
Definition pstage (A : Type) := list (option A).
Definition pstage_uninit {A} (len : nat) : pstage A := repeat None len.
Fixpoint pstage_uset {A} (i : nat) (v : option A) (b : pstage A) {struct b} : pstage A :=
  match b, i with
  | [], _ => []                       (* out of bounds: the caller's obligation (`unsafe fn`); dropped *)
  | _ :: r, 0 => v :: r
  | c :: r, S i => c :: pstage_uset i v r
  end.
Definition pstage_assume_init {A} (b : pstage A) : chunked A := [b].
(* Vec1::collect_from_iter / collect_from_trusted *)
Definition chunked_collect {A} (l : list (option A)) : chunked A := [l].

Section PExec.
  Context {S X A : Type}.
  Variable g : S -> X -> S * option A.
  (* the calls of a driver, in its order, each stored at its slot of the staging buffer *)
  Fixpoint pexec (s : S) (calls : list (nat * X)) (b : pstage A) : pstage A :=
    match calls with
    | [] => b
    | (slot, a) :: rest => let '(s', o) := g s a in pexec s' rest (pstage_uset slot o b)
    end.
End PExec.

(* what the caller sees: the logical sequence of the collected array; never uninitialised memory *)
Definition finish_polars {A} (b : pstage A) : outcome (option A) :=
  Done (chunked_to_list (pstage_assume_init b)).

(* a result of the iterator body collected into a Polars array *)
Definition collected_polars {A} (o : outcome (option A)) : outcome (option A) :=
  match o with Done l => Done (chunked_to_list (chunked_collect l)) | o' => o' end.

(* the generic buffer of Model/Driver.v holds `option O` cells (None = uninitialised memory); with O = Option<T>
   the staging buffer holds, slot by slot, `join` of that cell: a slot that was never written is null *)
Definition join {A} (c : option (option A)) : option A :=
  match c with Some o => o | None => None end.
Definition lift_uninit {A} (o : outcome (option A)) : outcome (option A) :=
  match o with Uninit buf => Done (map join buf) | o' => o' end.

(* ---- the index bodies with a Polars staging buffer ------------------------------------------
   = the caller-buffer path `*_to(.., out)` of every backend with `out = uninit_ref_mut(&mut stage)`,
   = the returned path of the Vec / ndarray fast paths with `O = ChunkedArray`                      *)
Section EntryPolars.
  Context {T S A : Type}.
  Definition rolling_apply_to_polars (w : nat) (f : S -> option T * T -> S * option A) (s0 : S)
             (xs : list T) : outcome (option A) :=
    if bad_window w xs then Panicked AssertFail
    else finish_polars (pexec f s0 (calls_to w xs) (pstage_uninit (length xs))).
  Definition rolling_apply_idx_to_polars (w : nat) (f : S -> option nat * nat * T -> S * option A)
             (s0 : S) (xs : list T) : outcome (option A) :=
    if bad_window w xs then Panicked AssertFail
    else finish_polars (pexec f s0 (calls_to_idx w xs) (pstage_uninit (length xs))).
  Definition rolling_custom_to_polars (w : nat) (f : S -> list T -> S * option A) (s0 : S)
             (xs : list T) : outcome (option A) :=
    if bad_window w xs then Panicked AssertFail
    else finish_polars
           (pexec f s0 (map (fun '(slot, (st, e)) => (slot, seg st e xs)) (slices_to w (length xs)))
                  (pstage_uninit (length xs))).
End EntryPolars.

Section TwoPolars.
  Context {T1 T2 S A : Type}.
  Definition rolling2_apply_to_polars (w : nat)
             (f : S -> option (T1 * T2) * (T1 * T2) -> S * option A) s0
             (xs : list T1) (ys : list T2) : outcome (option A) :=
    if length ys <? length xs then Panicked AssertFail
    else rolling_apply_to_polars w f s0 (combine xs ys).
  Definition rolling2_apply_idx_to_polars (w : nat)
             (f : S -> option nat * nat * (T1 * T2) -> S * option A) s0
             (xs : list T1) (ys : list T2) : outcome (option A) :=
    if length ys <? length xs then Panicked AssertFail
    else rolling_apply_idx_to_polars w f s0 (combine xs ys).
End TwoPolars.

(* a rolling feature whose output element is `Option<..>`, staged into a Polars array *)
Definition ts_run_polars {T St A} (F : feat T St (option A)) (w : nat) (xs : list T)
  : outcome (option A) :=
  rolling_apply_to_polars w (feat_cb F) (f_init F) xs.
