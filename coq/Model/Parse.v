(* Model/Parse.v — executable model of tea-time/src/timedelta.rs `TimeDelta::parse` (the hand-written
   duration scanner), as repaired by the `fix:` commit (the i64 parse error and every overflow are
   propagated as `Err`, no `unwrap`, no unchecked `*`/`+=`, `Duration::try_seconds`/`checked_add`).
   Definitions only.

   A string is the list of its Unicode scalar values (`list Z`).  `str::char_indices` yields byte
   offsets; the model uses character positions instead.  Every index the scanner ever slices with
   comes from `char_indices` (or is 0), so byte offsets and character positions denote the same
   sub-strings; what can still go wrong with `&duration[start..i]` — `start > i` or `i > len` — is
   kept in the model as `Panic` (see `slice`).                                                       *)
From Coq Require Import List ZArith Lia Bool.
From Tevec Require Import Base.Prelude.
Import ListNotations.
Local Open Scope Z_scope.

Definition str := list Z.

(* char::is_ascii_digit / char::is_ascii_alphabetic *)
Definition is_digit (c : Z) : bool := (48 <=? c) && (c <=? 57).
Definition is_alpha (c : Z) : bool := ((65 <=? c) && (c <=? 90)) || ((97 <=? c) && (c <=? 122)).

Definition i64_min : Z := -9223372036854775808.
Definition i64_max : Z := 9223372036854775807.
Definition i32_min : Z := -2147483648.
Definition i32_max : Z := 2147483647.
Definition in_i64 (z : Z) : bool := (i64_min <=? z) && (z <=? i64_max).
Definition in_i32 (z : Z) : bool := (i32_min <=? z) && (z <=? i32_max).

(* ------------------------------------------------------------------ *)
(* <i64 as FromStr>::from_str: [+-]?[0-9]+ with range check (core::num::from_str_radix, radix 10).
   std accumulates with checked_mul/checked_add (checked_sub for negatives); the magnitudes of the
   partial results are monotone, so "some step overflows" = "the final value is out of range".  *)
Fixpoint digits_val (acc : Z) (s : str) : option Z :=
  match s with
  | [] => Some acc
  | c :: r => if is_digit c then digits_val (acc * 10 + (c - 48)) r else None
  end.

Definition parse_i64 (s : str) : option Z :=
  match s with
  | [] => None                                             (* IntErrorKind::Empty *)
  | c :: r =>
    let '(neg, ds) := if c =? 45 then (true, r) else if c =? 43 then (false, r) else (false, s) in
    match ds with
    | [] => None                                           (* "+" / "-" alone: InvalidDigit *)
    | _ :: _ =>
      match digits_val 0 ds with
      | Some v => let n := if neg then - v else v in if in_i64 n then Some n else None
      | None => None                                       (* InvalidDigit *)
      end
    end
  end.

(* &duration[a..b]: panics when a > b or b > len (char boundaries: see the header) *)
Definition slice (s : str) (a b : nat) : res str :=
  if ((a <=? b)%nat && (b <=? length s)%nat)%bool then Ok (seg a b s) else Panic OtherPanic.

(* ------------------------------------------------------------------ *)
(* the unit table (match unit.as_str() { .. }) *)
Inductive unit_kind := Uns | Uus | Ums | Us | Um | Uh | Ud | Uw | Umo | Uy.

Definition unit_str (u : unit_kind) : str :=
  match u with
  | Uns => [110; 115] | Uus => [117; 115] | Ums => [109; 115] | Us => [115] | Um => [109]
  | Uh => [104] | Ud => [100] | Uw => [119] | Umo => [109; 111] | Uy => [121]
  end.

Fixpoint str_eqb (a b : str) : bool :=
  match a, b with
  | [], [] => true
  | x :: a', y :: b' => (x =? y) && str_eqb a' b'
  | _, _ => false
  end.

Definition all_units : list unit_kind := [Uns; Uus; Ums; Us; Um; Uh; Ud; Uw; Umo; Uy].

Definition unit_of (s : str) : option unit_kind :=
  find (fun u => str_eqb s (unit_str u)) all_units.

(* accumulators: nsecs : i64, secs : i64, months : i32 *)
Record accs := mk_accs { a_nsecs : Z; a_secs : Z; a_months : Z }.

(* the two closures of the repaired code: acc + n * k, None when it does not fit *)
Definition add_i64 (acc n k : Z) : option Z :=
  let p := n * k in
  if in_i64 p then (let r := p + acc in if in_i64 r then Some r else None) else None.
Definition add_i32 (acc n k : Z) : option Z :=
  if in_i32 n then
    (let p := n * k in
     if in_i32 p then (let r := p + acc in if in_i32 r then Some r else None) else None)
  else None.

Definition unit_scale (u : unit_kind) : Z :=
  match u with
  | Uns => 1 | Uus => 1000 | Ums => 1000000
  | Us => 1 | Um => 60 | Uh => 3600 | Ud => 86400 | Uw => 604800
  | Umo => 1 | Uy => 12
  end.

Definition apply_unit (u : unit_kind) (n : Z) (a : accs) : option accs :=
  match u with
  | Uns | Uus | Ums =>
    option_map (fun v => mk_accs v (a_secs a) (a_months a)) (add_i64 (a_nsecs a) n (unit_scale u))
  | Us | Um | Uh | Ud | Uw =>
    option_map (fun v => mk_accs (a_nsecs a) v (a_months a)) (add_i64 (a_secs a) n (unit_scale u))
  | Umo | Uy =>
    option_map (fun v => mk_accs (a_nsecs a) (a_secs a) v) (add_i32 (a_months a) n (unit_scale u))
  end.

(* ------------------------------------------------------------------ *)
(* chrono::TimeDelta { secs, nanos } with 0 <= nanos < 10^9, range +-i64::MAX milliseconds *)
Definition cr_max_secs : Z := 9223372036854775.
Definition cr_min_secs : Z := -9223372036854776.
Definition cr_max_nanos : Z := 807000000.
Definition cr_min_nanos : Z := 193000000.
Definition giga : Z := 1000000000.

(* TimeDelta::new(secs, nanos) *)
Definition duration_new (secs nanos : Z) : option (Z * Z) :=
  if (secs <? cr_min_secs) || (secs >? cr_max_secs) || (nanos >=? giga)
     || ((secs =? cr_max_secs) && (nanos >? cr_max_nanos))
     || ((secs =? cr_min_secs) && (nanos <? cr_min_nanos))
  then None else Some (secs, nanos).

(* outcome of the parser: Ok (months, total nanoseconds of `inner`) | Err | panic | fuel exhausted *)
Inductive pres := POk (months ns : Z) | PErr | PPanic (k : panic_kind) | PFuel.

(* Duration::try_seconds(secs).and_then(|d| d.checked_add(&Duration::nanoseconds(nsecs))) *)
Definition finish (a : accs) : pres :=
  match duration_new (a_secs a) 0 with
  | None => PErr
  | Some (s1, n1) =>
    let s2 := a_nsecs a / giga in            (* div_mod_floor_64 *)
    let n2 := a_nsecs a mod giga in
    let secs := s1 + s2 in
    let nanos := n1 + n2 in
    let '(secs, nanos) := if nanos >=? giga then (secs + 1, nanos - giga) else (secs, nanos) in
    match duration_new secs nanos with
    | None => PErr
    | Some (s, n) => POk (a_months a) (s * giga + n)
    end
  end.

(* ------------------------------------------------------------------ *)
(* the scanner.  Iterator state = (rest, pos): the characters not yet yielded and the index the
   next `iter.next()` reports.                                                                     *)

(* inner `loop { if ch.is_ascii_alphabetic() { unit.push(ch) } else { break }
                 match iter.next() { Some((i, ch_)) => { ch = ch_; start = i }, None => break } }`
   returns (unit, rest, pos, start) *)
Fixpoint unit_loop (ch : Z) (rest : str) (pos start : nat) (unit : str) : str * str * nat * nat :=
  if is_alpha ch then
    match rest with
    | ch' :: rest' => unit_loop ch' rest' (S pos) pos (unit ++ [ch])
    | [] => (unit ++ [ch], [], pos, start)
    end
  else (unit, rest, pos, start).

Fixpoint scan (fuel : nat) (s rest : str) (pos start : nat) (a : accs) : pres :=
  match fuel with
  | O => PFuel
  | S fuel' =>
    match rest with
    | [] => finish a                                               (* while let None *)
    | ch :: rest1 =>
      let i := pos in
      if negb (is_digit ch) && negb (i =? 0)%nat then
        match slice s start i with
        | Panic k => PPanic k
        | Ok sub =>
          match parse_i64 sub with
          | None => PErr                                           (* repaired: was .unwrap() *)
          | Some n =>
            let '(unit, rest2, pos2, start2) := unit_loop ch rest1 (S pos) start [] in
            match unit with
            | [] => PErr                                           (* tensure!(!unit.is_empty()) *)
            | _ :: _ =>
              match unit_of unit with
              | None => PErr                                       (* unit not supported *)
              | Some u =>
                match apply_unit u n a with
                | None => PErr                                     (* repaired: overflow *)
                | Some a' => scan fuel' s rest2 pos2 start2 a'
                end
              end
            end
          end
        end
      else scan fuel' s rest1 (S pos) start a
    end
  end.

Definition parse (s : str) : pres := scan (S (length s)) s s 0%nat 0%nat (mk_accs 0 0 0).
