(* Model/Binary.v — tea-rolling/src/binary.rs: ts_vcov, ts_vcorr, and the cross-sum accumulator that
   reg.rs' two-series closures share.  Written once over `Num A` and two null dictionaries (the two
   series may have different element types), add -> emit -> remove form, literal operation order.
   Definitions only.

   One accumulator record carries the union of the running sums the closures keep
   (n, sum_a, sum_b, sum_ab, sum_a2 / sum2_a, sum_b2 / sum2_b); every closure updates its own subset with
   the same statements, the fields are independent, and each `emit_*` below reads only the sums its Rust
   closure keeps, so the outputs coincide.  `n -= 1` (usize) is `(n - 1)%nat`: it is executed only when a
   pairwise-complete pair leaves the window, and then n >= 1 (Proofs/Binary.v: csum_abs).             *)
From Coq Require Import ZArith.
From Tevec Require Import Base.Prelude Base.Num Model.Driver Model.Features.
Set Implicit Arguments.

(* two-series add-emit-remove entry: rolling2_apply (view.rs:615-704; Vec/ndarray fast path = index body) *)
Definition ts_run2 {T1 T2 St O} (F : feat (T1 * T2) St O) (body : bool) (w : nat)
           (xs : list T1) (ys : list T2) : outcome O :=
  if body then rolling2_apply_to w (feat_cb F) (f_init F) xs ys
  else rolling2_apply_default w (feat_cb F) (f_init F) xs ys.

Section Binary.
  Context {A : Type} `{NA : Num A} {T1 : Type} {D1 : IsNone T1 A} {T2 : Type} {D2 : IsNone T2 A}.
  Local Open Scope num_scope.

  Record csum := { c_n : nat; c_a : A; c_b : A; c_ab : A; c_a2 : A; c_b2 : A }.
  Definition csum0 : csum :=
    {| c_n := 0; c_a := nzero; c_b := nzero; c_ab := nzero; c_a2 := nzero; c_b2 := nzero |}.

  (* `va.not_none() && vb.not_none()` *)
  Definition both (p : T1 * T2) : bool := not_none (fst p) && not_none (snd p).

  Definition csum_add (s : csum) (va vb : A) : csum :=
    {| c_n := S (c_n s); c_a := c_a s + va; c_a2 := c_a2 s + va * va;
       c_b := c_b s + vb; c_b2 := c_b2 s + vb * vb; c_ab := c_ab s + va * vb |}.
  Definition csum_sub (s : csum) (va vb : A) : csum :=
    {| c_n := (c_n s - 1)%nat; c_a := c_a s - va; c_a2 := c_a2 s - va * va;
       c_b := c_b s - vb; c_b2 := c_b2 s - vb * vb; c_ab := c_ab s - va * vb |}.

  Definition csum_pre (s : csum) (p : T1 * T2) : csum :=
    if both p then csum_add s (unwrap (fst p)) (unwrap (snd p)) else s.
  Definition csum_post (s : csum) (rm : option (T1 * T2)) : csum :=
    match rm with
    | Some p => if both p then csum_sub s (unwrap (fst p)) (unwrap (snd p)) else s
    | None => s
    end.

  Definition csum_feat {O} (emit : csum -> O) : feat (T1 * T2) csum O :=
    {| f_init := csum0; f_pre := csum_pre; f_emit := emit; f_post := csum_post |}.

  (* ---- ts_vcov (binary.rs:21-71, after `fix: ts_vcov requires two observations`) ----
     min_periods = min_periods.unwrap_or(window / 2).min(window).max(2), so `(n - 1)` on usize cannot
     underflow when it is evaluated (n >= min_periods >= 2).                                   *)
  Definition emit_cov (mp : nat) (s : csum) : A :=
    if mp <=? c_n s then
      (c_ab s - (c_a s * c_b s) / nofnat (c_n s)) / nofnat (c_n s - 1)%nat
    else nnan.
  Definition ts_vcov_f (w : nat) (mp : option nat) := csum_feat (emit_cov (mp_eff mp w 2)).

  (* ---- ts_vcorr (binary.rs:85-150) ---- *)
  Definition emit_corr (mp : nat) (s : csum) : A :=
    if mp <=? c_n s then
      let nf := nofnat (c_n s) in
      let mean_a := c_a s / nf in
      let var_a0 := c_a2 s / nf in
      let mean_b := c_b s / nf in
      let var_b0 := c_b2 s / nf in
      let var_a := var_a0 - powi mean_a 2 in
      let var_b := var_b0 - powi mean_b 2 in
      if nltb neps var_a && nltb neps var_b then
        let exy := c_ab s / nf in
        let exey := c_a s * c_b s / powi nf 2 in
        (exy - exey) / nsqrt (var_a * var_b)
      else nnan
    else nnan.
  Definition ts_vcorr_f (w : nat) (mp : option nat) := csum_feat (emit_corr (mp_eff mp w 0)).
End Binary.
