(* Model/Rank.v — tea-map/src/vec_map.rs:112-276 `vrank` (after the fix of the len = 1 early return):
   argsort with sort_cmp / sort_cmp_rev (nulls last), then the run-length loop over the sorted index
   vector with repeat_num / sum_rank / cur_rank, writing average ranks through `out.uset`.
   The output buffer starts uninitialised (`None` slots).  `i - j` and `len - repeat_num` are usize
   subtractions that cannot underflow (Proofs/Rank.v: the invariant repeat_num <= i + 1 <= len);
   they are written with truncated subtraction here.  Definitions only.                       *)
From Coq Require Import ZArith.
From Tevec Require Import Base.Prelude Base.Num Model.SortCmp.
Set Implicit Arguments.

Section Rank.
  Context {A : Type} `{NA : Num A} {T : Type} `{DT : IsNone T A} `{DX : IsNoneX T A}.
  Local Open Scope num_scope.

  Definition uset {X} (i : nat) (v : X) (out : list (option X)) : list (option X) :=
    firstn i out ++ match skipn i out with [] => [] | _ :: r => Some v :: r end.

  (* `self.uget(i).is_none()`; out-of-range reads do not occur *)
  Definition get_is_none (xs : list T) (i : nat) : bool :=
    match nth_error xs i with Some v => is_none v | None => true end.
  Definition get_eq (xs : list T) (i j : nat) : bool :=
    match nth_error xs i, nth_error xs j with Some a, Some b => teqb a b | _, _ => false end.

  Record rstate := { r_rep : nat; r_cur : nat; r_sum : nat; r_out : list (option A) }.

  Section Loop.
    Variables (pct : bool) (nn : nat) (xs : list T) (idx_sorted : list nat).

    (* (sum_rank.f64() / repeat_num.f64())  resp.  sum_rank.f64() / (repeat_num * not_none_count).f64() *)
    Definition rk_avg (sum rep : nat) : A :=
      if pct then nofnat sum / nofnat (rep * nn)%nat else nofnat sum / nofnat rep.
    (* cur_rank as f64  resp.  cur_rank as f64 / not_none_count as f64 *)
    Definition rk_one (cur : nat) : A :=
      if pct then nofnat cur / nofnat nn else nofnat cur.

    (* for j in 0..repeat_num { out.uset(idx_sorted.uget(i - j), v) } *)
    Definition write_run (i rep : nat) (v : A) (out : list (option A)) : list (option A) :=
      fold_left (fun o j => uset (nth (i - j)%nat idx_sorted 0%nat) v o) (seq 0 rep) out.

    (* the body of `for i in 0..len - 1`; Some idx = `break` with idx = i + 1 *)
    Fixpoint rank_loop (is : list nat) (st : rstate) : rstate * option nat :=
      match is with
      | [] => (st, None)
      | i :: rest =>
          let idx := nth i idx_sorted 0%nat in
          let idx1 := nth (S i) idx_sorted 0%nat in
          if get_is_none xs idx1 then
            let sum := (r_sum st + r_cur st)%nat in
            ({| r_rep := r_rep st; r_cur := S (r_cur st); r_sum := sum;
                r_out := write_run i (r_rep st) (rk_avg sum (r_rep st)) (r_out st) |}, Some (S i))
          else if get_eq xs idx idx1 then
            rank_loop rest {| r_rep := S (r_rep st); r_cur := S (r_cur st);
                              r_sum := (r_sum st + r_cur st)%nat; r_out := r_out st |}
          else if (r_rep st =? 1)%nat then
            rank_loop rest {| r_rep := r_rep st; r_cur := S (r_cur st); r_sum := r_sum st;
                              r_out := uset idx (rk_one (r_cur st)) (r_out st) |}
          else
            let sum := (r_sum st + r_cur st)%nat in
            rank_loop rest {| r_rep := 1; r_cur := S (r_cur st); r_sum := 0;
                              r_out := write_run i (r_rep st) (rk_avg sum (r_rep st)) (r_out st) |}
      end.

    Definition rank_finish (len : nat) (r : rstate * option nat) : list (option A) :=
      let '(st, brk) := r in
      match brk with
      | Some idx =>
          fold_left (fun o i => uset (nth i idx_sorted 0%nat) nnan o) (seq idx (len - idx)) (r_out st)
      | None =>
          let sum := (r_sum st + r_cur st)%nat in
          fold_left (fun o i => uset (nth i idx_sorted 0%nat) (rk_avg sum (r_rep st)) o)
                    (seq (len - r_rep st) (r_rep st)) (r_out st)
      end.
  End Loop.

  (* result slots: Some v = written, None = left uninitialised (never happens: Proofs/Rank.v) *)
  Definition vrank (pct rev : bool) (xs : list T) : list (option A) :=
    let len := length xs in
    if (len =? 0)%nat then [] else
    if (len =? 1)%nat then [Some (if get_is_none xs 0 then nnan else none)] else
    let idx_sorted := isort (cmp_idx (cmp_dir rev) xs) (seq 0 len) in
    if get_is_none xs (nth 0 idx_sorted 0%nat) then repeat (Some nnan) len else
    let nn := count_valid xs in
    rank_finish pct nn idx_sorted len
      (rank_loop pct nn xs idx_sorted (seq 0 (len - 1))
                 {| r_rep := 1; r_cur := 1; r_sum := 0; r_out := repeat None len |}).
End Rank.
