(* Model/KernelSteps.v — C10: the access trace of an index-form kernel, STEP BY STEP.
   `kernel_trace` (Model/Kernels.v) is the flat list of accesses of a whole call.  The instrumented
   implementation run (harness/src/bin/c10.rs) is compared with the model one callback invocation at a
   time, so the same trace is given here as a list of steps: for the position e of the step, the driver's own
   reads, the accesses of the callback, the write of the output slot, and the panic that ended the call
   there (if any).  Proofs/KernelSteps.v proves that concatenating the steps gives `kernel_trace` back
   (nothing is added, dropped or reordered), that step number i is position i, and that the callback reads
   of step i lie in the window of position i.  Definitions only.                                        *)
From Coq Require Import ZArith.
From Tevec Require Import Base.Prelude Base.Num Model.Driver Model.Features Model.Cmp Model.Norm Model.Binary
     Model.Reg Model.Kernels Model.SortCmp Model.Rank Model.KernelsMap.
Set Implicit Arguments.

Record kstep := {
  ks_drv : list acc;                 (* reads of the driver body itself (two-phase bodies only) *)
  ks_cb : list acc;                  (* accesses of the callback, in program order *)
  ks_wr : list acc;                  (* [AUset slot] in the two-phase bodies when the callback returned *)
  ks_panic : option panic_kind       (* the callback panicked here: nothing is accessed afterwards *)
}.
Definition kstep_accs (k : kstep) : list acc := ks_drv k ++ ks_cb k ++ ks_wr k.

Section KernelSteps.
  Context {T St O : Type}.
  Variable cbt : St -> option nat * nat * T -> tr (St * O).
  Variable drv : nat -> list acc.
  Variable wr : bool.

  Fixpoint steps_calls (s : St) (calls : list (nat * (option nat * nat * T))) : list kstep :=
    match calls with
    | [] => []
    | (slot, a) :: rest =>
        let r := cbt s a in
        match snd r with
        | Ok (s', _) =>
            {| ks_drv := drv (snd (fst a)); ks_cb := fst r;
               ks_wr := if wr then [AUset slot] else []; ks_panic := None |} :: steps_calls s' rest
        | Panic k =>
            [{| ks_drv := drv (snd (fst a)); ks_cb := fst r; ks_wr := []; ks_panic := Some k |}]
        end
    end.
End KernelSteps.

(* same case split as kernel_trace *)
Definition kernel_steps {T St O} (body two : bool) (w : nat)
           (cbt : St -> option nat * nat * T -> tr (St * O)) (s0 : St) (xs : list T) : list kstep :=
  if bad_window w xs then [] else
  if body then steps_calls cbt (drv_reads two) true s0 (calls_to_idx w xs)
  else steps_calls cbt (fun _ => []) false s0 (combine (seq 0 (length xs)) (args_iter_idx w xs)).

(* the entry points, step by step (same parameters as trace_ts_* of Model/Kernels.v) *)
Section EntrySteps.
  Context {A : Type} `{NA : Num A} {T : Type} `{DT : IsNone T A}.
  Definition steps_ts_vext (scmp : option A -> option A -> comparison) (body : bool) (w : nat)
             (mp : option nat) (xs : list T) : list kstep :=
    let w' := cmp_window w xs in kernel_steps body false w' (vext_cb_tr scmp (cmp_mp mp w') xs) ext0 xs.
  Definition steps_ts_varg (scmp : option A -> option A -> comparison) (body : bool) (w : nat)
             (mp : option nat) (xs : list T) : list kstep :=
    let w' := cmp_window w xs in kernel_steps body false w' (varg_cb_tr scmp (cmp_mp mp w') xs) ext0 xs.
  Definition steps_ts_vrank {B : Type} `{NB : Num B} (body : bool) (w : nat) (mp : option nat)
             (pct rev : bool) (xs : list T) : list kstep :=
    let w' := cmp_window w xs in
    kernel_steps body false w' (vrank_cb_tr (B := B) (cmp_mp mp w') (w' - 1) pct rev xs) 0 xs.
  Definition steps_ts_vminmaxnorm (tmin tmax : A) (body : bool) (w : nat) (mp : option nat)
             (xs : list T) : list kstep :=
    kernel_steps body false w (mmnorm_cb_tr tmin tmax (mp_eff mp w 0) xs) (mm0 tmin tmax) xs.
End EntrySteps.

Section EntrySteps2.
  Context {A : Type} `{NA : Num A} {T1 : Type} {D1 : IsNone T1 A} {T2 : Type} {D2 : IsNone T2 A}.
  Definition steps_ts_vregx_resid (k : rstat) (body : bool) (w : nat) (mp : option nat)
             (xs : list T1) (ys : list T2) : list kstep :=
    let zs := combine xs ys in
    if body && (length ys <? length xs) then []
    else kernel_steps body true w (resid_cb_tr k (mp_eff mp w 0) zs) csum0 zs.
End EntrySteps2.

(* ---- the cells of a step: reads as a SORTED multiset -------------------------------------------------
   An access is numbered as in Run/RunC10.v (`1000000 * (1 + view) + index` for an unchecked read); the
   callback reads of a step are emitted as the sorted list of their numbers, so that two runs that perform
   the same reads in a different order (or the harness, which sorts the same way) give the same cells.   *)
Definition acc_num (a : acc) : Z :=
  (match a with
   | AUget v i => 1000000 * (1 + Z.of_nat v) + Z.of_nat i
   | AUslice v a b => 10000000 * (1 + Z.of_nat v) + 1000 * Z.of_nat a + Z.of_nat b
   | ASlice v a b => 50000000 + 10000000 * (1 + Z.of_nat v) + 1000 * Z.of_nat a + Z.of_nat b
   | AUset i => - Z.of_nat i - 1
   end)%Z.
Definition is_read (a : acc) : bool := match a with AUset _ => false | _ => true end.

Fixpoint ins_z (x : Z) (l : list Z) : list Z :=
  match l with
  | [] => [x]
  | y :: r => if (x <=? y)%Z then x :: l else y :: ins_z x r
  end.
Fixpoint sort_z (l : list Z) : list Z :=
  match l with [] => [] | x :: r => ins_z x (sort_z r) end.

Definition read_nums (t : list acc) : list Z := sort_z (map acc_num (filter is_read t)).

(* ---- vrank: the trace cut at its writes ------------------------------------------------------------------
   `vrank` has no callback steps; its trace (Model/KernelsMap.v : vrank_tr) is cut at every `out.uset`: a
   segment is the accesses performed since the previous write, then the write.  Reads of view 2 (the internal
   `Vec<usize>` idx_sorted, a std container the harness cannot instrument) are not observable and dropped.  *)
Record wseg := { ws_reads : list acc; ws_write : option nat }.
Definition wseg_accs (s : wseg) : list acc :=
  ws_reads s ++ match ws_write s with Some i => [AUset i] | None => [] end.

Fixpoint segs_of (t cur : list acc) : list wseg :=
  match t with
  | [] => match cur with [] => [] | _ => [{| ws_reads := cur; ws_write := None |}] end
  | AUset i :: r => {| ws_reads := cur; ws_write := Some i |} :: segs_of r []
  | a :: r => segs_of r (cur ++ [a])
  end.

Definition observable (a : acc) : bool := match a with AUget 2 _ => false | _ => true end.
Definition seg_writes (l : list wseg) : list nat :=
  flat_map (fun s => match ws_write s with Some i => [i] | None => [] end) l.

(* index classes "modulo ties": the representative of i is the first index that holds an equal element
   (`same`: equal values, or both null).  An unstable sort may order equal elements either way, so which
   member of a class is read / written at a given moment is not determined; its class is.               *)
Definition class_rep {T} (same : T -> T -> bool) (xs : list T) (i : nat) : nat :=
  match nth_error xs i with
  | None => i
  | Some x => match find (fun j => match nth_error xs j with Some y => same y x | None => false end)
                         (seq 0 i) with
              | Some j => j
              | None => i
              end
  end.
Definition acc_rep {T} (same : T -> T -> bool) (xs : list T) (a : acc) : acc :=
  match a with AUget 0 i => AUget 0 (class_rep same xs i) | _ => a end.

Section VrankSegs.
  Context {A : Type} `{NA : Num A} {T : Type} `{DT : IsNone T A} `{DX : IsNoneX T A}.
  Definition vrank_segs (pct rev : bool) (xs : list T) : list wseg :=
    segs_of (filter observable (fst (vrank_tr pct rev xs))) [].
End VrankSegs.
