(* Model/Norm.v — tea-rolling/src/norm.rs: ts_vminmaxnorm (window-index driver, lazily re-searched
   maximum and minimum, sentinels T::Inner::min_() / max_()) and ts_vzscore (remove/add driver,
   add -> emit -> remove on (n, sum, sum2)).  Written once over `Num A` / `IsNone T A`.  Definitions only. *)
From Coq Require Import ZArith.
From Tevec Require Import Base.Prelude Base.Num Model.Driver Model.Features Model.Cmp.
Set Implicit Arguments.

Section MinMaxNorm.
  Context {A : Type} `{NA : Num A} {T : Type} `{DT : IsNone T A}.
  Local Open Scope num_scope.
  Variables tmin tmax : A.                 (* T::Inner::min_(), T::Inner::max_() *)

  Record mm := { mm_max : A; mm_maxi : nat; mm_min : A; mm_mini : nat; mm_n : nat }.
  Definition mm0 : mm := {| mm_max := tmin; mm_maxi := 0; mm_min := tmax; mm_mini := 0; mm_n := 0 |}.

  (* for i in start..end { if v.not_none() { if v >= max { (max, max_idx) = (v, i) } } } *)
  Fixpoint scan_max (xs : list T) (i cnt : nat) (mx : A) (mxi : nat) : res (A * nat) :=
    match cnt with
    | 0 => Ok (mx, mxi)
    | S c => do v <- uget xs i;
             if not_none v then
               let x := unwrap v in
               if nleb mx x then scan_max xs (S i) c x i else scan_max xs (S i) c mx mxi
             else scan_max xs (S i) c mx mxi
    end.
  Fixpoint scan_min (xs : list T) (i cnt : nat) (mn : A) (mni : nat) : res (A * nat) :=
    match cnt with
    | 0 => Ok (mn, mni)
    | S c => do v <- uget xs i;
             if not_none v then
               let x := unwrap v in
               if nleb x mn then scan_min xs (S i) c x i else scan_min xs (S i) c mn mni
             else scan_min xs (S i) c mn mni
    end.
  (* the (true, true) arm: one loop updating both *)
  Fixpoint scan_both (xs : list T) (i cnt : nat) (mx : A) (mxi : nat) (mn : A) (mni : nat)
    : res (A * nat * (A * nat)) :=
    match cnt with
    | 0 => Ok (mx, mxi, (mn, mni))
    | S c => do v <- uget xs i;
             if not_none v then
               let x := unwrap v in
               let '(mx', mxi') := if nleb mx x then (x, i) else (mx, mxi) in
               let '(mn', mni') := if nleb x mn then (x, i) else (mn, mni) in
               scan_both xs (S i) c mx' mxi' mn' mni'
             else scan_both xs (S i) c mx mxi mn mni
    end.

  (* the re-search at the top of the closure *)
  Definition mm_research (xs : list T) (s : mm) (start : option nat) (e : nat) : res mm :=
    match start with
    | None => Ok s
    | Some st =>
        match mm_maxi s <? st, mm_mini s <? st with
        | true, false =>
            do r <- scan_max xs st (e - st) tmin (mm_maxi s);
            Ok {| mm_max := fst r; mm_maxi := snd r; mm_min := mm_min s; mm_mini := mm_mini s; mm_n := mm_n s |}
        | false, true =>
            do r <- scan_min xs st (e - st) tmax (mm_mini s);
            Ok {| mm_max := mm_max s; mm_maxi := mm_maxi s; mm_min := fst r; mm_mini := snd r; mm_n := mm_n s |}
        | true, true =>
            do r <- scan_both xs st (e - st) tmin (mm_maxi s) tmax (mm_mini s);
            Ok {| mm_max := fst (fst r); mm_maxi := snd (fst r);
                  mm_min := fst (snd r); mm_mini := snd (snd r); mm_n := mm_n s |}
        | false, false => Ok s
        end
    end.

  Definition mmnorm_cb (mp : nat) (xs : list T) (s : mm) (a : option nat * nat * T) : res (mm * A) :=
    let '(start, e, v) := a in
    do s1 <- mm_research xs s start e;
    let '(s2, out) :=
      if not_none v then
        let x := unwrap v in
        let n := S (mm_n s1) in
        let '(mx, mxi) := if nleb (mm_max s1) x then (x, e) else (mm_max s1, mm_maxi s1) in
        let '(mn, mni) := if nleb x (mm_min s1) then (x, e) else (mm_min s1, mm_mini s1) in
        ({| mm_max := mx; mm_maxi := mxi; mm_min := mn; mm_mini := mni; mm_n := n |},
         if (mp <=? n) && negb (neqb mx mn) then (x - mn) / (mx - mn) else nnan)
      else (s1, nnan) in
    do s3 <- (match start with
              | None => Ok s2
              | Some st =>
                  do v0 <- uget xs st;
                  if not_none v0 then
                    do n' <- usub (mm_n s2) 1;
                    Ok {| mm_max := mm_max s2; mm_maxi := mm_maxi s2; mm_min := mm_min s2;
                          mm_mini := mm_mini s2; mm_n := n' |}
                  else Ok s2
              end);
    Ok (s3, out).

  (* the window is NOT clamped here; min_periods.unwrap_or(window / 2).min(window) *)
  Definition ts_vminmaxnorm (body : bool) (w : nat) (mp : option nat) (xs : list T) : outcome A :=
    idx_run body w (mmnorm_cb (mp_eff mp w 0) xs) mm0 xs.
End MinMaxNorm.

Section ZScore.
  Context {A : Type} `{NA : Num A} {T : Type} `{DT : IsNone T A}.
  Local Open Scope num_scope.

  (* z_cur: the current element (None when null) — the output depends on it *)
  Record zs := { z_n : nat; z_s1 : A; z_s2 : A; z_cur : option A }.
  Definition zs0 : zs := {| z_n := 0; z_s1 := nzero; z_s2 := nzero; z_cur := None |}.

  Definition zs_pre (s : zs) (v : T) : zs :=
    if not_none v then
      let x := unwrap v in
      {| z_n := S (z_n s); z_s1 := z_s1 s + x; z_s2 := z_s2 s + x * x; z_cur := Some x |}
    else {| z_n := z_n s; z_s1 := z_s1 s; z_s2 := z_s2 s; z_cur := None |}.

  Definition zs_emit (mp : nat) (s : zs) : A :=
    match z_cur s with
    | Some x =>
        if mp <=? z_n s then
          let nf := nofnat (z_n s) in
          let var := z_s2 s / nf in
          let mean := z_s1 s / nf in
          let var := var - powi mean 2 in
          if nltb neps var then (x - mean) / nsqrt (var * nf / nofnat (z_n s - 1)%nat)
          else nnan
        else nnan
    | None => nnan
    end.

  Definition zs_post (s : zs) (rm : option T) : zs :=
    match rm with
    | Some v => if not_none v then
                  let x := unwrap v in
                  {| z_n := (z_n s - 1)%nat; z_s1 := z_s1 s - x; z_s2 := z_s2 s - x * x; z_cur := z_cur s |}
                else s
    | None => s
    end.

  Definition ts_vzscore_f (w : nat) (mp : option nat) : feat T zs A :=
    {| f_init := zs0; f_pre := zs_pre; f_emit := zs_emit (mp_eff mp w 0); f_post := zs_post |}.
  Definition ts_vzscore (body : bool) (w : nat) (mp : option nat) (xs : list T) : outcome A :=
    ts_run (ts_vzscore_f w mp) body w xs.
End ZScore.
