(* Model/NullView.v — the vocabulary of property C08.  Definitions only.
   * the option view of an element under a null dictionary is `to_opt` (Base/Num.v: tea-dtype/src/isnone.rs
     `to_opt`; the view `.opt()` / OptIter of tea-core/src/vec_core/iter.rs:71-145 maps it over a container);
   * two series "encode the same logical series" when their option views agree pointwise (`SameView`);
   * `NullInsert xs ys`: ys is xs with null elements inserted at arbitrary positions (any element the
     dictionary calls null may be inserted: NaN, None); `insert_pat` is the same by a boolean pattern;
   * `PairInsert zs zs'`: two series, zipped — pairs that are not pairwise complete (at least one side null,
     the other side arbitrary) inserted at arbitrary positions (pairwise deletion).                        *)
From Tevec Require Import Base.Prelude Base.Num.
Set Implicit Arguments.

Definition same_view {T1 T2 A} (D1 : IsNone T1 A) (D2 : IsNone T2 A) (a : T1) (b : T2) : Prop :=
  to_opt (H := D1) a = to_opt (H := D2) b.
Definition SameView {T1 T2 A} (D1 : IsNone T1 A) (D2 : IsNone T2 A) (xs1 : list T1) (xs2 : list T2) : Prop :=
  Forall2 (same_view D1 D2) xs1 xs2.

(* the option view of a series: what `.opt()` iterates over *)
Definition opt_view {T A} {D : IsNone T A} (xs : list T) : list (option A) := map (to_opt (H := D)) xs.

(* the dictionary of the option view itself (Option<T::Inner>: None is the null); `dflt` is never observed *)
Definition IsNone_view {A} (dflt : A) : IsNone (option A) A :=
  {| is_none := fun o => match o with None => true | Some _ => false end;
     unwrap := fun o => match o with Some x => x | None => dflt end |}.

Inductive NullInsert {T A} {D : IsNone T A} : list T -> list T -> Prop :=
| ni_nil : NullInsert [] []
| ni_keep x xs ys : NullInsert xs ys -> NullInsert (x :: xs) (x :: ys)
| ni_null v xs ys : is_none v = true -> NullInsert xs ys -> NullInsert xs (v :: ys).

(* pattern form: `true` = a null is inserted here, `false` = the next element of xs; what is left of xs
   when the pattern ends is appended *)
Fixpoint insert_pat {T} (nl : T) (p : list bool) (xs : list T) : list T :=
  match p with
  | [] => xs
  | true :: p' => nl :: insert_pat nl p' xs
  | false :: p' => match xs with [] => insert_pat nl p' [] | x :: xs' => x :: insert_pat nl p' xs' end
  end.

(* pairwise completeness of an observation (agg.rs:672, 722: `va.not_none() && vb.not_none()`) *)
Definition complete {T1 T2 A} {D1 : IsNone T1 A} {D2 : IsNone T2 A} (p : T1 * T2) : bool :=
  not_none (fst p) && not_none (snd p).

Inductive PairInsert {T1 T2 A} {D1 : IsNone T1 A} {D2 : IsNone T2 A}
  : list (T1 * T2) -> list (T1 * T2) -> Prop :=
| pi_nil : PairInsert [] []
| pi_keep p zs zs' : PairInsert zs zs' -> PairInsert (p :: zs) (p :: zs')
| pi_null p zs zs' : complete p = false -> PairInsert zs zs' -> PairInsert zs (p :: zs').
