(* Model/MapOps.v — the element-wise mapping operations of tea-map (property C13).  Definitions only.
   List versions of the exact iterator constructions of
     tea-map/src/lib.rs        MapBasic::{abs, shift}
     tea-map/src/valid_iter.rs MapValidBasic::{vabs, ffill_mask, ffill, bfill_mask, bfill, vclip,
                                               fill_mask, fill, vshift}
     tea-map/src/vec_map.rs    MapValidVec::{vdiff, vpct_change}          (repaired tree)
   An iterator is the list of the items it yields; `TrustIter::new(it, len)` / `.to_trust(len)` yields
   the items of `it` (its announced length is C09's subject; here the *length of the result* is a
   theorem).  `n : i32` is a `Z`; `n.unsigned_abs() as usize` is `Z.abs n` (kept in Z so that
   i32::MIN/MAX never become unary numbers; converted to nat only below the `len <= n_abs` guard).  *)
From Tevec Require Import Base.Prelude.
Set Implicit Arguments.
Local Open Scope Z_scope.

(* ---- null dictionary: tea-dtype/src/isnone.rs, the part these operations use ------------------ *)
Record NullDict (T I : Type) := {
  is_none : T -> bool;                    (* IsNone::is_none; not_none = negb is_none *)
  none    : res T;                        (* IsNone::none(): panics on the integer types *)
  unwrap  : T -> res I;                   (* IsNone::unwrap: identity on f64 / ints (no check), panics on Option::None *)
  imap    : (I -> I) -> T -> res T;       (* IsNone::map::<_, Self>: f64/int `from_inner(f(self))`; Option per case *)
}.

(* the three families of instances (isnone.rs:303-470, 472-545) *)
Section Instances.
  Context {A : Type}.
  (* f32 / f64: null = NaN, nothing is checked *)
  Definition dict_float (inan : A -> bool) (nanv : A) : NullDict A A :=
    {| is_none := inan; none := Ok nanv; unwrap := fun v => Ok v; imap := fun f v => Ok (f v) |}.
  (* Option<A>: from_inner canonicalises a null inner value to None *)
  Definition dict_opt (inan : A -> bool) : NullDict (option A) A :=
    {| is_none := fun o => match o with Some _ => false | None => true end;
       none := Ok None;
       unwrap := fun o => match o with Some v => Ok v | None => Panic UnwrapNone end;
       imap := fun f o => match o with
                          | Some v => Ok (if inan (f v) then None else Some (f v))
                          | None => Ok None end |}.
  (* bool, u8, i32, i64, isize, u64, usize: never null, `none()` panics *)
  Definition dict_int : NullDict A A :=
    {| is_none := fun _ => false; none := Panic OtherPanic; unwrap := fun v => Ok v;
       imap := fun f v => Ok (f v) |}.
End Instances.

(* ---- helpers ------------------------------------------------------------------------------------ *)
Fixpoint sequence {A} (l : list (res A)) : res (list A) :=
  match l with
  | [] => Ok []
  | r :: rest => do a <- r; do t <- sequence rest; Ok (a :: t)
  end.

Definition mapM {A B} (f : A -> res B) (l : list A) : res (list B) := sequence (map f l).

(* `value.unwrap_or_else(|| T::none())` *)
Definition or_none {T I} (d : NullDict T I) (value : option T) : res T :=
  match value with Some v => Ok v | None => none d end.

(* ---- shift (lib.rs:54-76) and vshift (valid_iter.rs:308-335) -------------------------------------- *)
Section Shift.
  Context {T : Type}.

  Definition shift (n : Z) (value : T) (xs : list T) : res (list T) :=
    let len := length xs in
    let n_abs := Z.abs n in
    if Z.of_nat len <=? n_abs then Ok (repeat value len)         (* the |n| >= len guard *)
    else
      let k := Z.to_nat n_abs in
      if 0 <? n then
        do m <- usub len k;                                        (* len - n_abs *)
        Ok (repeat value k ++ firstn m xs)                         (* repeat_n(value,n).chain(self.take(len-n)) *)
      else if n <? 0 then
        Ok (skipn k xs ++ repeat value k)                          (* self.skip(n).chain(repeat_n(value,n)) *)
      else Ok xs.

  Definition vshift {I} (d : NullDict T I) (n : Z) (value : option T) (xs : list T) : res (list T) :=
    do v <- or_none d value;
    shift n v xs.
End Shift.

(* ---- vdiff (vec_map.rs:19-50, after the fixes) -------------------------------------------------- *)
Section Diff.
  Context {T I : Type} (d : NullDict T I) (sub : T -> T -> T).

  Definition vdiff (n : Z) (value : option T) (xs : list T) : res (list T) :=
    let len := length xs in
    let n_abs := Z.abs n in
    do v <- or_none d value;
    if Z.of_nat len <=? n_abs then Ok (repeat v len)
    else
      let k := Z.to_nat n_abs in
      if 0 <? n then
        do m <- usub len k;
        (* repeat_n(value,n).chain(take(len-n).zip(skip(n)).map(|(a,b)| b - a)) *)
        Ok (repeat v k ++ map (fun p => sub (snd p) (fst p)) (combine (firstn m xs) (skipn k xs)))
      else
        (* skip(n).zip(self).map(|(a,b)| b - a).chain(repeat_n(value,n)); also lag 0 *)
        Ok (map (fun p => sub (snd p) (fst p)) (combine (skipn k xs) xs) ++ repeat v k).
End Diff.

(* ---- vpct_change (vec_map.rs:58-100, after the fix) --------------------------------------------- *)
(* the f64 operations the closure uses *)
Record FOps (F : Type) := {
  fnanv : F;                   (* f64::NAN *)
  fisnan : F -> bool;          (* !a.not_none()  on f64: a != a *)
  fis0 : F -> bool;            (* a == 0.   (false on NaN) *)
  fdiv : F -> F -> F;
  fsub : F -> F -> F;
  fone : F;
}.

Section Pct.
  Context {T I F : Type} (d : NullDict T I) (o : FOps F) (cast : T -> F).

  (* n > 0: the lagged side `a` has been cast to f64 before the test *)
  Definition pct_pos (a : F) (b : T) : F :=
    if negb (fisnan o a) && negb (is_none d b) && negb (fis0 o a)
    then fsub o (fdiv o (cast b) a) (fone o) else fnanv o.
  (* n <= 0: both sides tested as T, then `a` cast and tested for zero *)
  Definition pct_neg (a b : T) : F :=
    if negb (is_none d a) && negb (is_none d b)
    then let a' := cast a in
         if negb (fis0 o a') then fsub o (fdiv o (cast b) a') (fone o) else fnanv o
    else fnanv o.

  Definition vpct_change (n : Z) (xs : list T) : res (list F) :=
    let len := length xs in
    let n_abs := Z.abs n in
    if Z.of_nat len <=? n_abs then Ok (repeat (fnanv o) len)
    else
      let k := Z.to_nat n_abs in
      if 0 <? n then
        do m <- usub len k;
        Ok (map (fun p => pct_pos (fst p) (snd p))
                (combine (repeat (fnanv o) k ++ map cast (firstn m xs)) xs))
      else
        Ok (map (fun p => pct_neg (fst p) (snd p)) (combine (skipn k xs) xs) ++ repeat (fnanv o) k).
End Pct.

(* ---- fills (valid_iter.rs:53-170, 264-289) -------------------------------------------------------- *)
Section Fill.
  Context {T I : Type} (d : NullDict T I).

  (* the stateful closure of ffill_mask / bfill_mask: state = last_valid *)
  Definition ffill_step (mask : T -> bool) (value : option T) (last : option T) (v : T)
    : option T * res T :=
    if mask v then
      (last, match last with
             | Some lv => Ok lv
             | None => match value with Some dv => Ok dv | None => none d end
             end)
    else (Some v, Ok v).

  Definition ffill_mask (mask : T -> bool) (value : option T) (xs : list T) : res (list T) :=
    sequence (run (ffill_step mask value) None xs).
  Definition ffill (value : option T) (xs : list T) : res (list T) :=
    ffill_mask (is_none d) value xs.

  (* self.rev().map(f).collect_trusted_to_vec().into_iter().rev() *)
  Definition bfill_mask (mask : T -> bool) (value : option T) (xs : list T) : res (list T) :=
    do l <- sequence (run (ffill_step mask value) None (rev xs));
    Ok (rev l).
  Definition bfill (value : option T) (xs : list T) : res (list T) :=
    bfill_mask (is_none d) value xs.

  Definition fill_mask (mask : T -> bool) (value : T) (xs : list T) : list T :=
    map (fun v => if mask v then value else v) xs.
  Definition fill (value : T) (xs : list T) : list T := fill_mask (is_none d) value xs.
End Fill.

(* ---- vclip (valid_iter.rs:192-240) -------------------------------------------------------------- *)
Section Clip.
  Context {T I : Type} (d : NullDict T I) (ltb : I -> I -> bool).   (* PartialOrd::lt; a > b is ltb b a *)

  Definition clip2 (lower upper : T) (lo hi : I) (v : T) : res T :=
    if negb (is_none d v) then
      do vi <- unwrap d v;
      Ok (if ltb vi lo then lower else if ltb hi vi then upper else v)
    else Ok v.
  Definition clip_lo (lower : T) (lo : I) (v : T) : res T :=
    if negb (is_none d v) then                     (* `&&` short-circuits: unwrap only when not none *)
      do vi <- unwrap d v; Ok (if ltb vi lo then lower else v)
    else Ok v.
  Definition clip_hi (upper : T) (hi : I) (v : T) : res T :=
    if negb (is_none d v) then
      do vi <- unwrap d v; Ok (if ltb hi vi then upper else v)
    else Ok v.

  Definition vclip (lower upper : T) (xs : list T) : res (list T) :=
    match negb (is_none d lower), negb (is_none d upper) with
    | true, true => do lo <- unwrap d lower; do hi <- unwrap d upper; mapM (clip2 lower upper lo hi) xs
    | true, false => do lo <- unwrap d lower; mapM (clip_lo lower lo) xs
    | false, true => do hi <- unwrap d upper; mapM (clip_hi upper hi) xs
    | false, false => Ok xs
    end.
End Clip.

(* ---- abs (lib.rs:29-35) and vabs (valid_iter.rs:27-33, isnone.rs:188-193) ----------------------- *)
Section Abs.
  Context {T I : Type} (d : NullDict T I) (iabs : I -> I).
  Definition vabs (xs : list T) : res (list T) := mapM (imap d iabs) xs.
End Abs.
Definition abs_map {A} (aabs : A -> A) (xs : list A) : list A := map aabs xs.
