(* Model/Kernels.v — index-level view of the drivers for C10.
   Running the driver model on the list of POSITIONS [0; 1; ..; len-1] instead of on the data makes
   every argument the model fetches with `nth_error` (one `uget` in the code) visible as the index
   it was fetched from: the call list is then literally the trace of unchecked reads and of the
   output slots written.  Definitions only.                                                       *)
From Tevec Require Import Base.Prelude Model.Driver.
Set Implicit Arguments.

Inductive acc :=
| AUget (view : nat) (i : nat)          (* view 0 = self, 1 = other *)
| AUslice (view : nat) (a b : nat)      (* unchecked slice a..b *)
| ASlice (view : nat) (a b : nat)       (* checked slice (iterator body of rolling_custom) *)
| AUset (i : nat).

(* rolling_apply_to: (slot, reads) per callback invocation *)
Definition trace_apply_to (w len : nat) : list acc :=
  flat_map (fun '(slot, (rm, v)) =>
              match rm with
              | Some r => [AUget 0 r; AUget 0 v; AUset slot]     (* (self.uget(start), self.uget(end)) *)
              | None => [AUget 0 v; AUset slot]
              end)
           (calls_to w (seq 0 len)).

Definition trace_apply2_to (w len : nat) : list acc :=
  flat_map (fun '(slot, (rm, v)) =>
              match rm with
              | Some r => [AUget 0 r; AUget 0 v; AUget 1 r; AUget 1 v; AUset slot]
              | None => [AUget 0 v; AUget 1 v; AUset slot]
              end)
           (calls_to w (seq 0 len)).

(* rolling_apply_idx_to: reads self.uget(end); the callback additionally receives (start, end) *)
Definition trace_idx_to (cb : option nat -> nat -> list acc) (w len : nat) : list acc :=
  flat_map (fun '(slot, (st, e, v)) => AUget 0 v :: cb st e ++ [AUset slot])
           (calls_to_idx w (seq 0 len)).
Definition trace_idx2_to (cb : option nat -> nat -> list acc) (w len : nat) : list acc :=
  flat_map (fun '(slot, (st, e, v)) => AUget 0 v :: AUget 1 v :: cb st e ++ [AUset slot])
           (calls_to_idx w (seq 0 len)).

(* slice forms *)
Definition trace_custom_to (w len : nat) : list acc :=
  flat_map (fun '(slot, (st, e)) => [AUslice 0 st e; AUset slot]) (slices_to w len).
Definition trace_custom_iter (w len : nat) : list acc :=
  map (fun '(st, e) => ASlice 0 st e) (slices_iter w len).
Definition trace_custom2 (w len : nat) : list acc :=
  flat_map (fun '(st, e) => [AUslice 0 st e; AUslice 1 st e]) (slices_iter w len).

(* iter.write(&mut out): write_trust_iter with len == iter_len writes slots 0..len-1 in order *)
Definition trace_write (len : nat) : list acc := map AUset (seq 0 len).

(* the property, as a predicate on a trace *)
Definition acc_ok (len len2 : nat) (a : acc) : Prop :=
  match a with
  | AUget 0 i => i < len
  | AUget _ i => i < len2
  | AUslice 0 a b | ASlice 0 a b => a <= b /\ b <= len
  | AUslice _ a b | ASlice _ a b => a <= b /\ b <= len2
  | AUset i => i < len
  end.
Definition writes_of (t : list acc) : list nat :=
  flat_map (fun a => match a with AUset i => [i] | _ => [] end) t.

(* reads a rescanning callback may perform at (start, end): any index in start.unwrap_or(0) ..= end *)
Definition cb_reads_in_window (cb : option nat -> nat -> list acc) : Prop :=
  forall st e a, In a (cb st e) ->
    match a with
    | AUget _ i => match st with Some s => s | None => 0 end <= i /\ i <= e
    | _ => False
    end.
