(* Model/Kernels.v — index-level view of the drivers for C10.
   Running the driver model on the list of POSITIONS [0; 1; ..; len-1] instead of on the data makes
   every argument the model fetches with `nth_error` (one `uget` in the code) visible as the index
   it was fetched from: the call list is then literally the trace of unchecked reads and of the
   output slots written.  Definitions only.                                                       *)
From Tevec Require Import Base.Prelude Model.Driver.
Set Implicit Arguments.

Inductive acc :=
| AUget (view : nat) (i : nat)          (* view 0 = self, 1 = other *)
| AUslice (view : nat) (a b : nat)      (* unchecked slice a..b *)
| ASlice (view : nat) (a b : nat)       (* checked slice (iterator body of rolling_custom) *)
| AUset (i : nat).

(* rolling_apply_to: (slot, reads) per callback invocation *)
Definition trace_apply_to (w len : nat) : list acc :=
  flat_map (fun '(slot, (rm, v)) =>
              match rm with
              | Some r => [AUget 0 r; AUget 0 v; AUset slot]     (* (self.uget(start), self.uget(end)) *)
              | None => [AUget 0 v; AUset slot]
              end)
           (calls_to w (seq 0 len)).

Definition trace_apply2_to (w len : nat) : list acc :=
  flat_map (fun '(slot, (rm, v)) =>
              match rm with
              | Some r => [AUget 0 r; AUget 0 v; AUget 1 r; AUget 1 v; AUset slot]
              | None => [AUget 0 v; AUget 1 v; AUset slot]
              end)
           (calls_to w (seq 0 len)).

(* rolling_apply_idx_to: reads self.uget(end); the callback additionally receives (start, end) *)
Definition trace_idx_to (cb : option nat -> nat -> list acc) (w len : nat) : list acc :=
  flat_map (fun '(slot, (st, e, v)) => AUget 0 v :: cb st e ++ [AUset slot])
           (calls_to_idx w (seq 0 len)).
Definition trace_idx2_to (cb : option nat -> nat -> list acc) (w len : nat) : list acc :=
  flat_map (fun '(slot, (st, e, v)) => AUget 0 v :: AUget 1 v :: cb st e ++ [AUset slot])
           (calls_to_idx w (seq 0 len)).

(* slice forms *)
Definition trace_custom_to (w len : nat) : list acc :=
  flat_map (fun '(slot, (st, e)) => [AUslice 0 st e; AUset slot]) (slices_to w len).
Definition trace_custom_iter (w len : nat) : list acc :=
  map (fun '(st, e) => ASlice 0 st e) (slices_iter w len).
Definition trace_custom2 (w len : nat) : list acc :=
  flat_map (fun '(st, e) => [AUslice 0 st e; AUslice 1 st e]) (slices_iter w len).

(* iter.write(&mut out): write_trust_iter with len == iter_len writes slots 0..len-1 in order *)
Definition trace_write (len : nat) : list acc := map AUset (seq 0 len).

(* the property, as a predicate on a trace *)
Definition acc_ok (len len2 : nat) (a : acc) : Prop :=
  match a with
  | AUget 0 i => i < len
  | AUget _ i => i < len2
  | AUslice 0 a b | ASlice 0 a b => a <= b /\ b <= len
  | AUslice _ a b | ASlice _ a b => a <= b /\ b <= len2
  | AUset i => i < len
  end.
Definition writes_of (t : list acc) : list nat :=
  flat_map (fun a => match a with AUset i => [i] | _ => [] end) t.

(* reads a rescanning callback may perform at (start, end): any index in start.unwrap_or(0) ..= end *)
Definition cb_reads_in_window (cb : option nat -> nat -> list acc) : Prop :=
  forall st e a, In a (cb st e) ->
    match a with
    | AUget _ i => match st with Some s => s | None => 0 end <= i /\ i <= e
    | _ => False
    end.

(* =====================================================================================================
   Extension (C10, kernels inside the trace model).
   The rescanning callbacks of cmp.rs / norm.rs / reg.rs re-read the series through `uget` at indices that
   depend on the data and on their cached state.  Each callback is written once more in the TRACED result
   monad `tr X = (accesses performed, Ok x | Panic k)`: the text is the text of Model/Cmp.v, Model/Norm.v,
   Model/Reg.v with `bind` replaced by `tbind` and `uget xs i` by `tget view xs i` (which logs `AUget view i`
   before returning what `uget` returns).  Proofs/Kernels2.v proves the ERASURE law
   `snd (cb_tr .. s a) = cb .. s a` for every one of them, so the traced text computes exactly the model
   value (the model that the C03/C04/C05/C06 correspondence runs validate), and its first component is the
   list of reads that computation performs.  Definitions only.                                           *)
From Tevec Require Import Base.Num Model.Features Model.Cmp Model.Norm Model.Binary Model.Reg.

Definition tr (X : Type) : Type := (list acc * res X)%type.
Definition tret {X} (x : X) : tr X := ([], Ok x).
Definition tpure {X} (r : res X) : tr X := ([], r).                 (* a step that touches no container *)
Definition tbind {X Y} (m : tr X) (f : X -> tr Y) : tr Y :=
  match snd m with
  | Ok x => (fst m ++ fst (f x), snd (f x))
  | Panic k => (fst m, Panic k)                                     (* unwinding: nothing more is accessed *)
  end.
Notation "'dot' x <- r ; k" := (tbind r (fun x => k)) (at level 200, x name, r at level 100, k at level 200).
(* `view.uget(i)` *)
Definition tget {T} (view : nat) (xs : list T) (i : nat) : tr T := ([AUget view i], uget xs i).
(* `(self.uget(i), other.uget(i))` on the zipped series *)
Definition tget2 {T} (zs : list T) (i : nat) : tr T := ([AUget 0 i; AUget 1 i], uget zs i).

Definition start_or_0 (st : option nat) : nat := match st with Some s => s | None => 0 end.

(* every access of a callback is an unchecked read at an index of lo ..= hi *)
Definition reads_within (lo hi : nat) (t : list acc) : Prop :=
  Forall (fun a => match a with AUget _ i => lo <= i /\ i <= hi | _ => False end) t.

(* ---- cmp.rs: ts_vmin / ts_vmax / ts_vargmin / ts_vargmax ------------------------------------------ *)
Section CmpTr.
  Context {A : Type} `{NA : Num A} {T : Type} `{DT : IsNone T A}.
  Variable scmp : option A -> option A -> comparison.

  Fixpoint rescan_tr (xs : list T) (i cnt : nat) (m : option A) (mi : option nat)
    : tr (option A * option nat) :=
    match cnt with
    | 0 => tret (m, mi)
    | S c => dot v <- tget 0 xs i;
             let v_ := to_opt v in
             if takes (scmp v_ m) then rescan_tr xs (S i) c v_ (Some i) else rescan_tr xs (S i) c m mi
    end.

  Definition ext_step_tr (xs : list T) (s : @ext A) (start : option nat) (e : nat) (v : T) : tr (@ext A) :=
    let v := to_opt v in
    let s1 := match v with
              | Some _ =>
                  match x_idx s with
                  | None => {| x_val := v; x_idx := Some e; x_n := S (x_n s) |}
                  | Some _ => {| x_val := x_val s; x_idx := x_idx s; x_n := S (x_n s) |}
                  end
              | None => s
              end in
    if opt_lt (x_idx s1) start then
      match start with
      | None => tpure (Panic UnwrapNone)
      | Some st =>
          dot v0 <- tget 0 xs st;
          dot r <- rescan_tr xs st (S e - st) (to_opt v0) (x_idx s1);
          tret {| x_val := fst r; x_idx := snd r; x_n := x_n s1 |}
      end
    else if takes (scmp v (x_val s1)) then tret {| x_val := v; x_idx := Some e; x_n := x_n s1 |}
    else tret s1.

  Definition ext_post_tr (xs : list T) (s : @ext A) (start : option nat) : tr (@ext A) :=
    match start with
    | None => tret s
    | Some st =>
        dot v0 <- tget 0 xs st;
        if not_none v0 then
          dot n' <- tpure (usub (x_n s) 1); tret {| x_val := x_val s; x_idx := x_idx s; x_n := n' |}
        else tret s
    end.

  Definition vext_cb_tr (mp : nat) (xs : list T) (s : @ext A) (a : option nat * nat * T)
    : tr (@ext A * option A) :=
    let '(start, e, v) := a in
    dot s1 <- ext_step_tr xs s start e v;
    let out := if mp <=? x_n s1 then x_val s1 else None in
    dot s2 <- ext_post_tr xs s1 start;
    tret (s2, out).

  Definition varg_cb_tr (mp : nat) (xs : list T) (s : @ext A) (a : option nat * nat * T)
    : tr (@ext A * option nat) :=
    let '(start, e, v) := a in
    dot s1 <- ext_step_tr xs s start e v;
    dot out <- tpure (if (mp <=? x_n s1) && (match x_val s1 with Some _ => true | None => false end) then
                        match x_idx s1 with
                        | Some mi => do d <- usub mi (match start with Some st => st | None => 0 end);
                                     Ok (Some (d + 1))
                        | None => Ok None
                        end
                      else Ok None);
    dot s2 <- ext_post_tr xs s1 start;
    tret (s2, out).
End CmpTr.

(* ---- cmp.rs: ts_vrank --------------------------------------------------------------------------------- *)
Section RankTr.
  Context {A : Type} `{NA : Num A} {T : Type} `{DT : IsNone T A} {B : Type} `{NB : Num B}.
  Local Open Scope num_scope.

  Fixpoint rank_loop_tr (xs : list T) (x : A) (i cnt : nat) (rank : B) (nrep : nat) : tr (B * nat) :=
    match cnt with
    | 0 => tret (rank, nrep)
    | S c => dot a <- tget 0 xs i;
             if not_none a then
               let a' := unwrap a in
               if nltb a' x then rank_loop_tr xs x (S i) c (rank + none) nrep
               else if neqb a' x then rank_loop_tr xs x (S i) c rank (S nrep)
               else rank_loop_tr xs x (S i) c rank nrep
             else rank_loop_tr xs x (S i) c rank nrep
    end.

  Definition vrank_cb_tr (mp w_m1 : nat) (pct rev : bool) (xs : list T) (n : nat)
             (a : option nat * nat * T) : tr (nat * B) :=
    let '(start, e, v) := a in
    dot r <- (if not_none v then
                let from := match start with Some st => st | None => 0 end in
                dot rr <- rank_loop_tr xs (unwrap v) from (e - from) none 1;
                tret (S n, fst rr, snd rr)
              else tret (n, nnan, 1));
    let '(n1, rank, nrep) := r in
    let out := rank_out mp pct rev n1 rank nrep in
    dot n2 <- (if w_m1 <=? e then
                 match start with
                 | None => tpure (Panic UnwrapNone)
                 | Some st => dot v0 <- tget 0 xs st; if not_none v0 then tpure (usub n1 1) else tret n1
                 end
               else tret n1);
    tret (n2, out).
End RankTr.

(* ---- norm.rs: ts_vminmaxnorm -------------------------------------------------------------------------- *)
Section NormTr.
  Context {A : Type} `{NA : Num A} {T : Type} `{DT : IsNone T A}.
  Local Open Scope num_scope.
  Variables tmin tmax : A.

  Fixpoint scan_max_tr (xs : list T) (i cnt : nat) (mx : A) (mxi : nat) : tr (A * nat) :=
    match cnt with
    | 0 => tret (mx, mxi)
    | S c => dot v <- tget 0 xs i;
             if not_none v then
               let x := unwrap v in
               if nleb mx x then scan_max_tr xs (S i) c x i else scan_max_tr xs (S i) c mx mxi
             else scan_max_tr xs (S i) c mx mxi
    end.
  Fixpoint scan_min_tr (xs : list T) (i cnt : nat) (mn : A) (mni : nat) : tr (A * nat) :=
    match cnt with
    | 0 => tret (mn, mni)
    | S c => dot v <- tget 0 xs i;
             if not_none v then
               let x := unwrap v in
               if nleb x mn then scan_min_tr xs (S i) c x i else scan_min_tr xs (S i) c mn mni
             else scan_min_tr xs (S i) c mn mni
    end.
  Fixpoint scan_both_tr (xs : list T) (i cnt : nat) (mx : A) (mxi : nat) (mn : A) (mni : nat)
    : tr (A * nat * (A * nat)) :=
    match cnt with
    | 0 => tret (mx, mxi, (mn, mni))
    | S c => dot v <- tget 0 xs i;
             if not_none v then
               let x := unwrap v in
               let '(mx', mxi') := if nleb mx x then (x, i) else (mx, mxi) in
               let '(mn', mni') := if nleb x mn then (x, i) else (mn, mni) in
               scan_both_tr xs (S i) c mx' mxi' mn' mni'
             else scan_both_tr xs (S i) c mx mxi mn mni
    end.

  Definition mm_research_tr (xs : list T) (s : @mm A) (start : option nat) (e : nat) : tr (@mm A) :=
    match start with
    | None => tret s
    | Some st =>
        match mm_maxi s <? st, mm_mini s <? st with
        | true, false =>
            dot r <- scan_max_tr xs st (e - st) tmin (mm_maxi s);
            tret {| mm_max := fst r; mm_maxi := snd r; mm_min := mm_min s; mm_mini := mm_mini s; mm_n := mm_n s |}
        | false, true =>
            dot r <- scan_min_tr xs st (e - st) tmax (mm_mini s);
            tret {| mm_max := mm_max s; mm_maxi := mm_maxi s; mm_min := fst r; mm_mini := snd r; mm_n := mm_n s |}
        | true, true =>
            dot r <- scan_both_tr xs st (e - st) tmin (mm_maxi s) tmax (mm_mini s);
            tret {| mm_max := fst (fst r); mm_maxi := snd (fst r);
                    mm_min := fst (snd r); mm_mini := snd (snd r); mm_n := mm_n s |}
        | false, false => tret s
        end
    end.

  Definition mmnorm_cb_tr (mp : nat) (xs : list T) (s : @mm A) (a : option nat * nat * T) : tr (@mm A * A) :=
    let '(start, e, v) := a in
    dot s1 <- mm_research_tr xs s start e;
    let '(s2, out) :=
      if not_none v then
        let x := unwrap v in
        let n := S (mm_n s1) in
        let '(mx, mxi) := if nleb (mm_max s1) x then (x, e) else (mm_max s1, mm_maxi s1) in
        let '(mn, mni) := if nleb x (mm_min s1) then (x, e) else (mm_min s1, mm_mini s1) in
        ({| mm_max := mx; mm_maxi := mxi; mm_min := mn; mm_mini := mni; mm_n := n |},
         if (mp <=? n) && negb (neqb mx mn) then (x - mn) / (mx - mn) else nnan)
      else (s1, nnan) in
    dot s3 <- (match start with
               | None => tret s2
               | Some st =>
                   dot v0 <- tget 0 xs st;
                   if not_none v0 then
                     dot n' <- tpure (usub (mm_n s2) 1);
                     tret {| mm_max := mm_max s2; mm_maxi := mm_maxi s2; mm_min := mm_min s2;
                             mm_mini := mm_mini s2; mm_n := n' |}
                   else tret s2
               end);
    tret (s3, out).
End NormTr.

(* ---- reg.rs: ts_vregx_resid_{mean,std,skew} ----------------------------------------------------------
   Model/Reg.v states this callback as a PURE function (`seg`, `nth_error`, truncated `n - 1`).  Here it is
   the CHECKED text: the residual iterator reads `(self.uget(j), other.uget(j))` for j in
   start.unwrap_or(0)..=end only when n >= min_periods, the removal reads both series at `start`, and
   `n -= 1` is `usub`.  Proofs/Kernels2.v proves that under both drivers the checked text never panics and
   returns what the pure model returns.                                                                 *)
Section ResidTr.
  Context {A : Type} `{NA : Num A} {T1 : Type} {D1 : IsNone T1 A} {T2 : Type} {D2 : IsNone T2 A}.
  Local Open Scope num_scope.

  Fixpoint read_pairs_tr (zs : list (T1 * T2)) (i cnt : nat) : tr (list (T1 * T2)) :=
    match cnt with
    | 0 => tret []
    | S c => dot p <- tget2 zs i; dot r <- read_pairs_tr zs (S i) c; tret (p :: r)
    end.

  Definition resid_cb_tr (k : rstat) (mp : nat) (zs : list (T1 * T2)) (s : @csum A)
             (a : option nat * nat * (T1 * T2)) : tr (@csum A * A) :=
    let '(st, e, v) := a in
    let s1 := csum_pre s v in
    dot out <- (if mp <=? c_n s1 then
                  let beta := regx_beta s1 in
                  let alpha := (c_a s1 - beta * c_b s1) / nofnat (c_n s1) in
                  let s0 := start_or_0 st in
                  dot l <- read_pairs_tr zs s0 (S e - s0);
                  tret (rstat_apply k (map (resid_of alpha beta) l))
                else tret nnan);
    dot s2 <- (match st with
               | None => tret s1
               | Some j =>
                   dot p <- tget2 zs j;
                   if both p then
                     dot n' <- tpure (usub (c_n s1) 1);
                     tret {| c_n := n'; c_a := c_a s1 - unwrap (fst p); c_a2 := c_a2 s1 - unwrap (fst p) * unwrap (fst p);
                             c_b := c_b s1 - unwrap (snd p); c_b2 := c_b2 s1 - unwrap (snd p) * unwrap (snd p);
                             c_ab := c_ab s1 - unwrap (fst p) * unwrap (snd p) |}
                   else tret s1
               end);
    tret (s2, out).
End ResidTr.

(* ---- the access trace of a whole call of an index-form kernel ---------------------------------------
   `drv e`: the driver's own reads at position e ([AUget 0 e] in the two-phase body of rolling_apply_idx,
   [AUget 0 e; AUget 1 e] in rolling2_apply_idx, nothing in the iterator bodies, whose items come from the
   iterator); then the callback's reads; then, in the two-phase bodies, the write of the output slot.  A
   panic inside the callback unwinds: nothing is accessed afterwards.                                   *)
Section KernelTrace.
  Context {T St O : Type}.
  Variable cbt : St -> option nat * nat * T -> tr (St * O).
  Variable drv : nat -> list acc.
  Variable wr : bool.

  Fixpoint trace_calls (s : St) (calls : list (nat * (option nat * nat * T))) : list acc :=
    match calls with
    | [] => []
    | (slot, a) :: rest =>
        let r := cbt s a in
        drv (snd (fst a)) ++ fst r ++
        match snd r with
        | Ok (s', _) => (if wr then [AUset slot] else []) ++ trace_calls s' rest
        | Panic _ => []
        end
    end.
End KernelTrace.

Definition drv_reads (two : bool) (e : nat) : list acc := AUget 0 e :: (if two then [AUget 1 e] else []).

(* body = true: two-phase index body; false: iterator body.  `two`: the kernel zips a second series. *)
Definition kernel_trace {T St O} (body two : bool) (w : nat)
           (cbt : St -> option nat * nat * T -> tr (St * O)) (s0 : St) (xs : list T) : list acc :=
  if bad_window w xs then [] else
  if body then trace_calls cbt (drv_reads two) true s0 (calls_to_idx w xs)
  else trace_calls cbt (fun _ => []) false s0 (combine (seq 0 (length xs)) (args_iter_idx w xs)).

(* the entry points, as traces *)
Section EntryTraces.
  Context {A : Type} `{NA : Num A} {T : Type} `{DT : IsNone T A}.
  Definition trace_ts_vext (scmp : option A -> option A -> comparison) (body : bool) (w : nat)
             (mp : option nat) (xs : list T) : list acc :=
    let w' := cmp_window w xs in kernel_trace body false w' (vext_cb_tr scmp (cmp_mp mp w') xs) ext0 xs.
  Definition trace_ts_varg (scmp : option A -> option A -> comparison) (body : bool) (w : nat)
             (mp : option nat) (xs : list T) : list acc :=
    let w' := cmp_window w xs in kernel_trace body false w' (varg_cb_tr scmp (cmp_mp mp w') xs) ext0 xs.
  Definition trace_ts_vrank {B : Type} `{NB : Num B} (body : bool) (w : nat) (mp : option nat)
             (pct rev : bool) (xs : list T) : list acc :=
    let w' := cmp_window w xs in
    kernel_trace body false w' (vrank_cb_tr (B := B) (cmp_mp mp w') (w' - 1) pct rev xs) 0 xs.
  Definition trace_ts_vminmaxnorm (tmin tmax : A) (body : bool) (w : nat) (mp : option nat)
             (xs : list T) : list acc :=
    kernel_trace body false w (mmnorm_cb_tr tmin tmax (mp_eff mp w 0) xs) (mm0 tmin tmax) xs.
End EntryTraces.

Section EntryTraces2.
  Context {A : Type} `{NA : Num A} {T1 : Type} {D1 : IsNone T1 A} {T2 : Type} {D2 : IsNone T2 A}.
  (* rolling2_apply_idx_to asserts other.len() >= len before anything is read *)
  Definition trace_ts_vregx_resid (k : rstat) (body : bool) (w : nat) (mp : option nat)
             (xs : list T1) (ys : list T2) : list acc :=
    let zs := combine xs ys in
    if body && (length ys <? length xs) then []
    else kernel_trace body true w (resid_cb_tr k (mp_eff mp w 0) zs) csum0 zs.
End EntryTraces2.

(* the residual statistics run with the CHECKED callback (both bodies; the index body asserts the lengths) *)
Section ResidChecked.
  Context {A : Type} `{NA : Num A} {T1 : Type} {D1 : IsNone T1 A} {T2 : Type} {D2 : IsNone T2 A}.
  Definition ts_vregx_resid_chk (k : rstat) (body : bool) (w : nat) (mp : option nat)
             (xs : list T1) (ys : list T2) : outcome A :=
    let zs := combine xs ys in
    if body && (length ys <? length xs) then Panicked AssertFail
    else if bad_window w xs then Panicked AssertFail   (* the window assertion looks at SELF, not at the zip *)
    else idx_run body w (fun s a => snd (resid_cb_tr k (mp_eff mp w 0) zs s a)) csum0 zs.
End ResidChecked.

(* =====================================================================================================
   Audit YB (additive).  A WHOLE call of each driver of view.rs as the code runs it: the checks in the
   order of the code (a panic carries no access: nothing is read or written before it), then the trace.
   The kinds are those of Run/RunC10.v `run_trace` (which is `enc_dcall` of this function, lemma
   run_trace_is_driver_call there).                                                                     *)
Inductive dcall := DPanic (k : panic_kind) | DTrace (t : list acc).
Inductive dkind :=
| KApplyTo | KApply2To | KIdxTo | KIdx2To | KCustomTo        (* two-phase index bodies (caller buffer, Vec / ndarray fast path) *)
| KCustomLazy | KCustomWrite | KCustom2Lazy | KCustom2Write   (* lazy slice forms: collected / written by write_trust_iter *)
| KIterBody.                                                  (* iterator bodies, collected: no unchecked access, no uset *)
Definition dkind_writes (k : dkind) : bool :=
  match k with KCustomLazy | KCustom2Lazy | KIterBody => false | _ => true end.

Definition driver_call (cb : option nat -> nat -> list acc) (k : dkind) (w len len2 : nat) : dcall :=
  let guard (t : list acc) := if (w =? 0) && negb (len =? 0) then DPanic AssertFail else DTrace t in
  let guard2 (t : list acc) := if len2 <? len then DPanic AssertFail else guard t in
  match k with
  | KApplyTo => guard (trace_apply_to w len)
  | KApply2To => guard2 (trace_apply2_to w len)
  | KIdxTo => guard (trace_idx_to cb w len)
  | KIdx2To => guard2 (trace_idx2_to cb w len)
  | KCustomTo => guard (trace_custom_to w len)
  | KCustomLazy => if w =? 0 then DPanic Underflow else DTrace (trace_custom_iter w len)
  | KCustomWrite => if w =? 0 then DPanic Underflow else DTrace (trace_custom_iter w len ++ trace_write len)
  | KCustom2Lazy => if len2 <? len then DPanic AssertFail else if w =? 0 then DPanic Underflow
                    else DTrace (trace_custom2 w len)
  | KCustom2Write => if len2 <? len then DPanic AssertFail else if w =? 0 then DPanic Underflow
                     else DTrace (trace_custom2 w len ++ trace_write len)
  | KIterBody => guard []
  end.

(* rolling_custom(.., Some(out)) of the DEFAULT trait method with a caller buffer of ANY length `lo`
   (view.rs 338-341: `iter.write(&mut out).unwrap()`; uninit.rs write_trust_iter): the lazy iterator is built first
   (`window - 1`), then  lo = 0: Ok, nothing pulled;  lo = len: item i is pulled (slice) and stored at i;
   len = 1: the single item is pulled once and stored in EVERY slot of the buffer;  otherwise Err -> unwrap panics,
   nothing pulled, nothing stored.  The writes are bounded by `lo`, the length of the BUFFER.                  *)
Definition custom_write_call (w len lo : nat) : dcall :=
  if w =? 0 then DPanic Underflow
  else if lo =? 0 then DTrace []
  else if lo =? len then DTrace (trace_custom_iter w len ++ trace_write len)
  else if len =? 1 then DTrace (trace_custom_iter w 1 ++ trace_write lo)
  else DPanic UnwrapNone.

(* the upper size_hint a trusted-length collector reads from the lazy bodies before the first next()
   (std: Zip = min, Chain = sum, RepeatN = n, Range = its length; rolling_custom_iter: .to_trust(self.len())) *)
Definition hint_apply (w len : nat) : nat := Nat.min (w - 1 + len) len.
Definition hint_apply2 (w len len2 : nat) : nat := Nat.min (w - 1 + Nat.min len len2) (Nat.min len len2).
Definition hint_idx (w len : nat) : nat := Nat.min len (w - 1 + len).
Definition hint_idx2 (w len len2 : nat) : nat := Nat.min (Nat.min len len2) (w - 1 + len).
Definition hint_custom (w len : nat) : nat := len.
Definition hint_custom2 (w len : nat) : nat := Nat.min len (w - 1 + len).
