(* Model/TimeAccess.v — the remaining public accessors / conversions of tea-time's DateTime<U>, Time and
   TimeDelta that Model/Time.v does not name (extension X9).  Definitions only.  Mirrors
   tea-time/src/datetime.rs 84-166 (is_not_nat, to_cr), tea-time/src/impls/impl_datetime.rs 90-123 (the four
   TryFrom<DateTime<U>> for chrono::DateTime<Utc>), time.rs 34 and timedelta.rs 193 (is_not_nat).          *)
From Coq Require Import ZArith Bool.
From Tevec Require Import Base.Prelude Model.Time.
Local Open Scope Z_scope.

(* datetime.rs 90 / time.rs 34: `self.0 != i64::MIN` *)
Definition is_not_nat (x : Z) : bool := negb (x =? i64_min).
(* timedelta.rs 193: `self.months != i32::MIN` *)
Definition td_is_not_nat (d : tdelta) : bool := negb (td_months d =? i32_min).

(* impl_datetime.rs: TryFrom<DateTime<U>> for chrono::DateTime<Utc> called directly (no NaT test by the caller):
   from_timestamp / from_timestamp_millis / from_timestamp_micros are range-checked by chrono; the nanosecond impl
   tests NaT itself (repo commit "fix: TryFrom<DateTime<Nanosecond>> ...", before it: from_timestamp_nanos
   unconditionally, see try_from_cr_before_fix)                                                               *)
Definition try_from_cr (u : tunit) (x : Z) : option crdt :=
  match u with
  | Sec => cr_from_timestamp x 0
  | Milli => cr_from_timestamp (x / 1000) (x mod 1000 * 1000000)
  | Micro => cr_from_timestamp (x / 1000000) (x mod 1000000 * 1000)
  | Nano => if is_nat x then None else Some (mkcr (x / 1000000000) (x mod 1000000000))
  end.
Definition try_from_cr_before_fix (u : tunit) (x : Z) : option crdt :=
  match u with
  | Nano => Some (mkcr (x / 1000000000) (x mod 1000000000))
  | _ => try_from_cr u x
  end.

(* datetime.rs 149: the deprecated to_cr is as_cr *)
Definition to_cr (u : tunit) (x : Z) : option crdt := as_cr u x.
