(* Model/TimeAccess.v — the remaining public accessors / conversions of tea-time's DateTime<U>, Time and
   TimeDelta that Model/Time.v does not name (extension X9).  Definitions only.  Mirrors
   tea-time/src/datetime.rs 84-166 (is_not_nat, to_cr), tea-time/src/impls/impl_datetime.rs 90-123 (the four
   TryFrom<DateTime<U>> for chrono::DateTime<Utc>), time.rs 34 and timedelta.rs 193 (is_not_nat).          *)
From Coq Require Import ZArith Bool.
From Tevec Require Import Base.Prelude Model.Time.
Local Open Scope Z_scope.

(* datetime.rs 90 / time.rs 34: `self.0 != i64::MIN` *)
Definition is_not_nat (x : Z) : bool := negb (x =? i64_min).
(* timedelta.rs 193: `self.months != i32::MIN` *)
Definition td_is_not_nat (d : tdelta) : bool := negb (td_months d =? i32_min).

(* impl_datetime.rs: TryFrom<DateTime<U>> for chrono::DateTime<Utc> called directly (no NaT test by the caller):
   from_timestamp / from_timestamp_millis / from_timestamp_micros are range-checked by chrono; the nanosecond impl
   tests NaT itself (repo commit "fix: TryFrom<DateTime<Nanosecond>> ...", before it: from_timestamp_nanos
   unconditionally, see try_from_cr_before_fix)                                                               *)
Definition try_from_cr (u : tunit) (x : Z) : option crdt :=
  match u with
  | Sec => cr_from_timestamp x 0
  | Milli => cr_from_timestamp (x / 1000) (x mod 1000 * 1000000)
  | Micro => cr_from_timestamp (x / 1000000) (x mod 1000000 * 1000)
  | Nano => if is_nat x then None else Some (mkcr (x / 1000000000) (x mod 1000000000))
  end.
Definition try_from_cr_before_fix (u : tunit) (x : Z) : option crdt :=
  match u with
  | Nano => Some (mkcr (x / 1000000000) (x mod 1000000000))
  | _ => try_from_cr u x
  end.

(* datetime.rs 149: the deprecated to_cr is as_cr *)
Definition to_cr (u : tunit) (x : Z) : option crdt := as_cr u x.

(* ------------------------------------------------------------------ additions of the C16 audit (YC) — additive only *)
(* impl_datetime.rs 36-42 `Default for DateTime<U>` = nat(); impl_timedelta.rs 7-12 `Default for TimeDelta` = nat();
   time.rs 12 `#[derive(Default)] struct Time(pub i64)` = Time(0) — midnight, NOT Time::nat()                     *)
Definition dt_default : Z := NaT.
Definition td_default : tdelta := td_nat.
Definition time_default : Z := 0.

(* impl_datetime.rs 55-89: From<NaiveDateTime> (`from_naive_utc_and_offset(dt, Utc).into()`: the same (secs, nanos)),
   From<Option<NaiveDateTime>> (None = nat()), From<NaiveDate> (`and_hms_opt(0, 0, 0).unwrap()` then the same);
   a NaiveDate is its day number since 1970-01-01 (inside chrono's range)                                           *)
Definition from_naive (u : tunit) (c : crdt) : res Z := from_cr u c.
Definition from_opt_naive (u : tunit) (o : option crdt) : res Z :=
  match o with Some c => from_cr u c | None => Ok NaT end.
Definition from_naive_date (u : tunit) (day : Z) : res Z := from_cr u (mkcr (day * SECS_PER_DAY) 0).

(* impl_timedelta.rs 14-33: From<Duration> (months = 0) and From<Option<Duration>> (None = nat()); a chrono Duration is
   its total number of nanoseconds                                                                                    *)
Definition td_from_dur (ns : Z) : tdelta := mktd 0 ns.
Definition td_from_opt_dur (o : option Z) : tdelta := match o with Some ns => td_from_dur ns | None => td_nat end.

(* cast.rs 313-326 Cast<i64> / Cast<Option<i64>> for DateTime<U> (= into_i64 / into_opt_i64), 365-379 the same for Time,
   time_unit_cast! 507-547 Cast<DateTime<T>> for DateTime<U> for the 12 distinct pairs (= into_unit)                  *)
Definition dt_cast_i64 (x : Z) : Z := x.
Definition dt_cast_opt_i64 (x : Z) : option Z := into_opt_i64 x.
Definition time_cast_opt_i64 (t : Z) : option Z := if time_is_nat t then None else Some t.
Definition dt_cast_unit (u t : tunit) (x : Z) : res Z := into_unit u t x.
