(* Model/ParseDT.v — executable model of the date-time text layer used by tea-time:
     DateTime::<U>::strftime (datetime.rs:213-223)  -> chrono `format` with a strftime string
     DateTime::<U>::parse    (datetime.rs:179-201)  -> chrono NaiveDateTime/NaiveDate::parse_from_str,
                                                       the 11 rules of TIME_RULE_VEC tried in order
     From<CrDateTime<Utc>> for DateTime<U>           (impls/impl_datetime.rs:125-153, repaired: ns out
                                                       of range -> NaT)
     TryFrom<DateTime<U>> for CrDateTime<Utc>        (impls/impl_datetime.rs:90-123)
   chrono itself is external: its formatter/parser are modelled for the items these formats use
   (%Y %m %d %H %M %S %f, literals, a space) and compared with the real thing by the correspondence.
   Definitions only.                                                                              *)
From Coq Require Import List ZArith Bool.
From Tevec Require Import Base.Prelude Model.Parse Spec.CalendarC18.
Import ListNotations.
Local Open Scope Z_scope.

Inductive item := IY | Imon | Iday | IH | IM | IS | If | ILit (c : Z) | ISp.

Definition dash := ILit 45.
Definition colon := ILit 58.
Definition slash := ILit 47.
Definition dot := ILit 46.

(* "%Y-%m-%d %H:%M:%S.%f": the format strftime uses when none is given *)
Definition fmt_default : list item :=
  [IY; dash; Imon; dash; Iday; ISp; IH; colon; IM; colon; IS; dot; If].

(* TIME_RULE_VEC (after the `fix:` that restores the two missing '%' before H) *)
Definition rules : list (list item) :=
  [ [IY; dash; Imon; dash; Iday; ISp; IH; colon; IM; colon; IS];             (* %Y-%m-%d %H:%M:%S    *)
    fmt_default;                                                             (* %Y-%m-%d %H:%M:%S.%f *)
    [IY; dash; Imon; dash; Iday];                                            (* %Y-%m-%d             *)
    [IY; Imon; Iday];                                                        (* %Y%m%d               *)
    [IY; Imon; Iday; ISp; IH; IM; IS];                                       (* %Y%m%d %H%M%S        *)
    [Iday; slash; Imon; slash; IY];                                          (* %d/%m/%Y             *)
    [Iday; slash; Imon; slash; IY; ISp; IH; IM; IS];                         (* %d/%m/%Y %H%M%S      *)
    [IY; Imon; Iday; IH; IM; IS];                                            (* %Y%m%d%H%M%S         *)
    [Iday; slash; Imon; slash; IY; IH; IM; IS];                              (* %d/%m/%Y%H%M%S       *)
    [IY; slash; Imon; slash; Iday];                                          (* %Y/%m/%d             *)
    [IY; slash; Imon; slash; Iday; ISp; IH; colon; IM; colon; IS] ].         (* %Y/%m/%d %H:%M:%S    *)

(* ------------------------------------------------------------------ *)
(* formatting *)

Record dtf := mk_dtf { f_y : Z; f_mo : Z; f_d : Z; f_h : Z; f_mi : Z; f_s : Z; f_ns : Z }.

(* the low w decimal digits of v, most significant first (= zero-padded when 0 <= v < 10^w) *)
Fixpoint fixed_digits (w : nat) (v : Z) : str :=
  match w with
  | O => []
  | S w' => fixed_digits w' (v / 10) ++ [48 + v mod 10]
  end.

(* minimal decimal rendering of v >= 0 *)
Fixpoint dec_digits (fuel : nat) (v : Z) : str :=
  match fuel with
  | O => []
  | S f => if v <? 10 then [48 + v] else dec_digits f (v / 10) ++ [48 + v mod 10]
  end.

(* chrono write_year: 4 digits for 0..=9999, otherwise "{:+05}" *)
Definition render_year (y : Z) : str :=
  if (0 <=? y) && (y <=? 9999) then fixed_digits 4 y
  else (if y <? 0 then 45 else 43)
       :: (let a := Z.abs y in if a <=? 9999 then fixed_digits 4 a else dec_digits 20 a).

Definition render_item (it : item) (f : dtf) : str :=
  match it with
  | IY => render_year (f_y f)
  | Imon => fixed_digits 2 (f_mo f)
  | Iday => fixed_digits 2 (f_d f)
  | IH => fixed_digits 2 (f_h f)
  | IM => fixed_digits 2 (f_mi f)
  | IS => fixed_digits 2 (f_s f)
  | If => fixed_digits 9 (f_ns f)
  | ILit c => [c]
  | ISp => [32]
  end.

Definition render (items : list item) (f : dtf) : str := flat_map (fun it => render_item it f) items.

(* ------------------------------------------------------------------ *)
(* time units: 0 = Second, 1 = Millisecond, 2 = Microsecond, 3 = Nanosecond *)
Definition per_sec (u : Z) : Z :=
  if u =? 0 then 1 else if u =? 1 then 1000 else if u =? 2 then 1000000 else giga.

Definition cr_min_year : Z := -262143.
Definition cr_max_year : Z := 262142.

(* DateTime<U> -> chrono (from_timestamp / _millis / _micros / _nanos): fields, None when chrono
   cannot represent the instant *)
Definition fields_of_instant (u x : Z) : option dtf :=
  let p := per_sec u in
  let secs := x / p in
  let nanos := (x mod p) * (giga / p) in
  let days := secs / 86400 in
  let sod := secs mod 86400 in
  let '(y, m, d) := civil_from_days days in
  if (cr_min_year <=? y) && (y <=? cr_max_year)
  then Some (mk_dtf y m d (sod / 3600) (sod / 60 mod 60) (sod mod 60) nanos)
  else None.

Definition nat_str : str := [78; 97; 84].   (* "NaT" *)

(* DateTime::strftime(Some(items)) *)
Definition dt_format (u : Z) (items : list item) (x : Z) : res str :=
  if x =? i64_min then Ok nat_str
  else match fields_of_instant u x with
       | Some f => Ok (render items f)
       | None => Panic UnwrapNone                      (* self.as_cr().unwrap() *)
       end.

(* ------------------------------------------------------------------ *)
(* parsing (chrono format::parse for these items) *)

(* char::is_whitespace *)
Definition is_ws (c : Z) : bool :=
  ((9 <=? c) && (c <=? 13)) || (c =? 32) || (c =? 133) || (c =? 160) || (c =? 5760)
  || ((8192 <=? c) && (c <=? 8202)) || (c =? 8232) || (c =? 8233) || (c =? 8239) || (c =? 8287)
  || (c =? 12288).

Fixpoint trim_start (s : str) : str :=
  match s with
  | c :: r => if is_ws c then trim_start r else s
  | [] => []
  end.

(* scan::number(s, 1, maxw): up to maxw ASCII digits, at least one; value must fit an i64 *)
Fixpoint take_digits (maxw : nat) (s : str) (acc : Z) (n : nat) : Z * nat * str :=
  match maxw, s with
  | S w, c :: r => if is_digit c then take_digits w r (acc * 10 + (c - 48)) (S n) else (acc, n, s)
  | _, _ => (acc, n, s)
  end.

Definition scan_number (s : str) (maxw : nat) : option (Z * str) :=
  let '(v, n, r) := take_digits maxw s 0 0%nat in
  if (n =? 0)%nat then None else if in_i64 v then Some (v, r) else None.

Record parsed := mk_parsed { p_y : option Z; p_mo : option Z; p_d : option Z; p_h : option Z;
                             p_mi : option Z; p_s : option Z; p_ns : option Z }.
Definition parsed0 : parsed := mk_parsed None None None None None None None.

(* Parsed::set_* : range check, then set_if_consistent *)
Definition set_field (old : option Z) (lo hi v : Z) : option (option Z) :=
  if (lo <=? v) && (v <=? hi) then
    match old with
    | None => Some (Some v)
    | Some o => if o =? v then Some (Some v) else None
    end
  else None.

Definition parse_item (it : item) (s : str) (p : parsed) : option (str * parsed) :=
  match it with
  | ILit c => match s with
              | x :: r => if x =? c then Some (r, p) else None
              | [] => None
              end
  | ISp => Some (trim_start s, p)
  | IY =>
    let s := trim_start s in
    let num := match s with
               | c :: r => if c =? 45 then option_map (fun vr => (0 - fst vr, snd vr)) (scan_number r (length r))
                           else if c =? 43 then scan_number r (length r)
                           else scan_number s 4
               | [] => None
               end in
    match num with
    | Some (v, r) =>
      match set_field (p_y p) i32_min i32_max v with
      | Some y => Some (r, mk_parsed y (p_mo p) (p_d p) (p_h p) (p_mi p) (p_s p) (p_ns p))
      | None => None
      end
    | None => None
    end
  | Imon => match scan_number (trim_start s) 2 with
            | Some (v, r) => match set_field (p_mo p) 1 12 v with
                             | Some w => Some (r, mk_parsed (p_y p) w (p_d p) (p_h p) (p_mi p) (p_s p) (p_ns p))
                             | None => None end
            | None => None end
  | Iday => match scan_number (trim_start s) 2 with
            | Some (v, r) => match set_field (p_d p) 1 31 v with
                             | Some w => Some (r, mk_parsed (p_y p) (p_mo p) w (p_h p) (p_mi p) (p_s p) (p_ns p))
                             | None => None end
            | None => None end
  | IH => match scan_number (trim_start s) 2 with
          | Some (v, r) => match set_field (p_h p) 0 23 v with
                           | Some w => Some (r, mk_parsed (p_y p) (p_mo p) (p_d p) w (p_mi p) (p_s p) (p_ns p))
                           | None => None end
          | None => None end
  | IM => match scan_number (trim_start s) 2 with
          | Some (v, r) => match set_field (p_mi p) 0 59 v with
                           | Some w => Some (r, mk_parsed (p_y p) (p_mo p) (p_d p) (p_h p) w (p_s p) (p_ns p))
                           | None => None end
          | None => None end
  | IS => match scan_number (trim_start s) 2 with
          | Some (v, r) => match set_field (p_s p) 0 60 v with
                           | Some w => Some (r, mk_parsed (p_y p) (p_mo p) (p_d p) (p_h p) (p_mi p) w (p_ns p))
                           | None => None end
          | None => None end
  | If => match scan_number (trim_start s) 9 with
          | Some (v, r) => match set_field (p_ns p) 0 999999999 v with
                           | Some w => Some (r, mk_parsed (p_y p) (p_mo p) (p_d p) (p_h p) (p_mi p) (p_s p) w)
                           | None => None end
          | None => None end
  end.

Fixpoint parse_items (items : list item) (s : str) (p : parsed) : option parsed :=
  match items with
  | [] => match s with [] => Some p | _ :: _ => None end          (* trailing input: TOO_LONG *)
  | it :: rest => match parse_item it s p with
                  | Some (s', p') => parse_items rest s' p'
                  | None => None
                  end
  end.

(* Parsed::to_naive_date with year/month/day: NaiveDate::from_ymd_opt; result = days since 1970-01-01 *)
Definition to_naive_date (p : parsed) : option Z :=
  match p_y p, p_mo p, p_d p with
  | Some y, Some m, Some d =>
    if (cr_min_year <=? y) && (y <=? cr_max_year) && valid_date y m d
    then Some (days_from_civil y m d) else None
  | _, _, _ => None
  end.

(* Parsed::to_naive_time: (second of day, nanosecond incl. the leap-second 10^9) *)
Definition to_naive_time (p : parsed) : option (Z * Z) :=
  match p_h p, p_mi p with
  | Some h, Some mi =>
    let '(sec, nano0) := match p_s p with
                         | Some v => if v =? 60 then (59, giga) else (v, 0)
                         | None => (0, 0)
                         end in
    match p_ns p, p_s p with
    | Some _, None => None                                        (* NOT_ENOUGH *)
    | Some v, Some _ => Some (h * 3600 + mi * 60 + sec, nano0 + v)
    | None, _ => Some (h * 3600 + mi * 60 + sec, nano0)
    end
  | _, _ => None
  end.

(* From<CrDateTime<Utc>> for DateTime<U>: timestamp / _millis / _micros / _nanos_opt (None -> NaT) *)
Definition instant_of (u days sod nano : Z) : Z :=
  let secs := days * 86400 + sod in
  if u =? 3 then (let v := secs * giga + nano in if in_i64 v then v else i64_min)
  else if u =? 0 then secs                       (* timestamp(): a leap second's nano >= 10^9 is dropped *)
  else secs * per_sec u + nano / (giga / per_sec u).

(* one rule: NaiveDateTime::parse_from_str, else NaiveDate::parse_from_str (midnight) *)
Definition parse_with (u : Z) (items : list item) (s : str) : option Z :=
  match parse_items items s parsed0 with
  | None => None
  | Some p =>
    match to_naive_date p with
    | None => None
    | Some days =>
      match to_naive_time p with
      | Some (sod, nano) => Some (instant_of u days sod nano)
      | None => Some (instant_of u days 0 0)
      end
    end
  end.

(* DateTime::parse(s, None): the rules in order, first success wins *)
Fixpoint parse_rules (u : Z) (rs : list (list item)) (s : str) : option Z :=
  match rs with
  | [] => None
  | r :: rest => match parse_with u r s with
                 | Some v => Some v
                 | None => parse_rules u rest s
                 end
  end.

Definition dt_parse (u : Z) (s : str) : option Z := parse_rules u rules s.

(* ------------------------------------------------------------------ additions of the C18 audit (YC) — additive only *)
(* datetime.rs 29-41 `impl Debug for DateTime<U>`: "NaT", else strftime(None) *)
Definition dt_debug (u x : Z) : res str := dt_format u fmt_default x.

(* `{}` of an i64 / i32: minimal decimal digits, a leading '-' for negatives *)
Definition render_int (v : Z) : str := if v <? 0 then 45 :: dec_digits 20 (- v) else dec_digits 20 v.

(* time.rs 11 `#[derive(Debug)] pub struct Time(pub i64)`: "Time(<i64>)"; impl_time.rs 9-13 `Display for Time`
   forwards to Debug *)
Definition time_debug (t : Z) : str := [84; 105; 109; 101; 40] ++ render_int t ++ [41].
Definition time_display (t : Z) : str := time_debug t.

(* timedelta.rs 35 `#[derive(Debug)] pub struct TimeDelta { months, inner }` over chrono's derived Debug of
   `TimeDelta { secs, nanos }` (secs = floor, 0 <= nanos < 10^9); `ns` is the total of `inner` in nanoseconds:
   "TimeDelta { months: M, inner: TimeDelta { secs: S, nanos: N } }" — also what Cast<String> for TimeDelta returns *)
Definition td_debug (months ns : Z) : str :=
  [84; 105; 109; 101; 68; 101; 108; 116; 97; 32; 123; 32; 109; 111; 110; 116; 104; 115; 58; 32] ++ render_int months
  ++ [44; 32; 105; 110; 110; 101; 114; 58; 32; 84; 105; 109; 101; 68; 101; 108; 116; 97; 32; 123; 32; 115; 101; 99; 115; 58; 32]
  ++ render_int (ns / giga) ++ [44; 32; 110; 97; 110; 111; 115; 58; 32] ++ render_int (ns mod giga) ++ [32; 125; 32; 125].

(* time.rs 108-121 `Time::parse(s, Some(fmt))`: NaiveTime::parse_from_str = the same chrono `parse` over the items, then
   Parsed::to_naive_time; Time = num_seconds_from_midnight * 10^9 + nanosecond (a leap second's nanosecond is >= 10^9).
   (`Time::parse(s, None)` = NaiveTime::from_str is not modelled.)                                                    *)
Definition time_parse_with (items : list item) (s : str) : option Z :=
  match parse_items items s parsed0 with
  | None => None
  | Some p => match to_naive_time p with
              | Some (sod, nano) => Some (sod * giga + nano)
              | None => None
              end
  end.
Definition fmt_hms : list item := [IH; colon; IM; colon; IS].                  (* %H:%M:%S    *)
Definition fmt_hms_f : list item := [IH; colon; IM; colon; IS; dot; If].       (* %H:%M:%S.%f *)
Definition fmt_hms_compact : list item := [IH; IM; IS].                        (* %H%M%S      *)
Definition fmt_hm : list item := [IH; colon; IM].                              (* %H:%M       *)
