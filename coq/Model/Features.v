(* Model/Features.v — tea-rolling/src/features.rs: the rolling moment / weighted-average closures,
   written once over `Num A` and a null dictionary `IsNone T A`, in add -> emit -> remove form.
   The plain family (ts_sum .. ts_kurt) is the same code with the never-null dictionary.
   Definitions only.                                                                            *)
From Coq Require Import ZArith.
From Tevec Require Import Base.Prelude Base.Num Model.Driver.
Set Implicit Arguments.

Definition IsNone_never {A} : IsNone A A := {| is_none := fun _ => false; unwrap := fun x => x |}.

(* effective min_periods: min_periods.unwrap_or(window / 2).min(window).max(k) *)
Definition mp_eff (mp : option nat) (w k : nat) : nat :=
  Nat.max (Nat.min (match mp with Some m => m | None => w / 2 end) w) k.

(* an add-emit-remove feature *)
Record feat (T St O : Type) := {
  f_init : St;
  f_pre : St -> T -> St;
  f_emit : St -> O;
  f_post : St -> option T -> St;
}.

Definition feat_cb {T St O} (F : feat T St O) : St -> option T * T -> St * O :=
  fun s a => let s1 := f_pre F s (snd a) in (f_post F s1 (fst a), f_emit F s1).

(* body = false: iterator body (default trait method, returned); true: two-phase index body
   (caller buffer; Vec / ndarray fast paths)                                                  *)
Definition ts_run {T St O} (F : feat T St O) (body : bool) (w : nat) (xs : list T) : outcome O :=
  if body then rolling_apply_to w (feat_cb F) (f_init F) xs
  else rolling_apply_default w (feat_cb F) (f_init F) xs.

Section Features.
  Context {A : Type} `{NA : Num A} {T : Type} `{DT : IsNone T A}.
  Local Open Scope num_scope.

  (* ---- power-sum accumulator (sum, mean, std, var, skew, kurt) ------ *)
  Record mom := { m_n : nat; m_s1 : A; m_s2 : A; m_s3 : A; m_s4 : A }.
  Definition mom0 : mom := {| m_n := 0; m_s1 := nzero; m_s2 := nzero; m_s3 := nzero; m_s4 := nzero |}.

  Definition mom_add (s : mom) (v : A) : mom :=
    let v2 := v * v in
    {| m_n := S (m_n s); m_s1 := m_s1 s + v; m_s2 := m_s2 s + v2;
       m_s3 := m_s3 s + v2 * v; m_s4 := m_s4 s + v2 * v2 |}.
  Definition mom_sub (s : mom) (v : A) : mom :=
    let v2 := v * v in
    {| m_n := (m_n s - 1)%nat; m_s1 := m_s1 s - v; m_s2 := m_s2 s - v2;
       m_s3 := m_s3 s - v2 * v; m_s4 := m_s4 s - v2 * v2 |}.

  Definition mom_pre (s : mom) (v : T) : mom := if not_none v then mom_add s (unwrap v) else s.
  Definition mom_post (s : mom) (rm : option T) : mom :=
    match rm with Some v => if not_none v then mom_sub s (unwrap v) else s | None => s end.

  Definition mom_feat (emit : mom -> A) : feat T mom A :=
    {| f_init := mom0; f_pre := mom_pre; f_emit := emit; f_post := mom_post |}.

  Definition three : A := nofZ 3.
  Definition four : A := nofZ 4.
  Definition six : A := nofZ 6.

  Definition emit_sum (mp : nat) (s : mom) : A := if mp <=? m_n s then m_s1 s else nnan.
  Definition emit_mean (mp : nat) (s : mom) : A :=
    if mp <=? m_n s then m_s1 s / nofnat (m_n s) else nnan.

  (* var = sum2/n - (sum/n)^2 as computed *)
  Definition popvar_of (s : mom) : A :=
    let nf := nofnat (m_n s) in
    let var := m_s2 s / nf in let mean := m_s1 s / nf in var - powi mean 2.
  Definition emit_var (mp : nat) (s : mom) : A :=
    if mp <=? m_n s then
      let var := popvar_of s in
      if nltb neps var then var * nofnat (m_n s) / nofnat (m_n s - 1)%nat else nzero
    else nnan.
  Definition emit_std (mp : nat) (s : mom) : A :=
    if mp <=? m_n s then
      let var := popvar_of s in
      if nltb neps var then nsqrt (var * nofnat (m_n s) / nofnat (m_n s - 1)%nat) else nzero
    else nnan.
  Definition emit_skew (mp : nat) (s : mom) : A :=
    if mp <=? m_n s then
      let n := m_n s in let nf := nofnat n in
      let var := popvar_of s in
      let mean := m_s1 s / nf in
      if nleb var neps then nzero
      else
        let std := nsqrt var in
        let res := m_s3 s / nf in
        let mean' := mean / std in
        let adjust := nsqrt (nofnat (n * (n - 1))%nat) / nofnat (n - 2)%nat in
        adjust * (res / powi std 3 - three * mean' - powi mean' 3)
    else nnan.
  Definition emit_kurt (mp : nat) (s : mom) : A :=
    if mp <=? m_n s then
      let n := m_n s in let nf := nofnat n in
      let var := popvar_of s in
      let mean := m_s1 s / nf in
      if nleb var neps then nzero
      else
        let var2 := var * var in
        let ex4 := m_s4 s / nf in
        let ex3 := m_s3 s / nf in
        let mean2_var := mean * mean / var in
        let out := (ex4 - four * mean * ex3) / var2 + six * mean2_var + three * powi mean2_var 2 in
        none / nofnat ((n - 2) * (n - 3))%nat * (nofnat (n * n - 1)%nat * out - nofnat (3 * ((n - 1) * (n - 1)))%nat)
    else nnan.

  Definition ts_vsum_f (w : nat) (mp : option nat) := mom_feat (emit_sum (mp_eff mp w 0)).
  Definition ts_vmean_f (w : nat) (mp : option nat) := mom_feat (emit_mean (mp_eff mp w 0)).
  Definition ts_vvar_f (w : nat) (mp : option nat) := mom_feat (emit_var (mp_eff mp w 2)).
  Definition ts_vstd_f (w : nat) (mp : option nat) := mom_feat (emit_std (mp_eff mp w 2)).
  Definition ts_vskew_f (w : nat) (mp : option nat) := mom_feat (emit_skew (mp_eff mp w 3)).
  Definition ts_vkurt_f (w : nat) (mp : option nat) := mom_feat (emit_kurt (mp_eff mp w 4)).

  (* ---- exponentially weighted mean --------------------------------- *)
  Record ewm_st := { e_n : nat; e_q : A }.
  Definition ewm_alpha (w : nat) : A := ntwo / nofnat w.
  Definition ewm_oma (w : nat) : A := none - ewm_alpha w.
  Definition ewm_pre (w : nat) (s : ewm_st) (v : T) : ewm_st :=
    if not_none v then {| e_n := S (e_n s); e_q := e_q s + (unwrap v - ewm_alpha w * e_q s) |} else s.
  Definition ewm_emit (w mp : nat) (s : ewm_st) : A :=
    if mp <=? e_n s then e_q s * ewm_alpha w / (none - powi (ewm_oma w) (e_n s)) else nnan.
  Definition ewm_post (w : nat) (s : ewm_st) (rm : option T) : ewm_st :=
    match rm with
    | Some v => if not_none v then
                  let n' := (e_n s - 1)%nat in {| e_n := n'; e_q := e_q s - unwrap v * powi (ewm_oma w) n' |}
                else s
    | None => s end.
  Definition ts_vewm_f (w : nat) (mp : option nat) : feat T ewm_st A :=
    {| f_init := {| e_n := 0; e_q := nzero |}; f_pre := ewm_pre w;
       f_emit := ewm_emit w (mp_eff mp w 0); f_post := ewm_post w |}.

  (* ---- linearly weighted mean -------------------------------------- *)
  Record wma_st := { w_n : nat; w_sum : A; w_xt : A }.
  Definition wma_pre (s : wma_st) (v : T) : wma_st :=
    if not_none v then
      let x := unwrap v in let n' := S (w_n s) in
      {| w_n := n'; w_sum := w_sum s + x; w_xt := w_xt s + nofnat n' * x |}
    else s.
  Definition wma_emit (mp : nat) (s : wma_st) : A :=
    if mp <=? w_n s then w_xt s / nofnat ((w_n s * (w_n s + 1)) / 2)%nat else nnan.
  Definition wma_post (s : wma_st) (rm : option T) : wma_st :=
    match rm with
    | Some v => if not_none v then
                  {| w_n := (w_n s - 1)%nat; w_xt := w_xt s - w_sum s; w_sum := w_sum s - unwrap v |}
                else s
    | None => s end.
  Definition ts_vwma_f (w : nat) (mp : option nat) : feat T wma_st A :=
    {| f_init := {| w_n := 0; w_sum := nzero; w_xt := nzero |}; f_pre := wma_pre;
       f_emit := wma_emit (mp_eff mp w 0); f_post := wma_post |}.
End Features.
