(* Model/Reg.v — tea-rolling/src/reg.rs: the eleven regression closures, and the three aggregations of
   tea-core/src/agg.rs the residual statistics call (vmean, vstd via vmean_var, vskew) on an iterator of
   f64 (NaN = null).  Over `Num A`; literal operation order; f64::mul_add is modelled UNFUSED (a*b+c,
   two roundings instead of one — trusted base, absorbed by the comparator's tolerance).
   Definitions only.                                                                              *)
From Coq Require Import ZArith.
From Tevec Require Import Base.Prelude Base.Num Model.Driver Model.Features Model.Binary.
Set Implicit Arguments.

(* ================= aggregations over an f64 iterator (agg.rs:275-500) ================= *)
Section Agg.
  Context {A : Type} `{NA : Num A}.
  Local Open Scope num_scope.

  (* vfold_n / vapply_n: non-NaN items only, counted *)
  Definition agg_vmean (l : list A) : A :=
    let '(n, sum) := fold_left (fun st v => if nisnan v then st else (S (fst st), snd st + v)) l (0, nzero) in
    if 1 <=? n then sum / nofnat n else nnan.

  Record acc3 := { a_n : nat; a_m1 : A; a_m2 : A; a_m3 : A }.
  Definition acc3_0 : acc3 := {| a_n := 0; a_m1 := nzero; a_m2 := nzero; a_m3 := nzero |}.
  Definition acc3_step (st : acc3) (v : A) : acc3 :=
    if nisnan v then st else
      let v2 := v * v in
      {| a_n := S (a_n st); a_m1 := a_m1 st + v; a_m2 := a_m2 st + v2; a_m3 := a_m3 st + v2 * v |}.
  Definition acc3_of (l : list A) : acc3 := fold_left acc3_step l acc3_0.

  (* vmean_var(min_periods).1 *)
  Definition agg_vvar (mp : nat) (l : list A) : A :=
    let st := acc3_of l in let n := a_n st in
    if n <? mp then nnan else
      let nf := nofnat n in
      let m1 := a_m1 st / nf in
      let m2 := a_m2 st / nf in
      let m2 := m2 - powi m1 2 in
      if nleb m2 neps then nzero
      else if 2 <=? n then m2 * nf / nofnat (n - 1)%nat
      else nnan.
  Definition agg_vstd (mp : nat) (l : list A) : A := nsqrt (agg_vvar mp l).

  Definition agg_vskew (mp : nat) (l : list A) : A :=
    let st := acc3_of l in let n := a_n st in
    if n <? mp then nnan else
      let res :=
        if 3 <=? n then
          let nf := nofnat n in
          let m1 := a_m1 st / nf in
          let m2 := a_m2 st / nf in
          let var := m2 - powi m1 2 in
          if nleb var neps then nzero
          else
            let std := nsqrt var in
            let m3 := a_m3 st / nf in
            let mean_std := m1 / std in
            m3 / powi std 3 - three * mean_std - powi mean_std 3
        else nnan in
      if negb (nisnan res) && negb (neqb res nzero) then
        let adjust := nsqrt (nofnat (n * (n - 1))%nat) / nofnat (n - 2)%nat in
        res * adjust
      else res.
End Agg.

(* ================= two-series regressions (reg.rs:312-768) ================= *)
Section RegX.
  Context {A : Type} `{NA : Num A} {T1 : Type} {D1 : IsNone T1 A} {T2 : Type} {D2 : IsNone T2 A}.
  Local Open Scope num_scope.

  (* beta = (n Sab - Sa Sb) / (n Sbb - Sb^2);  alpha = (Sa - beta Sb) / n *)
  Definition regx_beta (s : @csum A) : A :=
    (nofnat (c_n s) * c_ab s - c_a s * c_b s) / (nofnat (c_n s) * c_b2 s - powi (c_b s) 2).
  Definition regx_alpha (s : @csum A) : A :=
    let beta := regx_beta s in (c_a s - beta * c_b s) / nofnat (c_n s).

  Definition emit_regx_alpha (mp : nat) (s : @csum A) : A := if mp <=? c_n s then regx_alpha s else nnan.
  Definition emit_regx_beta (mp : nat) (s : @csum A) : A := if mp <=? c_n s then regx_beta s else nnan.
  Definition emit_regx_all (mp : nat) (s : @csum A) : A * A * A :=
    if mp <=? c_n s then
      let beta := regx_beta s in
      let alpha := (c_a s - beta * c_b s) / nofnat (c_n s) in
      let sse := c_a2 s - alpha * c_a s - beta * c_ab s in
      (alpha, beta, sse)
    else (nnan, nnan, nnan).

  Definition ts_vregx_alpha_f (w : nat) (mp : option nat) : feat (T1 * T2) (@csum A) A :=
    csum_feat (emit_regx_alpha (mp_eff mp w 0)).
  Definition ts_vregx_beta_f (w : nat) (mp : option nat) : feat (T1 * T2) (@csum A) A :=
    csum_feat (emit_regx_beta (mp_eff mp w 0)).
  Definition ts_vregx_all_f (w : nat) (mp : option nat) : feat (T1 * T2) (@csum A) (A * A * A) :=
    csum_feat (emit_regx_all (mp_eff mp w 0)).

  (* ---- residual statistics: rolling2_apply_idx; the callback re-reads both series over
     start.unwrap_or(0)..=end and, after emitting, at `start` (reg.rs:477-521, 554-598, 631-675) ---- *)
  Definition resid_of (alpha beta : A) (p : T1 * T2) : A :=
    if both p then unwrap (fst p) - alpha - beta * unwrap (snd p) else nnan.

  (* which aggregation is applied to the residuals *)
  Inductive rstat := RMean | RStd | RSkew.
  Definition rstat_apply (k : rstat) (l : list A) : A :=
    match k with RMean => agg_vmean l | RStd => agg_vstd 2 l | RSkew => agg_vskew 3 l end.

  (* zs = the zipped series the callback can read through uget *)
  Definition resid_emit (k : rstat) (mp : nat) (zs : list (T1 * T2)) (s : @csum A) (st : option nat) (e : nat) : A :=
    if mp <=? c_n s then
      let beta := regx_beta s in
      let alpha := (c_a s - beta * c_b s) / nofnat (c_n s) in
      let s0 := match st with Some j => j | None => 0 end in
      rstat_apply k (map (resid_of alpha beta) (seg s0 (S e) zs))
    else nnan.
  Definition resid_post (zs : list (T1 * T2)) (s : @csum A) (st : option nat) : csum :=
    match st with
    | Some j => csum_post s (nth_error zs j)      (* uget(start); in range by construction of the driver *)
    | None => s
    end.
  Definition resid_cb (k : rstat) (mp : nat) (zs : list (T1 * T2))
    : @csum A -> option nat * nat * (T1 * T2) -> @csum A * A :=
    fun s a => let '(st, e, v) := a in
               let s1 := csum_pre s v in (resid_post zs s1 st, resid_emit k mp zs s1 st e).

  Definition ts_vregx_resid (k : rstat) (body : bool) (w : nat) (mp : option nat)
             (xs : list T1) (ys : list T2) : outcome A :=
    let zs := combine xs ys in
    if body then rolling2_apply_idx_to w (resid_cb k (mp_eff mp w 0) zs) csum0 xs ys
    else rolling2_apply_idx_default w (resid_cb k (mp_eff mp w 0) zs) csum0 xs ys.
End RegX.

(* ================= time-trend regressions (reg.rs:16-308) ================= *)
Section Trend.
  Context {A : Type} `{NA : Num A} {T : Type} {DT : IsNone T A}.
  Local Open Scope num_scope.

  Record tr_st := { t_n : nat; t_sum : A; t_xt : A; t_xx : A }.
  Definition tr0 : tr_st := {| t_n := 0; t_sum := nzero; t_xt := nzero; t_xx := nzero |}.
  (* n += 1; sum_xt += n.f64() * v; sum += v; (sum_xx += v * v) *)
  Definition tr_pre (s : tr_st) (v : T) : tr_st :=
    if not_none v then
      let x := unwrap v in let n' := S (t_n s) in
      {| t_n := n'; t_xt := t_xt s + nofnat n' * x; t_sum := t_sum s + x; t_xx := t_xx s + x * x |}
    else s.
  (* n -= 1; sum_xt -= sum; sum -= v_rm; (sum_xx -= v_rm * v_rm) *)
  Definition tr_post (s : tr_st) (rm : option T) : tr_st :=
    match rm with
    | Some v => if not_none v then
                  let x := unwrap v in
                  {| t_n := (t_n s - 1)%nat; t_xt := t_xt s - t_sum s; t_sum := t_sum s - x;
                     t_xx := t_xx s - x * x |}
                else s
    | None => s
    end.
  Definition tr_feat (emit : tr_st -> A) : feat T tr_st A :=
    {| f_init := tr0; f_pre := tr_pre; f_emit := emit; f_post := tr_post |}.

  (* usize arithmetic: nn_add_n = n*n+n; sum_t = (nn_add_n >> 1); n * nn_add_n * (n*2+1) *)
  Definition tr_nn (n : nat) : nat := (n * n + n)%nat.
  Definition tr_sum_t (n : nat) : A := nofnat (tr_nn n / 2)%nat.
  Definition tr_sum_tt (n : nat) : A := nofnat (n * tr_nn n * (n * 2 + 1))%nat / six.   (* = n * sum t^2 *)
  Definition tr_divisor (n : nat) : A := tr_sum_tt n - powi (tr_sum_t n) 2.
  Definition tr_slope (s : tr_st) : A :=
    (nofnat (t_n s) * t_xt s - tr_sum_t (t_n s) * t_sum s) / tr_divisor (t_n s).
  (* sum_t.mul_add(-slope, sum) / n_f64 *)
  Definition tr_intercept (s : tr_st) : A :=
    (tr_sum_t (t_n s) * nneg (tr_slope s) + t_sum s) / nofnat (t_n s).

  Definition emit_reg (mp : nat) (s : tr_st) : A :=          (* slope.mul_add(n_f64, intercept) *)
    if mp <=? t_n s then tr_slope s * nofnat (t_n s) + tr_intercept s else nnan.
  Definition emit_tsf (mp : nat) (s : tr_st) : A :=          (* slope.mul_add((n + 1).f64(), intercept) *)
    if mp <=? t_n s then tr_slope s * nofnat (t_n s + 1)%nat + tr_intercept s else nnan.
  Definition emit_slope (mp : nat) (s : tr_st) : A := if mp <=? t_n s then tr_slope s else nnan.
  Definition emit_intercept (mp : nat) (s : tr_st) : A := if mp <=? t_n s then tr_intercept s else nnan.
  (* after `fix: ts_vreg_resid_mean weights beta^2 by sum t^2`: the last term is beta*beta*sum_tt / n_f64 *)
  Definition emit_resid_mean (mp : nat) (s : tr_st) : A :=
    if mp <=? t_n s then
      let nf := nofnat (t_n s) in
      let sum_t := tr_sum_t (t_n s) in
      let sum_tt := tr_sum_tt (t_n s) in
      let beta := tr_slope s in
      let alpha := tr_intercept s in
      let resid_sum := t_xx s - ntwo * alpha * t_sum s - ntwo * beta * t_xt s
                       + alpha * alpha * nf
                       + ntwo * alpha * beta * sum_t
                       + beta * beta * sum_tt / nf in
      resid_sum / nf
    else nnan.

  Definition ts_vreg_f (w : nat) (mp : option nat) := tr_feat (emit_reg (mp_eff mp w 0)).
  Definition ts_vtsf_f (w : nat) (mp : option nat) := tr_feat (emit_tsf (mp_eff mp w 0)).
  Definition ts_vreg_slope_f (w : nat) (mp : option nat) := tr_feat (emit_slope (mp_eff mp w 0)).
  Definition ts_vreg_intercept_f (w : nat) (mp : option nat) := tr_feat (emit_intercept (mp_eff mp w 0)).
  Definition ts_vreg_resid_mean_f (w : nat) (mp : option nat) := tr_feat (emit_resid_mean (mp_eff mp w 0)).
End Trend.
