(* Model/Create.v — generators of tea-core/src/linspace.rs and tea-core/src/create.rs, as repaired
   (fix: range counts ceil of the exact quotient, clamped at 0).  Definitions only.

   One polymorphic model over a dictionary of the `Number` operations the code uses; it is
   instantiated at Z (signed / unsigned integer element types; proofs and runs), at Q (exact
   rationals: the "real-valued" reading of the float statement; proofs) and at PrimFloat (Run/ only). *)
From Tevec Require Import Base.Prelude Model.Driver.
Set Implicit Arguments.

(* the part of `T: Number` (+ `usize: Cast<T>`, `T: Cast<usize>`) that linspace.rs touches *)
Record num_ops (A : Type) := NumOps {
  n_zero : A;
  n_one : A;
  n_add : A -> A -> A;
  n_sub : A -> A -> res A;        (* unsigned types: `b - a` with b < a panics (debug build) *)
  n_mul : A -> A -> A;
  n_div : A -> A -> res A;        (* integer division by zero panics *)
  n_ceil : A -> A;                (* Number::ceil — the identity for integer types *)
  n_of_usize : nat -> A;          (* `i.cast()`  : usize as T *)
  n_to_usize : A -> res nat;      (* `steps.cast()` : T as usize; a wrapped negative integer is a
                                     capacity overflow as soon as the collector allocates *)
  n_ltb : A -> A -> bool;
  n_leb : A -> A -> bool;
  n_eqb : A -> A -> bool }.

Section Generators.
  Context {A : Type} (N : num_ops A).

  (* struct Linspace<T> { start, step, index, len }            linspace.rs:5-10 *)
  Record linspace := LS { ls_start : A; ls_step : A; ls_index : nat; ls_len : nat }.

  Definition gtb (x y : A) : bool := n_ltb N y x.
  Definition geb (x y : A) : bool := n_leb N y x.

  (* start + step * i.cast()                                    linspace.rs:27 / :50 *)
  Definition ls_elem (s : linspace) (i : nat) : A :=
    n_add N (ls_start s) (n_mul N (ls_step s) (n_of_usize N i)).

  (* Iterator::next                                             linspace.rs:20-29 *)
  Definition ls_next (s : linspace) : option A * linspace :=
    if ls_len s <=? ls_index s then (None, s)
    else (Some (ls_elem s (ls_index s)),
          LS (ls_start s) (ls_step s) (S (ls_index s)) (ls_len s)).

  (* DoubleEndedIterator::next_back                             linspace.rs:43-53 *)
  Definition ls_next_back (s : linspace) : option A * linspace :=
    if ls_len s <=? ls_index s then (None, s)
    else (Some (ls_elem s (ls_len s - 1)),
          LS (ls_start s) (ls_step s) (ls_index s) (ls_len s - 1)).

  (* size_hint: `self.len - self.index` on usize                linspace.rs:32-35 *)
  Definition ls_size_hint (s : linspace) : res nat := usub (ls_len s) (ls_index s).

  (* `for v in iter`: call next until None; fuel = an upper bound on the number of calls *)
  Fixpoint ls_drain (fuel : nat) (s : linspace) : list A * linspace :=
    match fuel with
    | 0 => ([], s)
    | S f => match ls_next s with
             | (None, s') => ([], s')
             | (Some v, s') => let '(l, s'') := ls_drain f s' in (v :: l, s'')
             end
    end.

  (* a consumption script: true = next, false = next_back; each step also reports size_hint *)
  Fixpoint ls_script (sc : list bool) (s : linspace) : list (option A * res nat) :=
    match sc with
    | [] => []
    | d :: r => let '(o, s') := if d then ls_next s else ls_next_back s in
                (o, ls_size_hint s') :: ls_script r s'
    end.

  (* pub fn linspace(a, b, n)                                   linspace.rs:66-84 *)
  Definition linspace_new (a b : A) (n : nat) : res linspace :=
    do step <- (if 1 <? n
                then do d <- n_sub N b a; n_div N d (n_of_usize N (n - 1))
                else Ok (n_zero N));
    Ok (LS a step 0 n).

  (* pub fn range(a, b, step)  — REPAIRED                       linspace.rs:93-123 *)
  Definition range_new (a b step : A) : res linspace :=
    let zero := n_zero N in
    let empty := if gtb step zero then n_leb N b a else geb b a in
    if empty then Ok (LS a step 0 0)
    else
      do span <- n_sub N b a;
      do q <- n_div N span step;
      let steps := n_ceil N q in
      do rest <- n_sub N span (n_mul N steps step);
      let steps := if andb (negb (n_eqb N rest zero)) (Bool.eqb (gtb rest zero) (gtb step zero))
                   then n_add N steps (n_one N) else steps in
      do len <- n_to_usize N steps;
      Ok (LS a step 0 len).

  (* the code before the repair (kept for the refutation remark in notes/C19.md; not used by Run/) *)
  Definition range_old (a b step : A) : res linspace :=
    do len <- n_sub N b a;
    do q <- n_div N len step;
    do n <- n_to_usize N (n_ceil N q);
    Ok (LS a step 0 n).
End Generators.

Arguments linspace : clear implicits.
Arguments LS {A} _ _ _ _.

(* ---- trusted collection (trusted.rs:262-284): allocate `hint` slots, write the items one after
        the other through a raw pointer, set_len(hint) ------------------------------------------ *)
Fixpoint fill_from {A} (k : nat) (items : list A) (buf : list (option A)) : list (option A) :=
  match items with
  | [] => buf
  | x :: r => fill_from (S k) r (set_nth k x buf)
  end.

Definition collect_trusted {A} (hint : nat) (items : list A) : outcome A :=
  if hint <? length items
  then Panicked OtherPanic           (* write past the allocation: undefined behaviour (never executed by the harness) *)
  else finish (fill_from 0 items (repeat None hint)).

(* `Iterator::collect` / `Array1::from_iter` (std / ndarray: trusted): the items, in order *)
Definition collect_plain {A} (items : list A) : outcome A := Done items.

Section Create.
  Context {A : Type} (N : num_ops A).

  (* how a backend implements Vec1::collect_from_trusted:
     true  = Vec / VecDeque / Array1 (collect_trusted_to_vec: vec.rs:275, vecdeque.rs:93, ndarray.rs:239)
     false = the trait default (own.rs:27: collect_from_iter)                                        *)
  Definition collect_ls (trusted : bool) (s : linspace A) : outcome A :=
    match ls_size_hint s with
    | Panic k => Panicked k
    | Ok hint =>
      let items := fst (ls_drain N (ls_len s) s) in
      if trusted then collect_trusted hint items else collect_plain items
    end.

  (* Vec1Create::range(start, end, step)                         create.rs:16-25 *)
  Definition create_range (trusted : bool) (start : option A) (e : A) (step : option A) : outcome A :=
    let a := match start with Some v => v | None => n_zero N end in
    let st := match step with Some v => v | None => n_one N end in
    match range_new N a e st with
    | Panic k => Panicked k
    | Ok s => collect_ls trusted s
    end.

  (* Vec1Create::linspace(start, end, num)                       create.rs:38-46 *)
  Definition create_linspace (trusted : bool) (start : option A) (e : A) (n : nat) : outcome A :=
    let a := match start with Some v => v | None => n_zero N end in
    match linspace_new N a e n with
    | Panic k => Panicked k
    | Ok s => collect_ls trusted s
    end.

  Definition create_range_old (start : option A) (e : A) (step : option A) : outcome A :=
    let a := match start with Some v => v | None => n_zero N end in
    let st := match step with Some v => v | None => n_one N end in
    match range_old N a e st with
    | Panic k => Panicked k
    | Ok s => collect_ls true s
    end.
End Create.

(* ---- the integer instances ------------------------------------------------------------------ *)
(* signed = i32 / i64, unsigned = u64 / usize; magnitudes are unbounded (DESIGN 5.2) *)
Definition z_ops (signed : bool) : num_ops Z :=
  {| n_zero := 0%Z; n_one := 1%Z;
     n_add := Z.add;
     n_sub := fun x y => if signed then Ok (x - y)%Z
                         else if (x <? y)%Z then Panic Underflow else Ok (x - y)%Z;
     n_mul := Z.mul;
     n_div := fun x y => if (y =? 0)%Z then Panic OtherPanic else Ok (Z.quot x y);
     n_ceil := fun x => x;
     n_of_usize := Z.of_nat;
     n_to_usize := fun z => if (z <? 0)%Z then Panic Overflow else Ok (Z.to_nat z);
     n_ltb := Z.ltb; n_leb := Z.leb; n_eqb := Z.eqb |}.
