(* Model/AggNumber.v — the parts of the C11 anchor files that Model/Agg.v does not contain (audit of C11):
     tea-dtype/src/number.rs   kh_sum (l.11-19, Number::kh_sum l.164), Number::n_add (l.173), n_prod (l.189),
                               floor / ceil (l.77-88 default = identity; l.221-229 floats), fromas (l.141), to (l.151),
                               min_ / max_ (l.205-213), abs (l.231-254)
     tea-core/src/vec_core/iter_traits.rs   vfold2 (l.41), vapply (l.88)
   (min_with / max_with, vfold, vfold_n, vapply_n are in Model/Agg.v.)  Same conventions as Model/Agg.v: one
   polymorphic definition over the numeric carrier `A`; a `Number` type is its own inner type, so its null
   dictionary is `IsNone A A` (floats: NaN is the null — IsNone_float; integers: never null — IsNone_plain).
   Definitions only.                                                                                      *)
From Coq Require Import ZArith List.
From Tevec Require Import Base.Prelude Base.Num Model.Agg.
Import ListNotations.
Set Implicit Arguments.

(* floor / ceil are not operations of `Num`: a separate dictionary (integers: the trait's default bodies, `self`) *)
Class NumRound (A : Type) := { nfloor : A -> A; nceil : A -> A }.
Definition NumRoundZ : NumRound Z := {| nfloor := fun z => z; nceil := fun z => z |}.

Section NumberFns.
  Context {A : Type} {NA : Num A} {DN : IsNone A A}.
  Local Open Scope num_scope.

  (* number.rs:11  fn kh_sum(sum, v, c: &mut T) -> T  { y = v - *c; t = sum + y; *c = (t - sum) - y; t }
     returned: (t, the new *c).  No null test anywhere. *)
  Definition kh_sum (sum v c : A) : A * A :=
    let y := v - c in
    let t := sum + y in
    (t, (t - sum) - y).
  (* the intended use: a running (sum, compensation) pair over a series, both starting at zero *)
  Definition kh_fold (xs : list A) : A * A :=
    fold_left (fun sc v => kh_sum (fst sc) v (snd sc)) xs (nzero, nzero).

  (* number.rs:173  n_add(self, other, n: &mut usize): only `other` is tested ("assume that self is not NaN") *)
  Definition n_add (self other : A) (n : nat) : A * nat :=
    if not_none other then (self + other, S n) else (self, n).
  (* number.rs:189  n_prod *)
  Definition n_prod (self other : A) (n : nat) : A * nat :=
    if not_none other then (self * other, S n) else (self, n).
  (* a running (accumulator, count) pair over a series *)
  Definition n_add_fold (init : A) (xs : list A) : A * nat :=
    fold_left (fun sn v => n_add (fst sn) v (snd sn)) xs (init, 0%nat).
  Definition n_prod_fold (init : A) (xs : list A) : A * nat :=
    fold_left (fun sn v => n_prod (fst sn) v (snd sn)) xs (init, 0%nat).

  (* number.rs:77 / 85 (defaults: self) and 221 / 226 (f32, f64: self.ceil() / self.floor()) *)
  Context {NR : NumRound A}.
  Definition number_floor (x : A) : A := nfloor x.
  Definition number_ceil (x : A) : A := nceil x.

  (* number.rs:71 / 231-254  abs: |x| (floats, signed); self (unsigned).  iN::MIN.abs() overflows in a debug build:
     that case is C15's `n_abs` (Model/Cast.v); here the idealised carrier (DESIGN 5.2) *)
  Definition number_abs (x : A) : A := nabs x.
End NumberFns.

(* number.rs:151  to::<T>(self) = Cast::<T>::cast(self);  number.rs:141  Self::fromas(v) = v.to::<Self>().
   The cast itself is a parameter here (Model/Agg.v calls the f64 one `tof`); C15 models every `impl Cast`
   (Model/Cast.v: `number_to s u = as_nn s u`), and Run/RunC11.v instantiates `cast` with exactly that. *)
Definition number_to {S U : Type} (cast : S -> U) (v : S) : U := cast v.
Definition number_fromas {S U : Type} (cast : U -> S) (v : U) : S := number_to cast v.

(* ---- iter_traits.rs: the two folds Model/Agg.v lacks ------------------------------------------------- *)
Section Folds2.
  Context {A A2 T T2 : Type} {DT : IsNone T A} {DT2 : IsNone T2 A2}.

  (* iter_traits.rs:41 vfold2: zip(other).fold(init, |acc, (va, vb)| if va.not_none() && vb.not_none() { f(acc, va, vb) } else { acc })
     (the callback receives the ELEMENTS, not the unwrapped values) *)
  Definition vfold2 {U} (f : U -> T -> T2 -> U) (init : U) (xs : list T) (ys : list T2) : U :=
    fold_left (fun acc p => if not_none (fst p) && not_none (snd p) then f acc (fst p) (snd p) else acc)
              (combine xs ys) init.

  (* iter_traits.rs:88 vapply: FnMut(Inner) mutating captured state = the state threaded through the fold;
     no count (vapply_n of Model/Agg.v returns it as well) *)
  Definition vapply {U} (f : U -> A -> U) (init : U) (xs : list T) : U :=
    fold_left (fun acc v => if not_none v then f acc (unwrap v) else acc) xs init.
End Folds2.
