(* Model/Driver.v — the eight rolling drivers of tea-core/src/vec_core/cores/view.rs, both bodies.
   Definitions only (always runnable).  A driver is modelled as
     (1) the list of callback invocations it performs, in order, each with the output slot it is stored in;
     (2) `exec`, which threads an arbitrary callback state through those invocations and fills an
         output buffer of `option` cells (None = never written = uninitialised memory).            *)
From Tevec Require Import Base.Prelude.
Set Implicit Arguments.

(* ---- output buffer ------------------------------------------------ *)
Fixpoint set_nth {O} (i : nat) (v : O) (buf : list (option O)) : list (option O) :=
  match buf, i with
  | [], _ => []                                   (* out of bounds write: dropped (flagged by traces in C10) *)
  | _ :: r, 0 => Some v :: r
  | c :: r, S i => c :: set_nth i v r
  end.

Section Exec.
  Context {S X O : Type}.
  Variable g : S -> X -> S * O.
  (* run the calls in order; call k is stored at its slot *)
  Fixpoint exec (s : S) (calls : list (nat * X)) (buf : list (option O)) : list (option O) :=
    match calls with
    | [] => buf
    | (slot, a) :: rest => let '(s', o) := g s a in exec s' rest (set_nth slot o buf)
    end.
End Exec.

(* assume_init: every cell must have been written *)
Fixpoint assume_init {O} (buf : list (option O)) : option (list O) :=
  match buf with
  | [] => Some []
  | None :: _ => None
  | Some v :: r => match assume_init r with Some l => Some (v :: l) | None => None end
  end.

(* outcome of a driver run *)
Inductive outcome (O : Type) :=
| Done (out : list O)           (* a fully initialised output *)
| Uninit (buf : list (option O))(* exposed although some slot was never written *)
| Panicked (k : panic_kind).
Arguments Done {O} out.
Arguments Uninit {O} buf.
Arguments Panicked {O} k.

Definition finish {O} (buf : list (option O)) : outcome O :=
  match assume_init buf with Some l => Done l | None => Uninit buf end.

(* ---- remove/add form: rolling_apply ------------------------------- *)
Section RemoveAdd.
  Context {T : Type}.

  (* iterator body: repeat_n(None, w-1).chain(titer.map(Some)).zip(titer) *)
  Definition args_iter (w : nat) (xs : list T) : list (option T * T) :=
    combine (repeat None (w - 1) ++ map Some xs) xs.

  (* two-phase index body (rolling_apply_to): (slot, (removed, new)) *)
  Definition calls_to (w : nat) (xs : list T) : list (nat * (option T * T)) :=
    let len := length xs in
    let w' := Nat.min w len in
    if w' =? 0 then [] else
    flat_map (fun i => match nth_error xs i with
                       | Some v => [(i, (None, v))] | None => [] end) (seq 0 (w' - 1))
    ++
    flat_map (fun start => let e := start + (w' - 1) in
                       match nth_error xs start, nth_error xs e with
                       | Some vr, Some v => [(e, (Some vr, v))] | _, _ => [] end)
             (seq 0 (len - (w' - 1))).
End RemoveAdd.

(* ---- window-index form: rolling_apply_idx ------------------------- *)
Section Idx.
  Context {T : Type}.
  (* titer.zip(repeat_n(None,w-1).chain((0..len).map(Some))).enumerate() -> f(start, end, v) *)
  Definition args_iter_idx (w : nat) (xs : list T) : list (option nat * nat * T) :=
    map (fun '(e, (v, st)) => (st, e, v))
        (combine (seq 0 (length xs))
                 (combine xs (repeat None (w - 1) ++ map Some (seq 0 (length xs))))).

  Definition calls_to_idx (w : nat) (xs : list T) : list (nat * (option nat * nat * T)) :=
    let len := length xs in
    let w' := Nat.min w len in
    if w' =? 0 then [] else
    flat_map (fun i => match nth_error xs i with
                       | Some v => [(i, (None, i, v))] | None => [] end) (seq 0 (w' - 1))
    ++
    flat_map (fun start => let e := start + (w' - 1) in
                       match nth_error xs e with
                       | Some v => [(e, (Some start, e, v))] | None => [] end)
             (seq 0 (len - (w' - 1))).
End Idx.

(* ---- window-slice form: rolling_custom[_iter|_to], rolling2_custom - *)
(* (start, end) pairs, end exclusive *)
Definition slices_iter (w len : nat) : list (nat * nat) :=
  map (fun '(e, st) => (st, e)) (combine (seq 1 len) (repeat 0 (w - 1) ++ seq 0 len)).

Definition slices_to (w len : nat) : list (nat * (nat * nat)) :=
  let w' := Nat.min w len in
  if w' =? 0 then [] else
  map (fun i => (i, (0, i + 1))) (seq 0 (w' - 1))
  ++ map (fun start => let e := start + (w' - 1) in (e, (start, e + 1))) (seq 0 (len - (w' - 1))).

(* ---- the public entry points -------------------------------------- *)
(* assert!(window > 0 || len == 0): window 0 is rejected unless the series is empty (in which case
   nothing is evaluated).  Before the repair (KNOWN_FINDINGS, C10) the two-phase bodies returned
   without writing and the Vec/ndarray fast paths exposed the untouched buffer.                   *)
Definition bad_window {T} (w : nat) (xs : list T) : bool := (w =? 0) && negb (length xs =? 0).

Section Entry.
  Context {T S O : Type}.

  (* default trait method, `out = None`: assert!(window > 0), iterator body, collected in order *)
  Definition rolling_apply_default (w : nat) (f : S -> option T * T -> S * O) (s0 : S) (xs : list T)
    : outcome O :=
    if bad_window w xs then Panicked AssertFail else Done (run f s0 (args_iter w xs)).

  (* `out = Some(buf)` and the Vec / ndarray fast path (fresh buffer of length len) *)
  Definition rolling_apply_to (w : nat) (f : S -> option T * T -> S * O) (s0 : S) (xs : list T)
    : outcome O :=
    if bad_window w xs then Panicked AssertFail
    else finish (exec f s0 (calls_to w xs) (repeat None (length xs))).

  Definition rolling_apply_idx_default (w : nat) (f : S -> option nat * nat * T -> S * O) (s0 : S)
             (xs : list T) : outcome O :=
    if bad_window w xs then Panicked AssertFail else Done (run f s0 (args_iter_idx w xs)).

  Definition rolling_apply_idx_to (w : nat) (f : S -> option nat * nat * T -> S * O) (s0 : S)
             (xs : list T) : outcome O :=
    if bad_window w xs then Panicked AssertFail
    else finish (exec f s0 (calls_to_idx w xs) (repeat None (length xs))).

  (* slice forms: the callback receives the sub-sequence itself *)
  Definition rolling_custom_default (w : nat) (f : S -> list T -> S * O) (s0 : S) (xs : list T)
    : outcome O :=
    if w =? 0 then Panicked Underflow   (* `window - 1` on usize *)
    else Done (run f s0 (map (fun '(st, e) => seg st e xs) (slices_iter w (length xs)))).

  Definition rolling_custom_to (w : nat) (f : S -> list T -> S * O) (s0 : S) (xs : list T)
    : outcome O :=
    if bad_window w xs then Panicked AssertFail
    else finish (exec f s0 (map (fun '(slot, (st, e)) => (slot, seg st e xs)) (slices_to w (length xs)))
                      (repeat None (length xs))).
End Entry.

(* ---- two-series forms ------------------------------------------------------------------------
   The index bodies read `self.uget(i)` and `other.uget(i)` for every i < len xs, so they assert
   length xs <= length ys FIRST (repaired, see KNOWN_FINDINGS C10) and only then the window; past both
   checks they are the one-series index bodies over the zipped series (`combine xs ys`, of length
   len xs).  The iterator bodies (default trait methods, `out = None`) assert the window on SELF ONLY
   (`assert!(window > 0 || self.is_empty())`: the second series is not looked at), then zip and
   silently stop at the shorter series.  So window 0 with a non-empty first series panics whatever the
   second series is - also when it is empty and the zipped series would be empty.  rolling2_custom
   asserts the lengths, then computes `window - 1` (underflow for window 0, also on empty series).

   `guard`: which check stops an entry point before any callback runs; `check2_*` give the FIRST
   failing check in the order of the code (Proofs/Driver.v: every entry point panics exactly when its
   check2 function says so, with that kind; the harness compares the identity of the check too).   *)
Inductive guard := GWindow | GShorter | GUnderflow.
Definition guard_kind (g : guard) : panic_kind :=
  match g with GWindow | GShorter => AssertFail | GUnderflow => Underflow end.
Definition guard_id (g : option guard) : nat :=
  match g with None => 0 | Some GWindow => 1 | Some GShorter => 2 | Some GUnderflow => 3 end.

Section Two.
  Context {T1 T2 S O : Type}.

  (* assert!(window > 0 || self.is_empty()) *)
  Definition check2_default (w : nat) (xs : list T1) (ys : list T2) : option guard :=
    if bad_window w xs then Some GWindow else None.
  (* assert!(other.len() >= len); assert!(window > 0 || len == 0) *)
  Definition check2_to (w : nat) (xs : list T1) (ys : list T2) : option guard :=
    if length ys <? length xs then Some GShorter
    else if bad_window w xs then Some GWindow else None.
  (* assert!(other.len() >= self.len()); repeat_n(0, window - 1) *)
  Definition check2_custom (w : nat) (xs : list T1) (ys : list T2) : option guard :=
    if length ys <? length xs then Some GShorter
    else if w =? 0 then Some GUnderflow else None.

  (* self.titer().zip(other.titer()).zip(repeat_n(None, w-1).chain((0..self.len()).map(Some))).enumerate():
     the start iterator counts up to len SELF, the zip stops at the shorter series *)
  Definition args_iter_idx2 (w : nat) (xs : list T1) (ys : list T2) : list (option nat * nat * (T1 * T2)) :=
    map (fun '(e, (v, st)) => (st, e, v))
        (combine (seq 0 (length (combine xs ys)))
                 (combine (combine xs ys) (repeat None (w - 1) ++ map Some (seq 0 (length xs))))).

  Definition rolling2_apply_default (w : nat) (f : S -> option (T1 * T2) * (T1 * T2) -> S * O) s0
             (xs : list T1) (ys : list T2) : outcome O :=
    if bad_window w xs then Panicked AssertFail
    else Done (run f s0 (args_iter w (combine xs ys))).
  Definition rolling2_apply_to (w : nat) (f : S -> option (T1 * T2) * (T1 * T2) -> S * O) s0
             (xs : list T1) (ys : list T2) : outcome O :=
    if length ys <? length xs then Panicked AssertFail   (* assert!(other.len() >= len) *)
    else rolling_apply_to w f s0 (combine xs ys).
  Definition rolling2_apply_idx_default (w : nat) (f : S -> option nat * nat * (T1 * T2) -> S * O) s0
             (xs : list T1) (ys : list T2) : outcome O :=
    if bad_window w xs then Panicked AssertFail
    else Done (run f s0 (args_iter_idx2 w xs ys)).
  Definition rolling2_apply_idx_to (w : nat) (f : S -> option nat * nat * (T1 * T2) -> S * O) s0
             (xs : list T1) (ys : list T2) : outcome O :=
    if length ys <? length xs then Panicked AssertFail
    else rolling_apply_idx_to w f s0 (combine xs ys).
  Definition rolling2_custom_default (w : nat) (f : S -> list T1 * list T2 -> S * O) s0
             (xs : list T1) (ys : list T2) : outcome O :=
    if length ys <? length xs then Panicked AssertFail
    else if w =? 0 then Panicked Underflow
    else Done (run f s0 (map (fun '(st, e) => (seg st e xs, seg st e ys))
                             (slices_iter w (length xs)))).
End Two.
