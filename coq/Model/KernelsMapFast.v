(* Model/KernelsMapFast.v — C10: `vrank_tr` (Model/KernelsMap.v) once more, with a bind that evaluates its
   continuation ONCE.  `tbind m f` of Model/Kernels.v mentions `f x` twice (`fst (f x)`, `snd (f x)`); under
   vm_compute, which shares nothing, a loop of n nested binds costs 2^n.  `tbind1` is the same function
   written with `let r := f x` — convertible to `tbind` (zeta) — and the text below is the text of
   Model/KernelsMap.v with `dot` replaced by `dot1`.  Proofs/KernelsMapFast.v proves
   vrank_tr_fast = vrank_tr, so Run/RunC10.v may run the fast text.  Definitions only.                 *)
From Coq Require Import ZArith.
From Tevec Require Import Base.Prelude Base.Num Model.Driver Model.Cmp Model.Kernels Model.SortCmp Model.Rank
     Model.KernelsMap Model.KernelSteps.
Set Implicit Arguments.

Definition tbind1 {X Y} (m : tr X) (f : X -> tr Y) : tr Y :=
  match snd m with
  | Ok x => let r := f x in (fst m ++ fst r, snd r)
  | Panic k => (fst m, Panic k)
  end.
Notation "'dot1' x <- r ; k" := (tbind1 r (fun x => k)) (at level 200, x name, r at level 100, k at level 200).

Section RankFast.
  Context {A : Type} `{NA : Num A} {T : Type} `{DT : IsNone T A} `{DX : IsNoneX T A}.

  Section Loop.
    Variables (pct : bool) (nn : nat) (xs : list T) (idx_sorted : list nat).

    Fixpoint write_run_fast (i : nat) (v : A) (js : list nat) (out : list (option A)) : tr (list (option A)) :=
      match js with
      | [] => tret out
      | j :: r => dot1 d <- tpure (usub i j);
                  dot1 slot <- tget 2 idx_sorted d;
                  dot1 o' <- tset slot v out;
                  write_run_fast i v r o'
      end.

    Fixpoint fill_fast (v : A) (is : list nat) (out : list (option A)) : tr (list (option A)) :=
      match is with
      | [] => tret out
      | i :: r => dot1 slot <- tget 2 idx_sorted i; dot1 o' <- tset slot v out; fill_fast v r o'
      end.

    Fixpoint rank_loop_fast (is : list nat) (st : @rstate A) : tr (@rstate A * option nat) :=
      match is with
      | [] => tret (st, None)
      | i :: rest =>
          dot1 idx <- tget 2 idx_sorted i;
          dot1 idx1 <- tget 2 idx_sorted (S i);
          dot1 v <- tget 0 xs idx;
          dot1 v1 <- tget 0 xs idx1;
          if is_none v1 then
            let sum := (r_sum st + r_cur st)%nat in
            dot1 o <- write_run_fast i (rk_avg pct nn sum (r_rep st)) (seq 0 (r_rep st)) (r_out st);
            tret ({| r_rep := r_rep st; r_cur := S (r_cur st); r_sum := sum; r_out := o |}, Some (S i))
          else if teqb v v1 then
            rank_loop_fast rest {| r_rep := S (r_rep st); r_cur := S (r_cur st);
                                   r_sum := (r_sum st + r_cur st)%nat; r_out := r_out st |}
          else if (r_rep st =? 1)%nat then
            dot1 o <- tset idx (rk_one pct nn (r_cur st)) (r_out st);
            rank_loop_fast rest {| r_rep := r_rep st; r_cur := S (r_cur st); r_sum := r_sum st; r_out := o |}
          else
            let sum := (r_sum st + r_cur st)%nat in
            dot1 o <- write_run_fast i (rk_avg pct nn sum (r_rep st)) (seq 0 (r_rep st)) (r_out st);
            rank_loop_fast rest {| r_rep := 1; r_cur := S (r_cur st); r_sum := 0; r_out := o |}
      end.

    Definition rank_finish_fast (len : nat) (r : @rstate A * option nat) : tr (list (option A)) :=
      let '(st, brk) := r in
      match brk with
      | Some idx => fill_fast nnan (seq idx (len - idx)) (r_out st)
      | None =>
          let sum := (r_sum st + r_cur st)%nat in
          dot1 a <- tpure (usub len (r_rep st));
          fill_fast (rk_avg pct nn sum (r_rep st)) (seq a (r_rep st)) (r_out st)
      end.
  End Loop.

  Definition vrank_tr_fast (pct rev : bool) (xs : list T) : tr (list (option A)) :=
    let len := length xs in
    if (len =? 0)%nat then tret [] else
    if (len =? 1)%nat then dot1 v <- tget 0 xs 0; tret [Some (if is_none v then nnan else none)] else
    let idx_sorted := isort (cmp_idx (cmp_dir rev) xs) (seq 0 len) in
    dot1 i0 <- tget 2 idx_sorted 0;
    dot1 v0 <- tget 0 xs i0;
    if is_none v0 then tret (repeat (Some nnan) len) else
    let nn := count_valid xs in
    dot1 r <- rank_loop_fast pct nn xs idx_sorted (seq 0 (len - 1))
                             {| r_rep := 1; r_cur := 1; r_sum := 0; r_out := repeat None len |};
    rank_finish_fast pct nn idx_sorted len r.

  Definition vrank_segs_fast (pct rev : bool) (xs : list T) : list wseg :=
    segs_of (filter observable (fst (vrank_tr_fast pct rev xs))) [].
End RankFast.
