(* Model/Collect.v — the collectors of tea-core/src/vec_core/cores/own.rs (+ the backend overrides in
   backends_impl/{vec,vecdeque,ndarray}.rs), the raw collectors of vec_core/trusted.rs and
   UninitRefMut::write_trust_iter of vec_core/uninit.rs.  Definitions only.

   An iterator is seen by a collector as (hint, items): the upper bound of `size_hint()` read before
   the first `next()`, and the items it then yields.  For every `TrustedLen` iterator the library
   builds, hint = length items (that is property C09); the model keeps the two apart, because the raw
   collectors *trust* the hint: the theorems say what happens when it is right, the model also says
   what happens when it is wrong (`TrustIter::new(iter, len)` / `collect_with_len` are safe functions). *)
From Tevec Require Import Base.Prelude Model.Driver Model.Create.
Set Implicit Arguments.

Record titer (A : Type) := TI { ti_hint : nat; ti_items : list A }.

(* ToTrustIter::to_trust(len) / TrustIter::new — repaired size_hint = (len, Some(len))  trusted.rs:151-216 *)
Definition to_trust {A} (items : list A) (len : nat) : titer A := TI len items.
(* a std TrustedLen iterator (vec::IntoIter, slice::Iter.cloned(), Range, RepeatN, Once, Empty, Map) *)
Definition exact_iter {A} (items : list A) : titer A := TI (length items) items.

(* which body a backend runs for the `*_from_trusted` entry points:
   BRaw     = Vec / VecDeque / Array1: the raw-pointer collectors of trusted.rs
   BDefault = a backend that keeps the trait defaults of own.rs (they forward to the plain collectors) *)
Inductive backend := BRaw | BDefault.

Section Collectors.
  Context {A : Type}.

  (* Vec1::collect_from_iter — std `collect` / Array1::from_iter                       own.rs:15 *)
  Definition collect_from_iter (it : titer A) : outcome A := collect_plain (ti_items it).

  (* Vec1::collect_from_trusted                                                        own.rs:27 *)
  Definition collect_from_trusted (b : backend) (it : titer A) : outcome A :=
    match b with
    | BRaw => collect_trusted (ti_hint it) (ti_items it)
    | BDefault => collect_from_iter it
    end.

  (* Vec1::collect_with_len(iter, len) = collect_from_trusted(iter.to_trust(len))      own.rs:40 *)
  Definition collect_with_len (b : backend) (items : list A) (len : nat) : outcome A :=
    collect_from_trusted b (to_trust items len).

  (* Vec1::collect_from_opt_iter: None ↦ T::none()                                     own.rs:45 *)
  Definition collect_from_opt_iter (none : A) (items : list (option A)) : outcome A :=
    collect_plain (map (fun o => match o with Some v => v | None => none end) items).

  (* Vec1::empty / Vec1::full                                                          own.rs:54-66 *)
  Definition empty : outcome A := collect_plain [].
  Definition full (b : backend) (len : nat) (v : A) : outcome A :=
    collect_from_trusted b (exact_iter (repeat v len)).
End Collectors.

(* ---- fallible collection ------------------------------------------------------------------ *)
Section Try.
  Context {A E : Type}.

  (* the Ok items in front of the first Err, and that Err *)
  Fixpoint ok_prefix (items : list (A + E)) : list A :=
    match items with
    | inl a :: r => a :: ok_prefix r
    | _ => []
    end.
  Fixpoint first_err (items : list (A + E)) : option E :=
    match items with
    | [] => None
    | inr e :: _ => Some e
    | inl _ :: r => first_err r
    end.
  (* how many items were pulled from the source iterator: everything up to and including the first Err *)
  Fixpoint pulled (items : list (A + E)) : nat :=
    match items with
    | [] => 0
    | inr _ :: _ => 1
    | inl _ :: r => S (pulled r)
    end.

  (* result of a try-collector: TResult<container>, the container being an `outcome` *)
  Inductive tres := TOk (o : outcome A) | TErr (e : E).

  (* Vec1::try_collect_from_iter: `iter.collect::<TResult<_>>()` (vec.rs:256, vecdeque.rs:77,
     ndarray.rs:223) and — REPAIRED — the trait default of own.rs:22 *)
  Definition try_collect_from_iter (it : titer (A + E)) : tres :=
    match first_err (ti_items it) with
    | Some e => TErr e
    | None => TOk (collect_plain (ok_prefix (ti_items it)))
    end.

  (* the trait default before the repair: `iter.map(|v| v.unwrap())` — panics instead of returning Err *)
  Definition try_collect_from_iter_old_default (it : titer (A + E)) : res tres :=
    match first_err (ti_items it) with
    | Some _ => Panic UnwrapNone
    | None => Ok (TOk (collect_plain (ok_prefix (ti_items it))))
    end.

  (* CollectTrusted::try_collect_from_trusted for Vec: allocate hint, `let v = v?` per item,
     set_len(hint) at the end                                                   trusted.rs:286-309 *)
  Definition try_collect_from_trusted (b : backend) (it : titer (A + E)) : tres :=
    match b with
    | BDefault => try_collect_from_iter it
    | BRaw =>
      if ti_hint it <? length (ok_prefix (ti_items it))
      then TOk (Panicked OtherPanic)          (* write past the allocation (undefined behaviour) *)
      else match first_err (ti_items it) with
           | Some e => TErr e
           | None => TOk (finish (fill_from 0 (ok_prefix (ti_items it)) (repeat None (ti_hint it))))
           end
    end.
End Try.
Arguments tres : clear implicits.

(* ---- UninitRefMut::write_trust_iter                                          uninit.rs:58-80 -- *)
Inductive wstatus := WOk | WErr | WPanic (k : panic_kind).

(* (i .. i+n).for_each(|i| uset(i, iter.next().unwrap())) — the list of uset calls, in order *)
Fixpoint write_each {A} (i n : nat) (items : list A) : wstatus * list (nat * A) :=
  match n with
  | 0 => (WOk, [])
  | S n' => match items with
            | [] => (WPanic UnwrapNone, [])
            | x :: r => let '(st, ws) := write_each (S i) n' r in (st, (i, x) :: ws)
            end
  end.

(* len = self.len(), hint = iter.len() (= size_hint().1.unwrap()) *)
Definition write_trust_iter {A} (len : nat) (it : titer A) : wstatus * list (nat * A) :=
  if len =? 0 then (WOk, [])
  else if len =? ti_hint it then write_each 0 len (ti_items it)
  else if ti_hint it =? 1 then
         match ti_items it with
         | [] => (WPanic UnwrapNone, [])
         | v :: _ => (WOk, map (fun i => (i, v)) (seq 0 len))
         end
  else (WErr, []).

(* the buffer after a sequence of uset calls *)
Definition apply_writes {A} (ws : list (nat * A)) (buf : list (option A)) : list (option A) :=
  fold_left (fun b w => set_nth (fst w) (snd w) b) ws buf.

(* ---- UninitVec::set — the CHECKED single-slot write                              uninit.rs:32-40 --
   `if idx < self.len() { unsafe { self.uset(idx, v) }; Ok(()) } else { tbail!(oob(idx, len)) }`.
   Like write_trust_iter: the status and the list of uset calls made (none on the Err branch). *)
Definition uninit_set {A} (len idx : nat) (v : A) : wstatus * list (nat * A) :=
  if idx <? len then (WOk, [(idx, v)]) else (WErr, []).

(* the same on a buffer (slot = None: never written): status and the buffer afterwards *)
Definition uninit_set_buf {A} (buf : list (option A)) (idx : nat) (v : A) : wstatus * list (option A) :=
  let r := uninit_set (length buf) idx v in (fst r, apply_writes (snd r) buf).

(* successive `set` calls on one buffer, every TResult kept (the caller may `?` or ignore it):
   the statuses in call order and the buffer afterwards *)
Fixpoint uninit_set_seq {A} (buf : list (option A)) (calls : list (nat * A)) : list wstatus * list (option A) :=
  match calls with
  | [] => ([], buf)
  | c :: r => let sb := uninit_set_buf buf (fst c) (snd c) in
              let rest := uninit_set_seq (snd sb) r in
              (fst sb :: fst rest, snd rest)
  end.

(* ---- Vec1Mut (view_mut.rs) and Vec1::sort_unstable_by (own.rs:68-88) ------------------------- *)
(* get_mut: bounds-checked access                                              view_mut.rs:29-36 *)
Definition get_mut {T} (xs : list T) (i : nat) : option T :=
  if i <? length xs then nth_error xs i else None.

(* apply_mut_with: tensure!(len equal) then f(&mut self[i], other[i]) for i in 0..len, in order.
   Returns (ok?, self afterwards, the calls made)                              view_mut.rs:73-90 *)
Definition apply_mut_with {T OT} (f : T -> OT -> T) (xs : list T) (ys : list OT)
  : bool * list T * list (T * OT) :=
  if length xs =? length ys
  then (true, map (fun p => f (fst p) (snd p)) (combine xs ys), combine xs ys)
  else (false, xs, []).

(* sort_unstable_by(compare): slice::sort_unstable_by when the data is contiguous, else copy out
   (collect_trusted_vec1), sort the copy, write it back with apply_mut_with.  Both paths leave the
   sorted sequence; for a total order on distinct-or-equal keys the result is unique, so an
   insertion sort stands for std's pattern-defeating quicksort. *)
Section Sort.
  Context {T : Type} (leb : T -> T -> bool).
  Fixpoint insert_sorted (x : T) (l : list T) : list T :=
    match l with
    | [] => [x]
    | y :: r => if leb x y then x :: l else y :: insert_sorted x r
    end.
  Fixpoint isort (l : list T) : list T :=
    match l with
    | [] => []
    | x :: r => insert_sorted x (isort r)
    end.
  Definition sort_unstable_by (xs : list T) : bool * list T :=
    let copy := collect_from_trusted BRaw (exact_iter xs) in
    match copy with
    | Done c => let '(ok, out, _) := apply_mut_with (fun _ vo => vo) xs (isort c) in (ok, out)
    | _ => (false, xs)
    end.
End Sort.
