(* Proofs/Fdiff2.v — the null-aware fractional difference ts_vfdiff at XR, the coefficient table
   fdiff_coef, plain ts_fdiff = null-aware ts_vfdiff on null-free input.

   What ts_vfdiff computes (tevec/src/rolling.rs:94-133), faithfully:
     * the window is max(0,i-w+1)..=i; n = number of its non-null elements;
     * mask: the output is null iff n < min(min_periods.unwrap_or(w/2), w);
     * otherwise the nulls are COMPACTED OUT of the window and the coefficient table of length n is
       laid over the survivors: the k-th most recent VALID element gets (-1)^k C(d,k), whatever its
       distance in time from the current position.  So a null shifts the weights of every older
       element, and the output is NOT null when the current element is null (as long as enough
       valid elements remain): it is the fractional difference of the compacted window.          *)
From Coq Require Import Reals Lra Lia List.
From Tevec Require Import Base.Prelude Base.Num Base.XR Spec.Stats Model.Driver Proofs.Driver
     Model.Features Model.Fdiff Proofs.Features Proofs.Fdiff.
Import ListNotations.
Local Open Scope R_scope.

(* ====================================================================== *)
(* 1. the fractional difference of a window, positional and recursive forms *)

Lemma fdiffR_nil d : fdiffR d [] = 0.
Proof. reflexivity. Qed.

(* an older element in front: it sits `length l` steps behind the most recent one *)
Lemma fdiffR_cons d x l : fdiffR d (x :: l) = x * fdiff_weight d (length l) + fdiffR d l.
Proof.
  unfold fdiffR. cbn [length]. rewrite rev_seq_S. cbn [combine map sumR fold_right fst snd].
  reflexivity.
Qed.

Lemma sumR_map_ext {X} (f g : X -> R) l :
  (forall x, In x l -> f x = g x) -> sumR (map f l) = sumR (map g l).
Proof. intros H. f_equal. apply map_ext_in. exact H. Qed.

(* positional form: weight k on the element k steps before the end of the window *)
Lemma fdiffR_nth d l :
  fdiffR d l
  = sumR (map (fun k => fdiff_weight d k * nth (length l - 1 - k) l 0) (seq 0 (length l))).
Proof.
  induction l as [|x l IH]; [reflexivity|].
  rewrite fdiffR_cons, IH. cbn [length]. rewrite seq_S, map_app, sumR_app. cbn [plus map].
  replace (S (length l) - 1 - length l)%nat with 0%nat by lia. cbn [nth sumR fold_right].
  rewrite (sumR_map_ext
             (fun k => fdiff_weight d k * nth (S (length l) - 1 - k) (x :: l) 0)
             (fun k => fdiff_weight d k * nth (length l - 1 - k) l 0)).
  - ring.
  - intros k Hk. apply in_seq in Hk.
    replace (S (length l) - 1 - k)%nat with (S (length l - 1 - k)) by lia. reflexivity.
Qed.

(* ====================================================================== *)
(* 2. ts_vfdiff *)

Lemma not_none_xr (o : XR) :
  @not_none XR XR IsNoneXR o = match o with Some _ => true | None => false end.
Proof. destruct o; reflexivity. Qed.

Lemma filter_valid (l : list XR) : filter (@not_none XR XR IsNoneXR) l = map Some (valid l).
Proof.
  unfold valid. induction l as [|[r|] l IH]; cbn [filter flat_map app map]; rewrite ?not_none_xr.
  - reflexivity.
  - f_equal. exact IH.
  - exact IH.
Qed.

Lemma valid_length_le (l : list XR) : (length (valid l) <= length l)%nat.
Proof.
  unfold valid. induction l as [|[r|] l IH]; cbn [flat_map app length]; lia.
Qed.

Lemma valid_map_some (l : list R) : valid (map Some l) = l.
Proof. unfold valid. induction l as [|r l IH]; cbn [map flat_map app]; [reflexivity|]. f_equal. exact IH. Qed.

Lemma all_valid (l : list XR) : length (valid l) = length l -> l = map Some (valid l).
Proof.
  induction l as [|[r|] l IH]; intros H.
  - reflexivity.
  - unfold valid in *. cbn [flat_map app length map] in *. f_equal. apply IH. lia.
  - exfalso. pose proof (valid_length_le l) as Hle. unfold valid in *.
    cbn [flat_map app length] in H. lia.
Qed.

Lemma vdot_some (g : nat -> R) (l : list R) : forall (ks : list nat) (a : R),
  fold_left (fun acc (vc : XR * XR) =>
               if @not_none XR XR IsNoneXR (fst vc)
               then nadd acc (nmul (@unwrap XR XR IsNoneXR (fst vc)) (snd vc)) else acc)
            (combine (map Some l) (map (fun v => Some (g v)) ks)) (Some a)
  = Some (a + sumR (map (fun p => fst p * g (snd p)) (combine l ks))).
Proof.
  induction l as [|x l IH]; intros ks a; [cbn; f_equal; ring|].
  destruct ks as [|k ks]; [cbn; f_equal; ring|].
  cbn [map combine fold_left fst snd]. rewrite not_none_xr.
  cbn [unwrap IsNoneXR IsNone_float]. rewrite xmul_some, xadd_some, IH.
  cbn [sumR fold_right map fst snd]. f_equal.
  fold (sumR (map (fun p : R * nat => fst p * g (snd p)) (combine l ks))). ring.
Qed.

Lemma vdot_spec d (l : list R) :
  vdot (DT := IsNoneXR) (map Some l) (fdiff_coef (Some d) (length l)) = Some (fdiffR d l).
Proof.
  unfold vdot. rewrite fdiff_coef_spec. change nzero with (Some 0).
  rewrite (vdot_some (fdiff_weight d) l (rev (seq 0 (length l))) 0). unfold fdiffR. f_equal. ring.
Qed.

(* the callback on one window: mask on the number of valid elements, value = fractional
   difference of the COMPACTED window *)
Lemma ts_vfdiff_cb_spec d w mp (W : list XR) :
  (length W <= w)%nat -> (mp <= w)%nat ->
  snd (ts_vfdiff_cb (DT := IsNoneXR) (Some d) w mp tt W)
  = if (mp <=? length (valid W))%nat then Some (fdiffR d (valid W)) else None.
Proof.
  intros HW Hmp. unfold ts_vfdiff_cb. cbn [snd]. rewrite filter_valid, map_length.
  pose proof (valid_length_le W) as Hle.
  destruct (length (valid W) =? w)%nat eqn:E.
  - apply Nat.eqb_eq in E.
    replace (mp <=? length (valid W))%nat with true by (symmetry; apply Nat.leb_le; lia).
    rewrite (all_valid W) at 1 by lia. rewrite <- E. apply vdot_spec.
  - destruct (mp <=? length (valid W))%nat; [|reflexivity]. apply vdot_spec.
Qed.

Lemma mp_eff_le mp w : (mp_eff mp w 0 <= w)%nat.
Proof. unfold mp_eff. lia. Qed.

Theorem ts_vfdiff_spec body d (w : nat) (mp : option nat) (xs : list XR) :
  (1 <= w)%nat ->
  exists out, ts_vfdiff (DT := IsNoneXR) body (Some d) w mp xs = Done out /\
    length out = length xs /\
    forall i, (i < length xs)%nat ->
      nth_error out i =
      Some (let V := valid (win w i xs) in
            if (mp_eff mp w 0 <=? length V)%nat then Some (fdiffR d V) else None).
Proof.
  intros Hw.
  exists (map (fun a => snd (ts_vfdiff_cb (DT := IsNoneXR) (Some d) w (mp_eff mp w 0) tt a))
              (windows w xs)).
  split; [|split].
  - unfold ts_vfdiff. destruct body.
    + rewrite rolling_custom_to_eq by exact Hw. rewrite run_stateless. reflexivity.
    + rewrite rolling_custom_default_eq by exact Hw. rewrite run_stateless. reflexivity.
  - unfold windows. rewrite !map_length, seq_length. reflexivity.
  - intros i Hi. unfold windows. rewrite map_map, nth_error_map, nth_error_seq.
    replace (i <? length xs)%nat with true by (symmetry; apply Nat.ltb_lt; exact Hi).
    cbn [option_map plus]. rewrite ts_vfdiff_cb_spec; [reflexivity| |apply mp_eff_le].
    apply win_length_le. exact Hw.
Qed.

(* ====================================================================== *)
(* 3. the coefficient table *)

(* length w — for every carrier (also binary64): no arithmetic involved *)
Lemma coef_go_length {A} `{Num A} (d s : A) vs : length (coef_go d s vs) = length vs.
Proof. revert s; induction vs as [|v r IH]; intros s; cbn [coef_go length]; [reflexivity|]. f_equal. apply IH. Qed.

Theorem fdiff_coef_length {A} `{Num A} (d : A) w : length (fdiff_coef d w) = w.
Proof. unfold fdiff_coef. rewrite coef_go_length, rev_length, seq_length. reflexivity. Qed.

(* the generalised binomial coefficient is the product prod_{j<k} (d-j)/(j+1) ... *)
Definition prodR (l : list R) : R := fold_right Rmult 1 l.

Lemma binomR_from_prod d j k :
  binomR_from d j k = prodR (map (fun i => (d - INR i) / INR (S i)) (seq j k)).
Proof.
  revert j; induction k as [|k IH]; intros j; [reflexivity|].
  cbn [binomR_from seq map prodR fold_right]. rewrite IH. reflexivity.
Qed.

Theorem binomR_prod d k :
  binomR d k = prodR (map (fun i => (d - INR i) / INR (S i)) (seq 0 k)).
Proof. apply binomR_from_prod. Qed.

(* ... with the usual recurrence C(d,k+1) = C(d,k) (d-k)/(k+1) *)
Lemma binomR_from_S d j k :
  binomR_from d j (S k) = binomR_from d j k * ((d - INR (j + k)) / INR (S (j + k))).
Proof.
  revert j; induction k as [|k IH]; intros j.
  - cbn [binomR_from]. rewrite Nat.add_0_r. ring.
  - change (binomR_from d j (S (S k)))
      with ((d - INR j) / INR (S j) * binomR_from d (S j) (S k)).
    rewrite IH. cbn [binomR_from]. replace (S j + k)%nat with (j + S k)%nat by lia. ring.
Qed.

Lemma binomR_0 d : binomR d 0 = 1.
Proof. reflexivity. Qed.

Lemma binomR_S d k : binomR d (S k) = binomR d k * ((d - INR k) / INR (S k)).
Proof. unfold binomR. rewrite binomR_from_S. reflexivity. Qed.

Lemma binomR_1 d : binomR d 1 = d.
Proof. rewrite binomR_S, binomR_0. cbn [INR]. field. Qed.

(* integer order: the coefficients beyond d vanish, and up to d they are the binomial numbers *)
Lemma binomR_nat_vanish n k : (n < k)%nat -> binomR (INR n) k = 0.
Proof.
  induction k as [|k IH]; intros Hk; [lia|]. rewrite binomR_S.
  destruct (Nat.eq_dec k n) as [->|Hne].
  - unfold Rdiv. rewrite Rminus_diag_eq by reflexivity. ring.
  - rewrite IH by lia. ring.
Qed.

Lemma binomR_nat_C n k : (k <= n)%nat -> binomR (INR n) k = C n k.
Proof.
  induction k as [|k IH]; intros Hk.
  - rewrite binomR_0. unfold C. rewrite Nat.sub_0_r. cbn [fact INR].
    pose proof (INR_fact_neq_0 n). field. assumption.
  - rewrite binomR_S, IH by lia. unfold C.
    replace (n - k)%nat with (S (n - S k)) by lia.
    rewrite !fact_simpl, !mult_INR.
    pose proof (INR_fact_neq_0 k). pose proof (INR_fact_neq_0 (n - S k)).
    assert (INR (S k) <> 0) by (apply not_0_INR; lia).
    assert (INR (S (n - S k)) <> 0) by (apply not_0_INR; lia).
    replace (INR n - INR k) with (INR (S (n - S k)))
      by (rewrite <- minus_INR by lia; f_equal; lia).
    field. repeat split; assumption.
Qed.

Lemma fdiff_weight_0 d : fdiff_weight d 0 = 1.
Proof. unfold fdiff_weight. rewrite binomR_0. cbn [pow]. ring. Qed.

Lemma fdiff_weight_1 d : fdiff_weight d 1 = - d.
Proof. unfold fdiff_weight. rewrite binomR_1. cbn [pow]. ring. Qed.

Lemma fdiff_weight_nat_vanish n k : (n < k)%nat -> fdiff_weight (INR n) k = 0.
Proof. intros H. unfold fdiff_weight. rewrite binomR_nat_vanish by exact H. ring. Qed.

(* position of coefficient k in the table: counted from the END (most recent element) *)
Lemma nth_error_rev_seq w k : (k < w)%nat -> nth_error (rev (seq 0 w)) (w - 1 - k) = Some k.
Proof.
  induction w as [|w IH]; intros Hk; [lia|]. rewrite rev_seq_S.
  destruct (Nat.eq_dec k w) as [->|Hne].
  - replace (S w - 1 - w)%nat with 0%nat by lia. reflexivity.
  - replace (S w - 1 - k)%nat with (S (w - 1 - k)) by lia. cbn [nth_error]. apply IH. lia.
Qed.

Theorem fdiff_coef_nth d w k :
  (k < w)%nat ->
  nth_error (fdiff_coef (Some d) w) (w - 1 - k) = Some (Some ((-1) ^ k * binomR d k)).
Proof.
  intros Hk. rewrite fdiff_coef_spec, nth_error_map, nth_error_rev_seq by exact Hk.
  cbn [option_map]. unfold fdiff_weight. do 2 f_equal. ring.
Qed.

(* the most recent element always has weight 1 *)
Theorem fdiff_coef_last d w :
  (1 <= w)%nat -> nth_error (fdiff_coef (Some d) w) (w - 1) = Some (Some 1).
Proof.
  intros Hw. replace (w - 1)%nat with (w - 1 - 0)%nat by lia.
  rewrite fdiff_coef_nth by lia. rewrite binomR_0. cbn [pow]. do 2 f_equal. ring.
Qed.

(* integer order n: every coefficient further back than n is exactly 0 *)
Theorem fdiff_coef_nat_vanish n w k :
  (n < k)%nat -> (k < w)%nat ->
  nth_error (fdiff_coef (Some (INR n)) w) (w - 1 - k) = Some (Some 0).
Proof.
  intros Hn Hk. rewrite fdiff_coef_nth by exact Hk. rewrite binomR_nat_vanish by exact Hn.
  do 2 f_equal. ring.
Qed.

Theorem fdiff_coef_nat_binomial n w k :
  (k <= n)%nat -> (k < w)%nat ->
  nth_error (fdiff_coef (Some (INR n)) w) (w - 1 - k) = Some (Some ((-1) ^ k * C n k)).
Proof.
  intros Hn Hk. rewrite fdiff_coef_nth by exact Hk. rewrite binomR_nat_C by exact Hn. reflexivity.
Qed.

(* d = 1: the table is [0; ...; 0; -1; 1] *)
Lemma map_const_in {X Y} (f : X -> Y) c l : (forall x, In x l -> f x = c) -> map f l = repeat c (length l).
Proof.
  induction l as [|a l IH]; intros H; [reflexivity|]. cbn [map length repeat].
  rewrite (H a (or_introl eq_refl)). f_equal. apply IH. intros x Hx. apply H. right. exact Hx.
Qed.

Theorem fdiff_coef_d1 w :
  (2 <= w)%nat -> fdiff_coef (Some 1) w = repeat (Some 0) (w - 2) ++ [Some (-1); Some 1].
Proof.
  intros Hw. rewrite fdiff_coef_spec.
  replace w with (2 + (w - 2))%nat at 1 by lia.
  rewrite seq_app, rev_app_distr, map_app. cbn [plus seq rev app map].
  rewrite fdiff_weight_0, fdiff_weight_1. f_equal.
  rewrite (map_const_in (fun v => Some (fdiff_weight 1 v)) (Some 0)).
  - rewrite rev_length, seq_length. reflexivity.
  - intros k Hk. apply in_rev, in_seq in Hk. f_equal.
    change 1 with (INR 1). apply fdiff_weight_nat_vanish. lia.
Qed.

(* ... so the order-1 "fractional" difference of a window is the first difference of its last
   two elements (and the element itself on a one-element warm-up window) *)
Lemma sumR_zero {X} (f : X -> R) l : (forall x, In x l -> f x = 0) -> sumR (map f l) = 0.
Proof.
  induction l as [|a l IH]; intros H; [reflexivity|]. cbn [map sumR fold_right].
  fold (sumR (map f l)). rewrite (H a (or_introl eq_refl)), IH; [ring|].
  intros x Hx. apply H. right. exact Hx.
Qed.

Lemma fdiffR_d1 (l : list R) :
  fdiffR 1 l = match length l with
               | O => 0
               | S O => nth 0 l 0
               | S (S m) => nth (S m) l 0 - nth m l 0
               end.
Proof.
  rewrite fdiffR_nth. destruct (length l) as [|[|m]] eqn:E; [reflexivity| |].
  - cbn [seq map sumR fold_right]. rewrite fdiff_weight_0. cbn [Nat.sub]. ring.
  - replace (S (S m)) with (2 + m)%nat by lia. rewrite seq_app, map_app, sumR_app.
    cbn [plus seq map sumR fold_right]. rewrite fdiff_weight_0, fdiff_weight_1.
    rewrite sumR_zero.
    + replace (S (S m) - 1 - 0)%nat with (S m) by lia.
      replace (S (S m) - 1 - 1)%nat with m by lia. ring.
    + intros k Hk. apply in_seq in Hk. change 1 with (INR 1) at 1.
      rewrite fdiff_weight_nat_vanish by lia. ring.
Qed.

Lemma nth_win {X} w i j (xs : list X) dflt :
  (i < length xs)%nat -> (wstart w i + j <= i)%nat ->
  nth j (win w i xs) dflt = nth (wstart w i + j) xs dflt.
Proof.
  intros Hi Hj. apply nth_error_nth. rewrite win_seg, nth_error_seg.
  replace (j <? S i - wstart w i)%nat with true by (symmetry; apply Nat.ltb_lt; lia).
  apply nth_error_nth'. lia.
Qed.

Lemma win_length {X} w i (xs : list X) :
  (i < length xs)%nat -> length (win w i xs) = (S i - wstart w i)%nat.
Proof. intros Hi. rewrite win_seg. apply seg_length. lia. Qed.

Theorem ts_fdiff_d1_first_difference body (w : nat) (rs : list R) :
  (2 <= w)%nat ->
  exists out, ts_fdiff body (Some 1) w (fun x : XR => x) (map Some rs) = Done out /\
    length out = length rs /\
    forall i, (i < length rs)%nat ->
      nth_error out i =
      Some (Some (match i with O => nth 0 rs 0 | S j => nth (S j) rs 0 - nth j rs 0 end)).
Proof.
  intros Hw. destruct (ts_fdiff_spec body 1 w rs ltac:(lia)) as (out & H1 & H2 & H3).
  exists out. split; [exact H1|]. split; [exact H2|]. intros i Hi. rewrite (H3 i Hi).
  do 2 f_equal. rewrite fdiffR_d1, win_length by exact Hi. unfold wstart.
  destruct i as [|j].
  - replace (1 - (1 - w))%nat with 1%nat by lia.
    rewrite nth_win by (unfold wstart; lia). unfold wstart. f_equal. lia.
  - destruct (S (S j) - (S (S j) - w))%nat as [|[|m]] eqn:E; [lia|lia|].
    rewrite !nth_win by (unfold wstart; lia). unfold wstart. f_equal; f_equal; lia.
Qed.

(* ====================================================================== *)
(* 4. textbook forms in the coordinates of the series *)

Lemma win_length_min {X} w i (xs : list X) :
  (1 <= w)%nat -> (i < length xs)%nat -> length (win w i xs) = Nat.min (S i) w.
Proof. intros Hw Hi. rewrite win_length by exact Hi. unfold wstart. lia. Qed.

(* sum_{k < min(i+1,w)} (-1)^k C(d,k) x_{i-k} *)
Lemma fdiffR_win d w i (rs : list R) :
  (1 <= w)%nat -> (i < length rs)%nat ->
  fdiffR d (win w i rs)
  = sumR (map (fun k => fdiff_weight d k * nth (i - k) rs 0) (seq 0 (Nat.min (S i) w))).
Proof.
  intros Hw Hi. rewrite fdiffR_nth, win_length_min by assumption.
  apply sumR_map_ext. intros k Hk. apply in_seq in Hk. f_equal.
  rewrite nth_win by (unfold wstart; lia). f_equal. unfold wstart. lia.
Qed.

Theorem ts_fdiff_textbook body d (w : nat) (rs : list R) :
  (1 <= w)%nat ->
  exists out, ts_fdiff body (Some d) w (fun x : XR => x) (map Some rs) = Done out /\
    length out = length rs /\
    forall i, (i < length rs)%nat ->
      nth_error out i =
      Some (Some (sumR (map (fun k => (-1) ^ k * binomR d k * nth (i - k) rs 0)
                            (seq 0 (Nat.min (S i) w))))).
Proof.
  intros Hw. destruct (ts_fdiff_spec body d w rs Hw) as (out & H1 & H2 & H3).
  exists out. split; [exact H1|]. split; [exact H2|]. intros i Hi. rewrite (H3 i Hi).
  do 2 f_equal. rewrite fdiffR_win by assumption. apply sumR_map_ext. intros k _.
  unfold fdiff_weight. ring.
Qed.

(* null-aware, in the coordinates of the COMPACTED window: V_(k) = k-th most recent valid element *)
Theorem ts_vfdiff_textbook body d (w : nat) (mp : option nat) (xs : list XR) :
  (1 <= w)%nat ->
  exists out, ts_vfdiff (DT := IsNoneXR) body (Some d) w mp xs = Done out /\
    length out = length xs /\
    forall i, (i < length xs)%nat ->
      nth_error out i =
      Some (let V := valid (win w i xs) in
            if (mp_eff mp w 0 <=? length V)%nat
            then Some (sumR (map (fun k => (-1) ^ k * binomR d k * nth (length V - 1 - k) V 0)
                                 (seq 0 (length V))))
            else None).
Proof.
  intros Hw. destruct (ts_vfdiff_spec body d w mp xs Hw) as (out & H1 & H2 & H3).
  exists out. split; [exact H1|]. split; [exact H2|]. intros i Hi. rewrite (H3 i Hi). cbv zeta.
  destruct (_ <=? _)%nat; [|reflexivity]. do 2 f_equal. rewrite fdiffR_nth.
  apply sumR_map_ext. intros k _. unfold fdiff_weight. ring.
Qed.

(* integer order n: the (window-truncated) n-th finite difference, with the binomial numbers *)
Theorem fdiffR_nat n (l : list R) :
  fdiffR (INR n) l
  = sumR (map (fun k => (-1) ^ k * C n k * nth (length l - 1 - k) l 0)
              (seq 0 (Nat.min (S n) (length l)))).
Proof.
  rewrite fdiffR_nth. set (m := Nat.min (S n) (length l)).
  assert (Hs : seq 0 (length l) = seq 0 m ++ seq (0 + m) (length l - m)).
  { rewrite <- seq_app. f_equal. lia. }
  rewrite Hs, map_app, sumR_app, (sumR_zero _ (seq (0 + m) _)).
  - rewrite Rplus_0_r. apply sumR_map_ext. intros k Hk. apply in_seq in Hk.
    unfold fdiff_weight. rewrite binomR_nat_C by lia. ring.
  - intros k Hk. apply in_seq in Hk. rewrite fdiff_weight_nat_vanish by lia. ring.
Qed.

(* order 0 is the identity (last element of the window) *)
Lemma nth_length_last (l : list R) x : nth (length l) (x :: l) 0 = last (x :: l) 0.
Proof.
  revert x; induction l as [|y l IH]; intros x; [reflexivity|].
  change (nth (length (y :: l)) (x :: y :: l) 0) with (nth (length l) (y :: l) 0).
  rewrite IH. reflexivity.
Qed.

Corollary fdiffR_d0 (l : list R) : l <> [] -> fdiffR 0 l = last l 0.
Proof.
  intros Hl. change 0 with (INR 0) at 1. rewrite fdiffR_nat.
  destruct l as [|x l]; [contradiction|].
  replace (Nat.min 1 (length (x :: l))) with 1%nat by (cbn [length]; lia).
  cbn [seq map sumR fold_right pow]. unfold C. cbn [fact Nat.sub INR].
  replace (length (x :: l) - 1 - 0)%nat with (length l) by (cbn [length]; lia).
  rewrite nth_length_last. field.
Qed.

(* ====================================================================== *)
(* 5. the surprising part, pinned on concrete windows: a null shifts the weights, and a null in
      the CURRENT position does not null the output *)

Lemma fdiffR_two d a b : fdiffR d [a; b] = b - d * a.
Proof.
  rewrite fdiffR_cons, fdiffR_cons, fdiffR_nil. cbn [length].
  rewrite fdiff_weight_0, fdiff_weight_1. ring.
Qed.

(* positional alternative (NOT what the code does): weight k on the element k steps back in
   time, nulls contributing nothing *)
Definition fdiff_positional (d : R) (W : list XR) : R :=
  sumR (map (fun k => fdiff_weight d k *
                      match nth (length W - 1 - k) W None with Some x => x | None => 0 end)
            (seq 0 (length W))).

Theorem vfdiff_nulls_shift_weights body :
  exists out, ts_vfdiff (DT := IsNoneXR) body (Some 1) 3%nat (Some 1%nat) [Some 1; None; Some 3] = Done out /\
    nth_error out 2 = Some (Some 2) /\                         (* 3 - 1: x_0 gets the lag-1 weight *)
    fdiff_positional 1 [Some 1; None; Some 3] = 3.             (* lag-2 weight of order 1 is 0 *)
Proof.
  destruct (ts_vfdiff_spec body 1 3%nat (Some 1%nat) [Some 1; None; Some 3] ltac:(lia)) as (out & H1 & _ & H3).
  exists out. split; [exact H1|]. split.
  - rewrite (H3 2%nat ltac:(cbn; lia)). cbn [win wstart Nat.sub skipn firstn valid flat_map app length].
    cbv zeta. cbn [mp_eff Nat.min Nat.max Nat.leb]. rewrite fdiffR_two. do 2 f_equal. ring.
  - unfold fdiff_positional. cbn [length seq map Nat.sub nth sumR fold_right].
    rewrite fdiff_weight_0, fdiff_weight_1. change 1 with (INR 1) at 3.
    rewrite fdiff_weight_nat_vanish by lia. ring.
Qed.

Theorem vfdiff_current_null_not_null body :
  exists out, ts_vfdiff (DT := IsNoneXR) body (Some 1) 3%nat (Some 1%nat) [Some 1; Some 3; None] = Done out /\
    nth_error out 2 = Some (Some 2).
Proof.
  destruct (ts_vfdiff_spec body 1 3%nat (Some 1%nat) [Some 1; Some 3; None] ltac:(lia)) as (out & H1 & _ & H3).
  exists out. split; [exact H1|].
  rewrite (H3 2%nat ltac:(cbn; lia)). cbn [win wstart Nat.sub skipn firstn valid flat_map app length].
  cbv zeta. cbn [mp_eff Nat.min Nat.max Nat.leb]. rewrite fdiffR_two. do 2 f_equal. ring.
Qed.

(* general form of the same fact: the output at i is a function of the valid elements of the
   window only — where the nulls sit (current position included) is irrelevant *)
Theorem vfdiff_depends_on_valid_only body d (w : nat) mp (xs ys : list XR) i :
  (1 <= w)%nat -> (i < length xs)%nat -> (i < length ys)%nat ->
  valid (win w i xs) = valid (win w i ys) ->
  forall ox oy,
    ts_vfdiff (DT := IsNoneXR) body (Some d) w mp xs = Done ox ->
    ts_vfdiff (DT := IsNoneXR) body (Some d) w mp ys = Done oy ->
    nth_error ox i = nth_error oy i.
Proof.
  intros Hw Hx Hy HV ox oy Ex Ey.
  destruct (ts_vfdiff_spec body d w mp xs Hw) as (ox' & X1 & _ & X3).
  destruct (ts_vfdiff_spec body d w mp ys Hw) as (oy' & Y1 & _ & Y3).
  rewrite Ex in X1. rewrite Ey in Y1. injection X1 as <-. injection Y1 as <-.
  rewrite (X3 i Hx), (Y3 i Hy), HV. reflexivity.
Qed.

(* ====================================================================== *)
(* 6. the weights as usually defined in the fractional-differencing literature:
      w_0 = 1, w_{k+1} = - w_k (d - k)/(k + 1); for 0 < d < 1 every weight but the first is
      negative and the magnitudes decrease                                                     *)
Lemma fdiff_weight_S d k :
  fdiff_weight d (S k) = - fdiff_weight d k * ((d - INR k) / INR (S k)).
Proof. unfold fdiff_weight. rewrite binomR_S. cbn [pow]. ring. Qed.

Lemma fdiff_weight_negative d k :
  0 < d < 1 -> (1 <= k)%nat -> fdiff_weight d k < 0.
Proof.
  intros Hd Hk. induction k as [|k IH]; [lia|].
  destruct k as [|k].
  - rewrite fdiff_weight_1. lra.
  - rewrite fdiff_weight_S. specialize (IH ltac:(lia)).
    assert (Hk1 : 1 <= INR (S k)) by (apply (le_INR 1); lia).
    assert (Hpos : 0 < INR (S (S k))) by (apply lt_0_INR; lia).
    assert (Hq : (d - INR (S k)) / INR (S (S k)) < 0).
    { assert (Hinv : 0 < / INR (S (S k))) by (apply Rinv_0_lt_compat; exact Hpos).
      unfold Rdiv. set (iv := / INR (S (S k))) in *. clearbody iv. nra. }
    set (q := (d - INR (S k)) / INR (S (S k))) in *. set (v := fdiff_weight d (S k)) in *.
    clearbody q v. nra.
Qed.

Lemma fdiff_weight_decreasing d k :
  0 < d < 1 -> (1 <= k)%nat -> fdiff_weight d k < fdiff_weight d (S k).
Proof.
  intros Hd Hk. pose proof (fdiff_weight_negative d k Hd Hk) as Hneg.
  rewrite fdiff_weight_S.
  assert (Hk1 : 1 <= INR k) by (apply (le_INR 1); lia).
  assert (Hpos : 0 < INR (S k)) by (apply lt_0_INR; lia).
  (* - q = (k - d)/(k + 1) is in (0,1) *)
  assert (Hq : 0 < - ((d - INR k) / INR (S k)) < 1).
  { rewrite S_INR in *.
    assert (Hinv : 0 < / (INR k + 1)) by (apply Rinv_0_lt_compat; lra).
    assert (Hone : / (INR k + 1) * (INR k + 1) = 1) by (apply Rinv_l; lra).
    unfold Rdiv. set (iv := / (INR k + 1)) in *. clearbody iv. split; nra. }
  set (q := (d - INR k) / INR (S k)) in *. set (v := fdiff_weight d k) in *. clearbody q v. nra.
Qed.

(* the repository's own unit-test vectors (rolling.rs test_fdiff_coef / test_fdiff), exactly *)
Lemma fdiff_coef_half_4 :
  fdiff_coef (Some (/ 2)) 4 = [Some (- / 16); Some (- / 8); Some (- / 2); Some 1].
Proof.
  rewrite fdiff_coef_spec. cbn [seq rev app map]. unfold fdiff_weight, binomR.
  cbn [binomR_from pow INR]. repeat (f_equal; [f_equal; field|]). f_equal. f_equal. ring.
Qed.

Lemma test_fdiff_vector body :
  exists out, ts_vfdiff (DT := IsNoneXR) body (Some (/ 2)) 4%nat None
                (map Some [7; 4; 2; 5; 1; 2]) = Done out /\
    out = [None; Some (/ 2); Some (- (7 / 8)); Some (49 / 16); Some (- 2); Some (3 / 4)].
Proof.
  destruct (ts_vfdiff_spec body (/ 2) 4%nat None (map Some [7; 4; 2; 5; 1; 2]) ltac:(lia))
    as (out & H1 & H2 & H3).
  exists out. split; [exact H1|]. apply nth_error_ext. intros i.
  destruct (Nat.lt_ge_cases i 6) as [Hi|Hi].
  - rewrite (H3 i ltac:(cbn; lia)).
    do 6 (destruct i as [|i]; [
      cbn [map win wstart Nat.sub skipn firstn valid flat_map app length nth_error]; cbv zeta;
      change (mp_eff None 4 0) with 2%nat; cbn [Nat.leb];
      try reflexivity;
      (do 2 f_equal; rewrite !fdiffR_cons, fdiffR_nil; unfold fdiff_weight, binomR;
       cbn [length binomR_from pow INR]; field) |]).
    lia.
  - transitivity (@None XR); [|symmetry]; apply nth_error_None; [rewrite H2|]; cbn [map length]; lia.
Qed.
