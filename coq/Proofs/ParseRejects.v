(* Proofs/ParseRejects.v — the converse of `wellformed_sum`: a characterisation of the language the
   duration scanner accepts (hence, contrapositively, of what it rejects).

   `parse s = POk m ns` implies  s = render_terms ts ++ tail  where every term of ts is well formed
   (sign? digit+ unit), tail is empty or ONE arbitrary character followed by digits only (the
   scanner skips the head character of a pending number without looking at it, and a pending
   number that is never followed by a unit is silently dropped), and m / ns are the sums of the
   terms.  Everything outside that language is `PErr` (never a panic: `parse_total`).            *)
From Coq Require Import List ZArith Lia Bool.
From Tevec Require Import Base.Prelude Model.Parse Spec.DurationC18 Proofs.Parse.
Import ListNotations.
Local Open Scope Z_scope.

(* what may follow the last complete term: nothing, or one character (not alphabetic when it follows
   a term: an alphabetic one would have been taken into the unit) followed by digits only *)
Definition tail_ok (ts : list term) (tail : str) : Prop :=
  tail = [] \/
  exists c ds, tail = c :: ds /\ Forall (fun d => is_digit d = true) ds /\ (ts <> [] -> is_alpha c = false).

(* the accepted language (shape only) and the accepted language with its value *)
Definition in_language (s : str) : Prop :=
  exists (ts : list term) (tail : str),
    s = render_terms ts ++ tail /\ Forall wf_term ts /\ tail_ok ts tail.

Definition accepted (s : str) (m ns : Z) : Prop :=
  exists (ts : list term) (tail : str),
    s = render_terms ts ++ tail /\ Forall wf_term ts /\ tail_ok ts tail /\
    m = sumf t_months ts /\ ns = fixed_ns ts.

(* ------------------------------------------------------------------ *)
(* inversion of the unit table *)

Lemma str_eqb_eq : forall a b, str_eqb a b = true -> a = b.
Proof.
  induction a as [|x a IH]; intros [|y b] H; cbn [str_eqb] in H; try discriminate; [reflexivity|].
  apply andb_true_iff in H. destruct H as [H1 H2]. apply Z.eqb_eq in H1. subst y.
  f_equal. apply IH. exact H2.
Qed.

Lemma unit_of_inv s u : unit_of s = Some u -> s = unit_str u.
Proof.
  unfold unit_of. intros H. apply find_some in H. destruct H as [_ H]. apply str_eqb_eq. exact H.
Qed.

(* ------------------------------------------------------------------ *)
(* inversion of i64::from_str *)

Lemma digits_val_inv : forall ds acc v, digits_val acc ds = Some v ->
  Forall digit ds /\ v = fold_left (fun a c => a * 10 + (c - 48)) ds acc.
Proof.
  induction ds as [|c r IH]; intros acc v H; cbn [digits_val] in H.
  - injection H as <-. split; [constructor|reflexivity].
  - destruct (is_digit c) eqn:E; [|discriminate]. apply IH in H. destruct H as [H1 H2].
    split; [constructor; [exact E|exact H1]|exact H2].
Qed.

(* the term whose number is the slice  hd :: ds  *)
Definition term_of (hd : Z) (ds : str) (u : unit_kind) : term :=
  if hd =? 45 then mk_term (Some true) ds u
  else if hd =? 43 then mk_term (Some false) ds u
  else mk_term None (hd :: ds) u.

Lemma term_of_unit hd ds u : t_unit (term_of hd ds u) = u.
Proof. unfold term_of. destruct (hd =? 45); [|destruct (hd =? 43)]; reflexivity. Qed.

(* converse of `parse_i64_term` *)
Lemma parse_i64_inv hd ds u n : parse_i64 (hd :: ds) = Some n ->
  wf_term (term_of hd ds u) /\
  sign_str (t_sign (term_of hd ds u)) ++ t_digits (term_of hd ds u) = hd :: ds /\
  n = tval (term_of hd ds u) /\ in_i64 n = true.
Proof.
  unfold parse_i64, term_of. intros H.
  destruct (Z.eqb_spec hd 45) as [E1|N1].
  - subst hd. destruct ds as [|d dr]; [discriminate|].
    destruct (digits_val 0 (d :: dr)) as [v|] eqn:E; [|discriminate].
    apply digits_val_inv in E. destruct E as [Hd Hv]. cbv zeta in H.
    destruct (in_i64 (- v)) eqn:Er; [|discriminate]. injection H as <-.
    unfold wf_term, tval, dval. cbn [t_sign t_digits sign_str app].
    split; [split; [discriminate|exact Hd]|]. split; [reflexivity|]. split; [rewrite Hv; reflexivity|exact Er].
  - destruct (Z.eqb_spec hd 43) as [E2|N2].
    + subst hd. destruct ds as [|d dr]; [discriminate|].
      destruct (digits_val 0 (d :: dr)) as [v|] eqn:E; [|discriminate].
      apply digits_val_inv in E. destruct E as [Hd Hv]. cbv zeta in H.
      destruct (in_i64 v) eqn:Er; [|discriminate]. injection H as <-.
      unfold wf_term, tval, dval. cbn [t_sign t_digits sign_str app].
      split; [split; [discriminate|exact Hd]|]. split; [reflexivity|]. split; [rewrite Hv; reflexivity|exact Er].
    + destruct (digits_val 0 (hd :: ds)) as [v|] eqn:E; [|discriminate].
      apply digits_val_inv in E. destruct E as [Hd Hv]. cbv zeta in H.
      destruct (in_i64 v) eqn:Er; [|discriminate]. injection H as <-.
      unfold wf_term, tval, dval. cbn [t_sign t_digits sign_str app].
      split; [split; [discriminate|exact Hd]|]. split; [reflexivity|]. split; [rewrite Hv; reflexivity|exact Er].
Qed.

(* ------------------------------------------------------------------ *)
(* inversion of the accumulator updates *)

Lemma add_i64_inv acc n k r : add_i64 acc n k = Some r -> r = acc + n * k.
Proof.
  cbv beta zeta delta [add_i64].
  destruct (in_i64 (n * k)); [|discriminate]. destruct (in_i64 (n * k + acc)); [|discriminate].
  intros H. injection H as <-. lia.
Qed.

Lemma add_i32_inv acc n k r : add_i32 acc n k = Some r -> r = acc + n * k.
Proof.
  cbv beta zeta delta [add_i32].
  destruct (in_i32 n); [|discriminate].
  destruct (in_i32 (n * k)); [|discriminate]. destruct (in_i32 (n * k + acc)); [|discriminate].
  intros H. injection H as <-. lia.
Qed.

(* converse of `apply_unit_term` *)
Lemma apply_unit_inv t a a' : apply_unit (t_unit t) (tval t) a = Some a' -> a' = acc_plus a t.
Proof.
  unfold acc_plus, t_months, t_secs, t_nsecs.
  destruct (t_unit t); cbn [apply_unit unit_scale]; intros H;
    match type of H with option_map _ ?e = _ => destruct e as [v|] eqn:E; [|discriminate] end;
    cbn [option_map] in H; injection H as <-;
    first [apply add_i64_inv in E | apply add_i32_inv in E]; subst v; f_equal; lia.
Qed.

Lemma duration_new_inv s n s' n' : duration_new s n = Some (s', n') -> s' = s /\ n' = n.
Proof.
  unfold duration_new.
  match goal with |- (if ?b then _ else _) = _ -> _ => destruct b end; [discriminate|].
  intros H. injection H as <- <-. split; reflexivity.
Qed.

(* converse of `finish_ok` *)
Lemma finish_inv a m t : finish a = POk m t -> m = a_months a /\ t = a_secs a * giga + a_nsecs a.
Proof.
  unfold finish. destruct (duration_new (a_secs a) 0) as [[s1 n1]|] eqn:E1; [|discriminate].
  apply duration_new_inv in E1. destruct E1 as [E1 E1']. subst s1 n1.
  pose proof (Z.div_mod (a_nsecs a) giga ltac:(unfold giga; lia)) as HD.
  destruct (0 + a_nsecs a mod giga >=? giga);
    match goal with |- context [duration_new ?x ?y] => destruct (duration_new x y) as [[s n]|] eqn:E2 end;
    try discriminate;
    apply duration_new_inv in E2; destruct E2 as [E2 E2']; subst s n;
    intros H; injection H as <- <-; (split; [reflexivity|]); unfold giga in *; lia.
Qed.

(* ------------------------------------------------------------------ *)
(* the inner (unit) loop: either it runs to the end of the input over alphabetic characters only, or
   it stops on the first non-alphabetic character c, which it consumes (p2 is one past c) and, when
   at least one alphabetic character was taken, leaves `start` on (s2 indexes c).  In the call
   `unit_loop ch rest pos start unit` the character ch sits at index pos - 1.                     *)
Definition alpha (c : Z) : Prop := is_alpha c = true.

Lemma unit_loop_char : forall rest ch pos start unit u' r2 p2 s2,
  unit_loop ch rest pos start unit = (u', r2, p2, s2) ->
  (exists al, u' = unit ++ al /\ ch :: rest = al /\ Forall alpha al /\ r2 = [])
  \/
  (exists al c, u' = unit ++ al /\ ch :: rest = al ++ c :: r2 /\ Forall alpha al /\ is_alpha c = false /\
     p2 = (pos + length al)%nat /\ (al <> [] -> S s2 = (pos + length al)%nat) /\ (al = [] -> s2 = start)).
Proof.
  induction rest as [|c' rest IH]; intros ch pos start unit u' r2 p2 s2 H; cbn [unit_loop] in H.
  - destruct (is_alpha ch) eqn:E; inversion H; subst.
    + left. exists [ch]. repeat split. constructor; [exact E|constructor].
    + right. exists [], ch. cbn [app length]. rewrite app_nil_r, Nat.add_0_r.
      repeat split; try constructor; try exact E. intros N; contradiction N; reflexivity.
  - destruct (is_alpha ch) eqn:E.
    + apply IH in H. destruct H as [[al [E1 [E2 [Hal E3]]]] | [al [c [E1 [E2 [Hal [Hc [Ep [Es1 Es2]]]]]]]]].
      * left. exists (ch :: al). rewrite E1, <- app_assoc, <- E2. cbn [app].
        repeat split; try exact E3. constructor; [exact E|]. rewrite E2. exact Hal.
      * right. exists (ch :: al), c. rewrite E1, <- app_assoc, E2. cbn [app length].
        split; [reflexivity|]. split; [reflexivity|]. split; [constructor; [exact E|exact Hal]|].
        split; [exact Hc|]. split; [lia|]. split; [|discriminate].
        intros _. destruct al as [|a0 al'].
        -- rewrite (Es2 eq_refl). cbn [length]. lia.
        -- assert (Hne : a0 :: al' <> []) by discriminate. specialize (Es1 Hne). cbn [length] in *. lia.
    + inversion H; subst. right. exists [], ch. cbn [app length]. rewrite app_nil_r, Nat.add_0_r.
      repeat split; try constructor; try exact E. intros N; contradiction N; reflexivity.
Qed.

(* ------------------------------------------------------------------ *)
(* bookkeeping on term lists *)

Lemma render_terms_app ts1 ts2 : render_terms (ts1 ++ ts2) = render_terms ts1 ++ render_terms ts2.
Proof. unfold render_terms. apply flat_map_app. Qed.

Lemma sumf_snoc f ts t : sumf f (ts ++ [t]) = sumf f ts + f t.
Proof. unfold sumf. induction ts as [|x ts IH]; cbn [app fold_right]; lia. Qed.

(* the accumulators after the terms ts *)
Definition acc_of (ts : list term) : accs :=
  mk_accs (sumf t_nsecs ts) (sumf t_secs ts) (sumf t_months ts).

Lemma finish_acc_of ts m ns : finish (acc_of ts) = POk m ns -> m = sumf t_months ts /\ ns = fixed_ns ts.
Proof. intros H. apply finish_inv in H. exact H. Qed.

(* ------------------------------------------------------------------ *)
(* the scanner invariant: the complete terms ts have been read, the head character hd of the pending
   number has been consumed (start indexes it) and so have the digits ds after it *)
Lemma scan_accepts : forall fuel s rest pos start ts hd ds m ns,
  s = render_terms ts ++ hd :: ds ++ rest ->
  start = length (render_terms ts) ->
  pos = (start + 1 + length ds)%nat ->
  Forall digit ds -> Forall wf_term ts -> (ts <> [] -> is_alpha hd = false) ->
  scan fuel s rest pos start (acc_of ts) = POk m ns ->
  accepted s m ns.
Proof.
  induction fuel as [|fuel IH]; intros s rest pos start ts hd ds m ns Hs Hst Hp Hd Hw Hh H; [discriminate|].
  cbn [scan] in H. destruct rest as [|ch rest1].
  - (* end of input: the pending number is dropped *)
    apply finish_acc_of in H. destruct H as [Hm Hn].
    exists ts, (hd :: ds). rewrite app_nil_r in Hs.
    split; [exact Hs|]. split; [exact Hw|]. split; [|split; assumption].
    right. exists hd, ds. split; [reflexivity|]. split; [exact Hd|exact Hh].
  - destruct (is_digit ch) eqn:Ec.
    + (* one more digit of the pending number *)
      cbn [negb andb] in H.
      apply (IH s rest1 (S pos) start ts hd (ds ++ [ch]) m ns).
      * rewrite Hs, <- app_assoc. reflexivity.
      * exact Hst.
      * rewrite app_length. cbn [length]. lia.
      * apply Forall_app. split; [exact Hd|]. constructor; [exact Ec|constructor].
      * exact Hw.
      * exact Hh.
      * exact H.
    + (* the number ends: parse it, read the unit *)
      replace (pos =? 0)%nat with false in H by (symmetry; apply Nat.eqb_neq; lia).
      cbn [negb andb] in H.
      assert (ESl : slice s start pos = Ok (hd :: ds)).
      { rewrite Hs, Hp, Hst.
        change (hd :: ds ++ ch :: rest1) with ((hd :: ds) ++ ch :: rest1).
        replace (length (render_terms ts) + 1 + length ds)%nat
          with (length (render_terms ts) + length (hd :: ds))%nat by (cbn [length]; lia).
        apply slice_mid. }
      rewrite ESl in H.
      destruct (parse_i64 (hd :: ds)) as [n|] eqn:En; [|discriminate].
      destruct (unit_loop ch rest1 (S pos) start []) as [[[unit r2] p2] s2] eqn:EL.
      destruct unit as [|u0 ur]; [discriminate|].
      destruct (unit_of (u0 :: ur)) as [u|] eqn:Eu; [|discriminate].
      apply unit_of_inv in Eu.
      destruct (apply_unit u n (acc_of ts)) as [a'|] eqn:Ea; [|discriminate].
      destruct (parse_i64_inv hd ds u n En) as [Hwt [Er [Hn _]]].
      pose proof (term_of_unit hd ds u) as Htu.
      set (t := term_of hd ds u) in *.
      assert (Ea' : a' = acc_of (ts ++ [t])).
      { rewrite Hn, <- Htu in Ea. apply apply_unit_inv in Ea. rewrite Ea.
        unfold acc_plus, acc_of. cbn [a_nsecs a_secs a_months]. rewrite !sumf_snoc. reflexivity. }
      assert (ERt : render_terms (ts ++ [t]) = render_terms ts ++ hd :: ds ++ unit_str u).
      { rewrite render_terms_app. f_equal. unfold render_terms. cbn [flat_map]. rewrite app_nil_r.
        unfold render_term. rewrite app_assoc, Er, Htu. reflexivity. }
      assert (Hw' : Forall wf_term (ts ++ [t])).
      { apply Forall_app. split; [exact Hw|]. constructor; [exact Hwt|constructor]. }
      subst a'.
      apply unit_loop_char in EL. cbn [app] in EL.
      destruct EL as [[al [E1 [E2 [Hal E3]]]] | [al [c [E1 [E2 [Hal [Hc [Ep2 [Es2 _]]]]]]]]].
      * (* the unit runs to the end of the input *)
        subst r2. destruct fuel as [|fuel']; [discriminate|]. cbn [scan] in H.
        apply finish_acc_of in H. destruct H as [Hm Hns].
        exists (ts ++ [t]), []. rewrite app_nil_r, ERt.
        split; [rewrite Hs, E2, <- E1, Eu; reflexivity|].
        split; [exact Hw'|]. split; [left; reflexivity|]. split; assumption.
      * (* the unit is followed by c, the head of the next pending number *)
        assert (Eal : al = unit_str u) by (rewrite <- E1; exact Eu).
        assert (Hne : al <> []) by (rewrite <- E1; discriminate).
        specialize (Es2 Hne).
        apply (IH s r2 p2 s2 (ts ++ [t]) c [] m ns).
        -- rewrite ERt, Hs, E2, Eal. cbn [app].
           rewrite <- app_assoc. cbn [app]. rewrite <- app_assoc. reflexivity.
        -- rewrite ERt, app_length. cbn [length]. rewrite app_length, <- Eal. lia.
        -- cbn [length]. lia.
        -- constructor.
        -- exact Hw'.
        -- intros _. exact Hc.
        -- exact H.
Qed.

(* ------------------------------------------------------------------ *)
(* MAIN THEOREM: whatever the scanner accepts is  term* tail , with the value of the terms *)
Theorem parse_accepts_grammar : forall (s : str) (m ns : Z), parse s = POk m ns ->
  exists (ts : list term) (tail : str),
    s = render_terms ts ++ tail /\
    Forall wf_term ts /\
    tail_ok ts tail /\
    m = sumf t_months ts /\ ns = fixed_ns ts.
Proof.
  intros s m ns H. unfold parse in H. destruct s as [|c r].
  - cbn [length scan] in H. apply (finish_acc_of []) in H. destruct H as [Hm Hn].
    exists [], []. split; [reflexivity|]. split; [constructor|]. split; [left; reflexivity|].
    split; assumption.
  - cbn [length] in H. rewrite scan_first in H.
    apply (scan_accepts (S (length r)) (c :: r) r 1%nat 0%nat [] c [] m ns); try reflexivity; try constructor.
    + intros N. contradiction N. reflexivity.
    + exact H.
Qed.

Corollary parse_accepts_language s m ns : parse s = POk m ns -> in_language s.
Proof.
  intros H. apply parse_accepts_grammar in H. destruct H as [ts [tail [H1 [H2 [H3 _]]]]].
  exists ts, tail. auto.
Qed.

(* ------------------------------------------------------------------ *)
(* the contrapositive: rejection *)

Corollary parse_rejects : forall s,
  (forall ts tail, s = render_terms ts ++ tail -> Forall wf_term ts -> tail_ok ts tail -> False) ->
  forall m ns, parse s <> POk m ns.
Proof.
  intros s Hno m ns H. apply parse_accepts_grammar in H.
  destruct H as [ts [tail [H1 [H2 [H3 _]]]]]. exact (Hno ts tail H1 H2 H3).
Qed.

(* the outcome is Ok or Err, never a panic / fuel exhaustion *)
Lemma parse_ok_or_err s : (exists m ns, parse s = POk m ns) \/ parse s = PErr.
Proof.
  destruct (parse_total s) as [Hp Hf]. destruct (parse s) as [m ns| |k|].
  - left. exists m, ns. reflexivity.
  - right. reflexivity.
  - exfalso. exact (Hp k eq_refl).
  - exfalso. exact (Hf eq_refl).
Qed.

Corollary parse_rejects_err : forall s,
  (forall ts tail, s = render_terms ts ++ tail -> Forall wf_term ts -> tail_ok ts tail -> False) ->
  parse s = PErr.
Proof.
  intros s Hno. destruct (parse_ok_or_err s) as [[m [ns H]]|H]; [|exact H].
  exfalso. exact (parse_rejects s Hno m ns H).
Qed.

Corollary parse_not_in_language_err : forall s, ~ in_language s -> parse s = PErr.
Proof.
  intros s Hno. apply parse_rejects_err. intros ts tail H1 H2 H3. apply Hno. exists ts, tail. auto.
Qed.

(* a string is accepted with a value only if that value is the one of its grammar reading *)
Corollary parse_value_of_terms : forall ts m ns, parse (render_terms ts) = POk m ns ->
  exists ts' tail, render_terms ts = render_terms ts' ++ tail /\ Forall wf_term ts' /\ tail_ok ts' tail /\
                   m = sumf t_months ts' /\ ns = fixed_ns ts'.
Proof. intros ts m ns H. apply parse_accepts_grammar. exact H. Qed.

(* ------------------------------------------------------------------ *)
(* concrete consequences *)

Lemma parse_empty : parse [] = POk 0 0.
Proof. vm_compute. reflexivity. Qed.

(* a rendered term starts with a sign or a digit *)
Lemma render_term_head t : wf_term t ->
  exists c0 more, render_term t = c0 :: more /\ (is_digit c0 = true \/ c0 = 43 \/ c0 = 45).
Proof.
  intros [Hne Hd]. unfold render_term. destruct (t_digits t) as [|d dr]; [contradiction|].
  inversion Hd as [|? ? Hc Hr]; subst.
  destruct (t_sign t) as [[|]|]; cbn [sign_str app]; do 2 eexists; (split; [reflexivity|]); auto.
Qed.

(* a string whose first character is neither a sign nor a digit, and which is not that character
   followed by digits only, is rejected (leading white space, "a1d", ...) *)
Theorem parse_bad_head_rejected : forall c r,
  is_digit c = false -> c <> 43 -> c <> 45 -> ~ Forall digit r -> parse (c :: r) = PErr.
Proof.
  intros c r Hc H43 H45 Hr. apply parse_rejects_err. intros ts tail Hs Hw Ht.
  destruct ts as [|t ts].
  - cbn [render_terms flat_map app] in Hs. subst tail.
    destruct Ht as [Ht|[c' [ds [E [Hd _]]]]]; [discriminate|].
    injection E as _ <-. exact (Hr Hd).
  - inversion Hw as [|? ? Hwt _]; subst.
    destruct (render_term_head t Hwt) as [c0 [more [E Hc0]]].
    change (render_terms (t :: ts)) with (render_term t ++ render_terms ts) in Hs.
    rewrite E in Hs. cbn [app] in Hs. injection Hs as <- _.
    destruct Hc0 as [Hc0|[Hc0|Hc0]]; [rewrite Hc in Hc0; discriminate|contradiction|contradiction].
Qed.

(* conversely the degenerate part of the language really is accepted: any single character followed
   by digits only (no unit at all) parses to the zero duration *)
Theorem parse_tail_only : forall c ds, Forall digit ds -> parse (c :: ds) = POk 0 0.
Proof.
  intros c ds Hd. unfold parse. cbn [length]. rewrite scan_first.
  destruct (scan_digits ds (S (length ds)) (c :: ds) [] 1%nat 0%nat (mk_accs 0 0 0) Hd) as [f2 [Hf2 E]].
  { rewrite app_nil_r. lia. }
  rewrite app_nil_r in E. rewrite E. destruct f2 as [|f2]; [cbn [length] in Hf2; lia|].
  cbn [scan]. vm_compute. reflexivity.
Qed.

Print Assumptions parse_accepts_grammar.
Print Assumptions parse_not_in_language_err.
Print Assumptions parse_bad_head_rejected.
Print Assumptions parse_tail_only.
