(* Proofs/Binary.v — the two-series add-emit-remove closures at the proof instance XR = option R:
   the accumulator holds the cross power sums of the pairwise-complete window (never drifts), and
   the closed forms of ts_vcov, ts_vcorr, ts_vregx_alpha / beta / all are the textbook statistics.  *)
From Coq Require Import Reals Lra Lia List.
From Tevec Require Import Base.Prelude Base.Num Base.XR Spec.Stats Spec.Ols Model.Driver Proofs.Driver
     Model.Features Proofs.Sliding Model.Binary Model.Reg Proofs.Ols.
Import ListNotations.
Local Open Scope R_scope.

(* ---- windows of the zipped series ------------------------------------------------------ *)
Lemma win_combine {X Y} w i (xs : list X) (ys : list Y) :
  win w i (combine xs ys) = combine (win w i xs) (win w i ys).
Proof.
  rewrite !win_seg. apply nth_error_ext. intros j.
  rewrite nth_error_seg, !nth_error_combine, !nth_error_seg.
  destruct (j <? S i - wstart w i); reflexivity.
Qed.

Lemma ts_run2_combine {T1 T2 St O} (F : feat (T1 * T2) St O) body w (xs : list T1) (ys : list T2) :
  length xs = length ys -> ts_run2 F body w xs ys = ts_run F body w (combine xs ys).
Proof.
  intros H. unfold ts_run2, ts_run. destruct body; [|apply rolling2_apply_default_le; lia].
  unfold rolling2_apply_to.
  replace (length ys <? length xs)%nat with false by (symmetry; apply Nat.ltb_ge; lia). reflexivity.
Qed.

Lemma vpairs_app l1 l2 : vpairs (l1 ++ l2) = vpairs l1 ++ vpairs l2.
Proof. unfold vpairs. apply flat_map_app. Qed.
Lemma sumP_snoc f P a b : sumP f (P ++ [(a, b)]) = sumP f P + f a b.
Proof. rewrite sumP_app. unfold sumP at 2. cbn. ring. Qed.

(* ---- the invariant ---------------------------------------------------------------------- *)
Definition csum_abs (s : @csum XR) (l : list (XR * XR)) : Prop :=
  c_n s = length (vpairs l) /\
  c_a s = Some (SA (vpairs l)) /\ c_b s = Some (SB (vpairs l)) /\ c_ab s = Some (SAB (vpairs l)) /\
  c_a2 s = Some (SAA (vpairs l)) /\ c_b2 s = Some (SBB (vpairs l)).

Lemma csum_abs_init : csum_abs csum0 [].
Proof. unfold csum_abs, csum0. cbn. repeat split; reflexivity. Qed.

Lemma csum_abs_pre s l v : csum_abs s l -> csum_abs (csum_pre s v) (l ++ [v]).
Proof.
  intros (Hn & Ha & Hb & Hab & Ha2 & Hb2). unfold csum_abs. rewrite vpairs_app.
  destruct v as [[a|] [b|]]; unfold csum_pre, both, not_none;
    cbn [fst snd is_none IsNoneXR IsNone_float nisnan NumXR xisnan negb andb unwrap vpairs flat_map app].
  - unfold csum_add. cbn [c_n c_a c_b c_ab c_a2 c_b2].
    rewrite Ha, Hb, Hab, Ha2, Hb2, !xmul_some, !xadd_some. unfold SA, SB, SAB, SAA, SBB.
    rewrite !sumP_snoc, app_length, Hn. cbn [length]. repeat split; try reflexivity. lia.
  - rewrite app_nil_r. repeat split; assumption.
  - rewrite app_nil_r. repeat split; assumption.
  - rewrite app_nil_r. repeat split; assumption.
Qed.

Lemma csum_abs_post s x l : csum_abs s (x :: l) -> csum_abs (csum_post s (Some x)) l.
Proof.
  intros (Hn & Ha & Hb & Hab & Ha2 & Hb2). unfold csum_abs.
  destruct x as [[a|] [b|]]; unfold csum_post, both, not_none;
    cbn [fst snd is_none IsNoneXR IsNone_float nisnan NumXR xisnan negb andb unwrap];
    cbn [vpairs flat_map app] in *; fold (vpairs l) in *.
  - unfold csum_sub. cbn [c_n c_a c_b c_ab c_a2 c_b2].
    rewrite Ha, Hb, Hab, Ha2, Hb2, !xmul_some, !xsub_some, Hn. unfold SA, SB, SAB, SAA, SBB.
    rewrite !sumP_cons. cbn [length]. rewrite Nat.sub_succ, Nat.sub_0_r.
    repeat split; try reflexivity; f_equal; ring.
  - repeat split; assumption.
  - repeat split; assumption.
  - repeat split; assumption.
Qed.

(* n -= 1 on usize is executed only with n >= 1 *)
Lemma csum_no_underflow s a b l : csum_abs s ((Some a, Some b) :: l) -> (1 <= c_n s)%nat.
Proof. intros (Hn & _). rewrite Hn. cbn. lia. Qed.

(* every entry point of the family: output i = emit of a state holding exactly the cross power sums of
   the pairwise-complete observations of the window *)
Theorem csum_state_tracks_window {O} (emit : @csum XR -> O) body (w : nat) (xs ys : list XR) :
  (1 <= w)%nat -> length xs = length ys ->
  exists out, ts_run2 (csum_feat emit) body w xs ys = Done out /\ length out = length xs /\
    forall i, (i < length xs)%nat ->
      exists s, csum_abs s (combine (win w i xs) (win w i ys)) /\ nth_error out i = Some (emit s).
Proof.
  intros Hw Hlen. rewrite ts_run2_combine by exact Hlen.
  assert (HS : exists out, ts_run (csum_feat emit) body w (combine xs ys) = Done out /\
                 length out = length (combine xs ys) /\
                 forall i v, nth_error (combine xs ys) i = Some v ->
                   exists s, csum_abs s (win w i (combine xs ys)) /\ nth_error out i = Some (emit s)).
  { apply (sliding_ts_run (csum_feat emit) csum_abs); try assumption.
    - exact csum_abs_init.
    - exact csum_abs_pre.
    - exact csum_abs_post.
    - reflexivity. }
  destruct HS as (out & Hrun & Hl & Hout).
  exists out. split; [exact Hrun|]. split; [rewrite Hl, combine_length; lia|].
  intros i Hi.
  destruct (nth_error (combine xs ys) i) as [v|] eqn:Hv;
    [|apply nth_error_None in Hv; rewrite combine_length in Hv; lia].
  destruct (Hout i v Hv) as (s & Habs & Hnth). exists s. rewrite <- win_combine. split; assumption.
Qed.

Lemma csum_entry {O} (emit : @csum XR -> O) (G : list (R * R) -> O) body (w : nat) (xs ys : list XR) :
  (1 <= w)%nat -> length xs = length ys ->
  (forall s W, csum_abs s W -> emit s = G (vpairs W)) ->
  exists out, ts_run2 (csum_feat emit) body w xs ys = Done out /\ length out = length xs /\
    forall i, (i < length xs)%nat -> nth_error out i = Some (G (pairs (win w i xs) (win w i ys))).
Proof.
  intros Hw Hlen HG.
  destruct (csum_state_tracks_window emit body w xs ys Hw Hlen) as (out & Hrun & Hl & Hout).
  exists out. split; [exact Hrun|]. split; [exact Hl|]. intros i Hi.
  destruct (Hout i Hi) as (s & Habs & Hnth). rewrite Hnth. f_equal. apply HG. exact Habs.
Qed.

(* ---- closed forms ------------------------------------------------------------------------ *)
Section ClosedForms.
  Variable s : @csum XR.
  Variable W : list (XR * XR).
  Hypothesis HA : csum_abs s W.
  Let P := vpairs W.
  Let n := length P.

  Lemma cs_n : c_n s = n. Proof. destruct HA as (H & _). exact H. Qed.
  Lemma cs_a : c_a s = Some (SA P). Proof. destruct HA as (_ & H & _). exact H. Qed.
  Lemma cs_b : c_b s = Some (SB P). Proof. destruct HA as (_ & _ & H & _). exact H. Qed.
  Lemma cs_ab : c_ab s = Some (SAB P). Proof. destruct HA as (_ & _ & _ & H & _). exact H. Qed.
  Lemma cs_a2 : c_a2 s = Some (SAA P). Proof. destruct HA as (_ & _ & _ & _ & H & _). exact H. Qed.
  Lemma cs_b2 : c_b2 s = Some (SBB P). Proof. destruct HA as (_ & _ & _ & _ & _ & H). exact H. Qed.

  (* sample covariance *)
  Lemma emit_cov_spec mp :
    (2 <= mp)%nat ->
    emit_cov mp s = if (mp <=? n)%nat then Some (cov_sample P) else None.
  Proof.
    intros Hmp. unfold emit_cov. rewrite cs_n.
    destruct (mp <=? n)%nat eqn:E; [|reflexivity]. apply Nat.leb_le in E.
    assert (Hn0 : INR n <> 0) by (apply not_0_INR; lia).
    assert (Hn1 : INR (n - 1) <> 0) by (apply not_0_INR; lia).
    rewrite cs_a, cs_b, cs_ab, !xofnat, xmul_some, xdiv_some by exact Hn0.
    rewrite xsub_some, xdiv_some by exact Hn1. f_equal.
    unfold cov_sample. rewrite <- codev_from_sums by exact Hn0. unfold nP. fold n.
    rewrite minus_INR by lia. reflexivity.
  Qed.

  (* Pearson correlation with the EPS guard on both variances *)
  Lemma popvar_nil_fst : n = 0%nat -> ~ EPS < popvarR (map fst P) /\ ~ EPS < popvarR (map snd P).
  Proof.
    intros Hn. assert (HP : P = []) by (destruct P; [reflexivity|discriminate]).
    rewrite HP. cbn [map]. unfold popvarR, cmom, devsum, sumR, Rdiv. cbn [map fold_right].
    rewrite Rmult_0_l. pose proof EPS_pos. split; lra.
  Qed.

  Lemma emit_corr_spec mp :
    emit_corr mp s =
    if (mp <=? n)%nat then
      (if Rlt_dec EPS (popvarR (map fst P)) then
         (if Rlt_dec EPS (popvarR (map snd P)) then Some (corrP P) else None)
       else None)
    else None.
  Proof.
    unfold emit_corr. rewrite cs_n. destruct (mp <=? n)%nat; [|reflexivity].
    rewrite cs_a, cs_b, cs_ab, cs_a2, cs_b2, !xofnat.
    destruct (Nat.eq_dec n 0) as [Hn|Hn].
    - destruct (popvar_nil_fst Hn) as [H1 H2]. rewrite Hn. cbn [INR]. rewrite !xdiv_zero.
      cbn. destruct (Rlt_dec EPS (popvarR (map fst P))); [contradiction|reflexivity].
    - assert (Hn0 : INR n <> 0) by (apply not_0_INR; exact Hn).
      rewrite !xdiv_some by exact Hn0. rewrite !powi_some, !xsub_some.
      assert (Eva : SAA P / INR n - (SA P / INR n) ^ 2 = popvarR (map fst P)).
      { rewrite <- popvar_from_sums, psum1_fst, psum2_fst; unfold nR; rewrite map_length; fold n;
          [reflexivity|exact Hn0]. }
      assert (Evb : SBB P / INR n - (SB P / INR n) ^ 2 = popvarR (map snd P)).
      { rewrite <- popvar_from_sums, psum1_snd, psum2_snd; unfold nR; rewrite map_length; fold n;
          [reflexivity|exact Hn0]. }
      rewrite Eva, Evb. change neps with (Some EPS). cbn [nltb NumXR xltb].
      destruct (Rlt_dec EPS (popvarR (map fst P))) as [Ha|Ha]; [|reflexivity].
      destruct (Rlt_dec EPS (popvarR (map snd P))) as [Hb|Hb]; [|reflexivity].
      cbn [andb]. pose proof EPS_pos as He.
      assert (Hpos : 0 < popvarR (map fst P) * popvarR (map snd P)) by (apply Rmult_lt_0_compat; lra).
      rewrite !xmul_some, xdiv_some by (apply pow_nonzero; exact Hn0).
      rewrite xsub_some, xsqrt_some by lra.
      assert (Hs : sqrt (popvarR (map fst P) * popvarR (map snd P)) <> 0).
      { apply Rgt_not_eq, sqrt_lt_R0. exact Hpos. }
      rewrite xdiv_some by exact Hs. f_equal. unfold corrP. f_equal.
      unfold cov_pop. rewrite <- codev_from_sums by exact Hn0. unfold nP. fold n. field. exact Hn0.
  Qed.

  (* regression of a on b *)
  Lemma regx_beta_spec : regx_beta s = ols_x P (fun _ be => be).
  Proof.
    unfold regx_beta. rewrite cs_n, cs_a, cs_b, cs_ab, cs_b2, xofnat, !xmul_some, powi_some, !xsub_some.
    unfold ols_x, ols_beta, detB, nP. fold n. cbn [ndiv NumXR xdiv].
    destruct (Req_EM_T (INR n * SBB P - SB P ^ 2) 0); reflexivity.
  Qed.

  Lemma regx_alpha_beta_spec :
    (regx_alpha s, regx_beta s) =
    if Req_EM_T (detB P) 0 then (None, None) else (Some (ols_alpha P), Some (ols_beta P)).
  Proof.
    unfold regx_alpha. rewrite regx_beta_spec. unfold ols_x. rewrite cs_n, cs_a, cs_b, xofnat.
    destruct (Req_EM_T (detB P) 0) as [E|E]; [reflexivity|].
    rewrite xmul_some, xsub_some.
    pose proof (det_nonzero_n P E) as Hn. unfold nP in Hn. fold n in Hn.
    rewrite xdiv_some by exact Hn. reflexivity.
  Qed.

  Lemma regx_alpha_spec : regx_alpha s = ols_x P (fun al _ => al).
  Proof.
    pose proof regx_alpha_beta_spec as H. unfold ols_x.
    destruct (Req_EM_T (detB P) 0); injection H as H1 H2; exact H1.
  Qed.

  Lemma emit_regx_alpha_spec mp :
    emit_regx_alpha mp s = if (mp <=? n)%nat then ols_x P (fun al _ => al) else None.
  Proof. unfold emit_regx_alpha. rewrite cs_n, regx_alpha_spec. reflexivity. Qed.
  Lemma emit_regx_beta_spec mp :
    emit_regx_beta mp s = if (mp <=? n)%nat then ols_x P (fun _ be => be) else None.
  Proof. unfold emit_regx_beta. rewrite cs_n, regx_beta_spec. reflexivity. Qed.

  Lemma emit_regx_all_spec mp :
    emit_regx_all mp s =
    if (mp <=? n)%nat then
      (if Req_EM_T (detB P) 0 then (None, None, None)
       else (Some (ols_alpha P), Some (ols_beta P), Some (sse (ols_alpha P) (ols_beta P) P)))
    else (None, None, None).
  Proof.
    unfold emit_regx_all. rewrite cs_n. destruct (mp <=? n)%nat; [|reflexivity]. cbv zeta.
    assert (Hal : ((c_a s - regx_beta s * c_b s) / nofnat n)%num = ols_x P (fun al _ => al)).
    { rewrite <- regx_alpha_spec. unfold regx_alpha. rewrite cs_n. reflexivity. }
    rewrite Hal, regx_beta_spec. unfold ols_x. rewrite cs_a, cs_ab, cs_a2.
    destruct (Req_EM_T (detB P) 0) as [E|E]; [reflexivity|].
    rewrite !xmul_some, !xsub_some. rewrite sse_at_ols by exact E. reflexivity.
  Qed.
End ClosedForms.
