(* Proofs/PolarsOut.v — the Polars staging buffer refines the generic MaybeUninit buffer of
   Model/Driver.v: slot by slot it holds `join` of the generic cell (a never-written slot is null
   instead of uninitialised memory), so every driver that fills a Vec / VecDeque / ndarray buffer
   completely yields the same sequence in a Polars array.  Axiom-free.                             *)
From Coq Require Import Lia.
From Tevec Require Import Base.Prelude Model.Driver Proofs.Driver Model.Features Proofs.Generic
     Model.Containers Model.PolarsOut.

Lemma chunked_single {A} (b : list (option A)) : chunked_to_list [b] = b.
Proof. unfold chunked_to_list. cbn. apply app_nil_r. Qed.

Lemma finish_polars_eq {A} (b : pstage A) : finish_polars b = Done b.
Proof. unfold finish_polars, pstage_assume_init. f_equal. apply (chunked_single b). Qed.

Lemma collected_polars_id {A} (o : outcome (option A)) : collected_polars o = o.
Proof. destruct o; try reflexivity. cbn. unfold chunked_collect. f_equal. apply (chunked_single out). Qed.

(* ---- the staging buffer as an array of slots ------------------------------------------------- *)
Lemma pstage_uninit_length {A} n : length (@pstage_uninit A n) = n.
Proof. apply repeat_length. Qed.

Lemma pstage_uset_length {A} i v (b : pstage A) : length (pstage_uset i v b) = length b.
Proof.
  revert i. induction b as [|c b IH]; intros i; [reflexivity|].
  destruct i; cbn; [reflexivity|]. rewrite IH. reflexivity.
Qed.

Lemma pstage_uset_nth {A} i v (b : pstage A) j :
  nth_error (pstage_uset i v b) j
  = if (j =? i) && (i <? length b) then Some v else nth_error b j.
Proof.
  revert i j. induction b as [|c b IH]; intros i j.
  - cbn. rewrite Bool.andb_false_r. reflexivity.
  - destruct i as [|i], j as [|j]; cbn [pstage_uset nth_error length]; try reflexivity.
    rewrite IH. reflexivity.
Qed.

Lemma pstage_uninit_nth {A} n j : nth_error (@pstage_uninit A n) j = if j <? n then Some None else None.
Proof.
  unfold pstage_uninit. revert j. induction n as [|n IH]; intros j; [destruct j; reflexivity|].
  destruct j; [reflexivity|]. cbn [repeat nth_error]. rewrite IH. reflexivity.
Qed.

(* ---- refinement of the generic buffer ------------------------------------------------------------ *)
Lemma pstage_uset_join {A} i (v : option A) (buf : list (option (option A))) :
  pstage_uset i v (map join buf) = map join (set_nth i v buf).
Proof.
  revert i. induction buf as [|c buf IH]; intros i; [destruct i; reflexivity|].
  destruct i; cbn; [reflexivity|]. rewrite IH. reflexivity.
Qed.

Lemma pstage_uninit_join {A} n : @pstage_uninit A n = map join (repeat None n).
Proof. unfold pstage_uninit. induction n as [|n IH]; [reflexivity|]. cbn. rewrite IH. reflexivity. Qed.

Lemma assume_init_join {A} (buf : list (option (option A))) l :
  assume_init buf = Some l -> map join buf = l.
Proof.
  revert l. induction buf as [|c buf IH]; intros l H.
  - cbn in H. injection H as <-. reflexivity.
  - destruct c as [o|]; cbn in H; [|discriminate].
    destruct (assume_init buf) as [l'|] eqn:E; [|discriminate].
    injection H as <-. cbn. f_equal. apply IH. reflexivity.
Qed.

Section Refine.
  Context {St X A : Type}.
  Variable g : St -> X -> St * option A.

  Lemma pexec_join (calls : list (nat * X)) : forall s (buf : list (option (option A))),
    pexec g s calls (map join buf) = map join (exec g s calls buf).
  Proof.
    induction calls as [|[slot a] calls IH]; intros s buf; [reflexivity|].
    cbn [pexec exec]. destruct (g s a) as [s' o]. rewrite pstage_uset_join. apply IH.
  Qed.

  Lemma pexec_length (calls : list (nat * X)) : forall s (b : pstage A),
    length (pexec g s calls b) = length b.
  Proof.
    induction calls as [|[slot a] calls IH]; intros s b; [reflexivity|].
    cbn [pexec]. destruct (g s a) as [s' o]. rewrite IH. apply pstage_uset_length.
  Qed.

  (* the Polars result of any sequence of stores, from the generic outcome of the same stores *)
  Theorem polars_stage_refines s (calls : list (nat * X)) n :
    finish_polars (pexec g s calls (pstage_uninit n))
    = match finish (exec g s calls (repeat None n)) with
      | Done out => Done out
      | Uninit buf => Done (map join buf)        (* a slot never written is null, not garbage *)
      | Panicked k => Panicked k
      end.
  Proof.
    rewrite finish_polars_eq, pstage_uninit_join, pexec_join. unfold finish.
    destruct (assume_init (exec g s calls (repeat None n))) as [l|] eqn:E; [|reflexivity].
    f_equal. apply assume_init_join. exact E.
  Qed.

  Corollary polars_stage_done s (calls : list (nat * X)) n out :
    finish (exec g s calls (repeat None n)) = Done out ->
    finish_polars (pexec g s calls (pstage_uninit n)) = Done out.
  Proof. intros H. rewrite polars_stage_refines, H. reflexivity. Qed.

  (* whatever is stored, in whatever order: a complete array of the requested length *)
  Theorem polars_stage_total s (calls : list (nat * X)) n :
    exists out, finish_polars (pexec g s calls (pstage_uninit n)) = Done out /\ length out = n.
  Proof.
    eexists. split; [apply finish_polars_eq|]. rewrite pexec_length. apply pstage_uninit_length.
  Qed.
End Refine.

(* ---- entry points ---------------------------------------------------------------------------- *)
Lemma lift_uninit_finish {A} (buf : list (option (option A))) :
  match finish buf with Done out => Done out | Uninit b => Done (map join b) | Panicked k => Panicked k end
  = lift_uninit (finish buf).
Proof. destruct (finish buf); reflexivity. Qed.

Section EntryPolarsLemmas.
  Context {T St A : Type}.

  (* for every window, callback and series, including window = 0 and the empty series *)
  Lemma rolling_apply_to_polars_spec w (f : St -> option T * T -> St * option A) s0 (xs : list T) :
    rolling_apply_to_polars w f s0 xs = lift_uninit (rolling_apply_to w f s0 xs).
  Proof.
    unfold rolling_apply_to_polars, rolling_apply_to. destruct (bad_window w xs); [reflexivity|].
    rewrite polars_stage_refines. apply lift_uninit_finish.
  Qed.

  Lemma rolling_apply_idx_to_polars_spec w (f : St -> option nat * nat * T -> St * option A) s0 (xs : list T) :
    rolling_apply_idx_to_polars w f s0 xs = lift_uninit (rolling_apply_idx_to w f s0 xs).
  Proof.
    unfold rolling_apply_idx_to_polars, rolling_apply_idx_to. destruct (bad_window w xs); [reflexivity|].
    rewrite polars_stage_refines. apply lift_uninit_finish.
  Qed.

  Lemma rolling_custom_to_polars_spec w (f : St -> list T -> St * option A) s0 (xs : list T) :
    rolling_custom_to_polars w f s0 xs = lift_uninit (rolling_custom_to w f s0 xs).
  Proof.
    unfold rolling_custom_to_polars, rolling_custom_to. destruct (bad_window w xs); [reflexivity|].
    rewrite polars_stage_refines. apply lift_uninit_finish.
  Qed.

  Lemma rolling_apply_to_polars_eq w (f : St -> option T * T -> St * option A) s0 (xs : list T) :
    1 <= w -> rolling_apply_to_polars w f s0 xs = rolling_apply_to w f s0 xs.
  Proof. intros Hw. rewrite rolling_apply_to_polars_spec, rolling_apply_to_eq by exact Hw. reflexivity. Qed.

  Lemma rolling_apply_idx_to_polars_eq w (f : St -> option nat * nat * T -> St * option A) s0 (xs : list T) :
    1 <= w -> rolling_apply_idx_to_polars w f s0 xs = rolling_apply_idx_to w f s0 xs.
  Proof. intros Hw. rewrite rolling_apply_idx_to_polars_spec, rolling_apply_idx_to_eq by exact Hw. reflexivity. Qed.

  (* slice form: the staged fast path = the default iterator path collected into an array *)
  Lemma rolling_custom_to_polars_eq w (f : St -> list T -> St * option A) s0 (xs : list T) :
    1 <= w -> rolling_custom_to_polars w f s0 xs = collected_polars (rolling_custom_default w f s0 xs).
  Proof.
    intros Hw. rewrite collected_polars_id, rolling_custom_to_polars_spec.
    rewrite rolling_custom_to_eq, rolling_custom_default_eq by exact Hw. reflexivity.
  Qed.
End EntryPolarsLemmas.

Section TwoPolarsLemmas.
  Context {T1 T2 St A : Type}.
  Lemma rolling2_apply_to_polars_eq w (f : St -> option (T1 * T2) * (T1 * T2) -> St * option A) s0
        (xs : list T1) (ys : list T2) :
    1 <= w -> rolling2_apply_to_polars w f s0 xs ys = rolling2_apply_to w f s0 xs ys.
  Proof.
    intros Hw. unfold rolling2_apply_to_polars, rolling2_apply_to.
    destruct (length ys <? length xs); [reflexivity|]. apply rolling_apply_to_polars_eq. exact Hw.
  Qed.
  Lemma rolling2_apply_idx_to_polars_eq w (f : St -> option nat * nat * (T1 * T2) -> St * option A) s0
        (xs : list T1) (ys : list T2) :
    1 <= w -> rolling2_apply_idx_to_polars w f s0 xs ys = rolling2_apply_idx_to w f s0 xs ys.
  Proof.
    intros Hw. unfold rolling2_apply_idx_to_polars, rolling2_apply_idx_to.
    destruct (length ys <? length xs); [reflexivity|]. apply rolling_apply_idx_to_polars_eq. exact Hw.
  Qed.
End TwoPolarsLemmas.

(* every rolling feature: Vec / ndarray input staged into a Polars array (and any input written into a
   caller's Polars staging buffer) = the returned path of the default backends collected into an array *)
Lemma ts_run_polars_eq {T St A} (F : feat T St (option A)) (w : nat) (xs : list T) body :
  1 <= w -> ts_run_polars F w xs = collected_polars (ts_run F body w xs).
Proof.
  intros Hw. rewrite collected_polars_id. unfold ts_run_polars.
  rewrite rolling_apply_to_polars_eq by exact Hw.
  change (rolling_apply_to w (feat_cb F) (f_init F) xs) with (ts_run F true w xs).
  rewrite !ts_run_iter by exact Hw. reflexivity.
Qed.
