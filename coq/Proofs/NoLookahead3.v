(* Proofs/NoLookahead3.v — C06, third part (carrier option R): the index-form callbacks that re-read the series
   through `uget` (ts_vminmaxnorm, ts_vregx_resid_{mean,std,skew}) are window determined — output i is a function
   of positions max(0,i-w+1)..=i alone — hence satisfy the prefix law and the window-only law; and the window-only
   law of ts_vzscore (whose state also remembers the current element: the emitted value is still determined by
   the window).  The bit-for-bit prefix law of the index forms at EVERY carrier is Proofs/IdxPrefix.v.        *)
From Coq Require Import ZArith Lia List Reals.
From Tevec Require Import Base.Prelude Base.Num Base.XR Spec.Stats Spec.Ols Model.Driver Proofs.Driver
     Model.Features Proofs.Generic Proofs.Sliding Proofs.Features Proofs.NoLookahead Proofs.NoLookahead2
     Model.Cmp Proofs.IdxRun Model.Binary Proofs.Binary Model.Reg Proofs.Resid Model.Norm Proofs.Norm
     Proofs.MinMax Proofs.Fdiff.
Import ListNotations.

(* ---- window-determined functions whose characterisation needs a condition on the DATA ------------- *)
(* (the section WindowDetermined of NoLookahead2.v with a domain over series instead of lengths: the closed
   form of ts_vminmaxnorm is proved for series bounded by the sentinels T::Inner::min_() / max_())            *)
Section WindowDeterminedOn.
  Context {T O : Type}.
  Variable f : list T -> outcome O.
  Variable w : nat.
  Variable D : list T -> Prop.
  Variable g : list T -> O.
  Hypothesis Hspec : forall xs, 1 <= length xs -> D xs ->
    exists out, f xs = Done out /\ length out = length xs /\
      forall i, i < length xs -> nth_error out i = Some (g (win w i xs)).
  Hypothesis Hempty : f [] = Done [].

  Lemma wdo_prefix xs k :
    D (firstn k xs) -> D xs -> out_of (f (firstn k xs)) = firstn k (out_of (f xs)).
  Proof.
    intros Hd1 Hd2. destruct k as [|k]; [cbn [firstn]; rewrite Hempty; reflexivity|].
    destruct xs as [|x xs]; [cbn [firstn]; rewrite Hempty; reflexivity|].
    set (ys := x :: xs) in *.
    assert (Hl : length (firstn (S k) ys) = Nat.min (S k) (length ys)) by apply firstn_length.
    destruct (Hspec (firstn (S k) ys)) as (o1 & E1 & L1 & N1); [rewrite Hl; unfold ys; cbn [length]; lia|exact Hd1|].
    destruct (Hspec ys) as (o2 & E2 & L2 & N2); [unfold ys; cbn [length]; lia|exact Hd2|].
    rewrite E1, E2. cbn [out_of]. apply nth_error_ext. intros i. rewrite nth_error_firstn.
    destruct (i <? S k) eqn:Ek.
    - apply Nat.ltb_lt in Ek. destruct (Nat.lt_ge_cases i (length ys)) as [Hi|Hi].
      + rewrite N1 by (rewrite Hl; lia). rewrite N2 by exact Hi. f_equal. f_equal.
        apply win_firstn. exact Ek.
      + rewrite (proj2 (nth_error_None o1 i)) by (rewrite L1, Hl; lia).
        rewrite (proj2 (nth_error_None o2 i)) by (rewrite L2; lia). reflexivity.
    - apply Nat.ltb_ge in Ek. apply nth_error_None. rewrite L1, Hl. lia.
  Qed.

  Lemma wdo_window xs ys i j :
    D xs -> D ys -> i < length xs -> j < length ys ->
    win w i xs = win w j ys ->
    nth_error (out_of (f xs)) i = nth_error (out_of (f ys)) j.
  Proof.
    intros Dx Dy Hi Hj Hw.
    destruct (Hspec xs) as (o1 & E1 & L1 & N1); [lia|exact Dx|].
    destruct (Hspec ys) as (o2 & E2 & L2 & N2); [lia|exact Dy|].
    rewrite E1, E2. cbn [out_of]. rewrite N1, N2 by assumption. rewrite Hw. reflexivity.
  Qed.
End WindowDeterminedOn.

(* ---- ts_vminmaxnorm -------------------------------------------------------------------------------- *)
(* the data lie between the sentinels (binary64: f64::MIN / f64::MAX bound every finite value) *)
Definition bounded (lo hi : R) (xs : list XR) : Prop := forall r, In (Some r) xs -> (lo <= r <= hi)%R.

Lemma bounded_firstn lo hi xs k : bounded lo hi xs -> bounded lo hi (firstn k xs).
Proof.
  intros H r Hr. apply H. rewrite <- (firstn_skipn k xs). apply in_or_app. left. exact Hr.
Qed.

(* the value emitted at a position, from the window alone: the current element is the window's last *)
Definition g_mmnorm (w : nat) (mp : option nat) (W : list XR) : XR :=
  match last_opt W with
  | Some (Some x) =>
      let V := valid W in
      if mp_eff mp w 0 <=? length V then
        (if Req_EM_T (lmaxR V) (lminR V) then None else Some ((x - lminR V) / (lmaxR V - lminR V))%R)
      else None
  | _ => None
  end.

Lemma mmnorm_wd (lo hi : R) body w mp : 1 <= w ->
  forall xs : list XR, 1 <= length xs -> bounded lo hi xs ->
  exists out, ts_vminmaxnorm (Some lo) (Some hi) body w mp xs = Done out /\ length out = length xs /\
    forall i, i < length xs -> nth_error out i = Some (g_mmnorm w mp (win w i xs)).
Proof.
  intros Hw xs Hl Hb. destruct (ts_vminmaxnorm_spec lo hi body w mp xs Hw Hb) as (out & E & L & N).
  exists out. split; [exact E|]. split; [exact L|]. intros i Hi. rewrite (N i Hi). f_equal.
  unfold g_mmnorm.
  destruct (nth_error xs i) as [a|] eqn:Ea; [|apply nth_error_None in Ea; lia].
  rewrite (win_snoc w i xs a Hw Ea), last_opt_snoc. destruct a; reflexivity.
Qed.

Lemma idx_run_nil_any {T St O} body w (cb : St -> option nat * nat * T -> res (St * O)) s0 :
  idx_run body w cb s0 [] = Done [].
Proof.
  unfold idx_run, rolling_apply_idx_to, rolling_apply_idx_default, bad_window. cbn [length Nat.eqb negb].
  rewrite Bool.andb_false_r. destruct body; [|reflexivity].
  unfold calls_to_idx. cbn [length]. rewrite Nat.min_0_r. reflexivity.
Qed.

Lemma mmnorm_nil (lo hi : XR) body w mp : ts_vminmaxnorm lo hi body w mp (@nil XR) = Done [].
Proof. unfold ts_vminmaxnorm. apply idx_run_nil_any. Qed.

Theorem mmnorm_prefix (lo hi : R) body w mp (xs : list XR) k :
  1 <= w -> bounded lo hi xs ->
  out_of (ts_vminmaxnorm (Some lo) (Some hi) body w mp (firstn k xs))
  = firstn k (out_of (ts_vminmaxnorm (Some lo) (Some hi) body w mp xs)).
Proof.
  intros Hw Hb.
  apply (wdo_prefix (ts_vminmaxnorm (Some lo) (Some hi) body w mp) w (bounded lo hi) (g_mmnorm w mp)
                    (mmnorm_wd lo hi body w mp Hw) (mmnorm_nil _ _ body w mp)).
  - apply bounded_firstn. exact Hb.
  - exact Hb.
Qed.

Theorem mmnorm_window_only (lo hi : R) body w mp (xs ys : list XR) i j :
  1 <= w -> bounded lo hi xs -> bounded lo hi ys -> i < length xs -> j < length ys ->
  win w i xs = win w j ys ->
  nth_error (out_of (ts_vminmaxnorm (Some lo) (Some hi) body w mp xs)) i
  = nth_error (out_of (ts_vminmaxnorm (Some lo) (Some hi) body w mp ys)) j.
Proof.
  intros Hw.
  apply (wdo_window (ts_vminmaxnorm (Some lo) (Some hi) body w mp) w (bounded lo hi) (g_mmnorm w mp)
                    (mmnorm_wd lo hi body w mp Hw)).
Qed.

(* ---- ts_vregx_resid_{mean,std,skew}: window over the zipped pair series ----------------------------- *)
Definition resid_z (k : rstat) body w mp (zs : list (XR * XR)) : outcome XR :=
  ts_vregx_resid k body w mp (map fst zs) (map snd zs).
Definition g_resid (k : rstat) (w : nat) (mp : option nat) (W : list (XR * XR)) : XR :=
  resid_stat_x k (mp_eff mp w 0) (vpairs W).

Lemma combine_fst_snd {X Y} (zs : list (X * Y)) : combine (map fst zs) (map snd zs) = zs.
Proof. induction zs as [|[a b] zs IH]; [reflexivity|]. cbn. f_equal. exact IH. Qed.

Lemma map_fst_combine {X Y} (xs : list X) (ys : list Y) :
  length xs = length ys -> map fst (combine xs ys) = xs.
Proof.
  revert ys; induction xs as [|a xs IH]; intros [|b ys] H; try discriminate; [reflexivity|].
  cbn. f_equal. apply IH. cbn in H. lia.
Qed.
Lemma map_snd_combine {X Y} (xs : list X) (ys : list Y) :
  length xs = length ys -> map snd (combine xs ys) = ys.
Proof.
  revert ys; induction xs as [|a xs IH]; intros [|b ys] H; try discriminate; [reflexivity|].
  cbn. f_equal. apply IH. cbn in H. lia.
Qed.

Lemma resid_wd k body w mp : 1 <= w ->
  forall zs : list (XR * XR), 1 <= length zs -> True ->
  exists out, resid_z k body w mp zs = Done out /\ length out = length zs /\
    forall i, i < length zs -> nth_error out i = Some (g_resid k w mp (win w i zs)).
Proof.
  intros Hw zs Hl _. unfold resid_z.
  destruct (resid_entry k body w mp (map fst zs) (map snd zs) Hw) as (out & E & L & N);
    [rewrite !map_length; reflexivity|].
  rewrite map_length in L, N.
  exists out. split; [exact E|]. split; [exact L|]. intros i Hi. rewrite (N i Hi). f_equal.
  unfold g_resid, pairs. rewrite <- win_combine, combine_fst_snd. reflexivity.
Qed.

Lemma resid_z_nil k body w mp : resid_z k body w mp [] = Done [].
Proof.
  unfold resid_z, ts_vregx_resid, rolling2_apply_idx_to, rolling2_apply_idx_default, rolling_apply_idx_to,
    rolling_apply_idx_default, bad_window.
  cbn [map combine length Nat.eqb negb Nat.ltb Nat.leb]. rewrite Bool.andb_false_r. destruct body; [|reflexivity].
  unfold calls_to_idx. cbn [length]. rewrite Nat.min_0_r. reflexivity.
Qed.

Theorem resid_prefix k body w mp (xs ys : list XR) n :
  1 <= w -> length xs = length ys ->
  out_of (ts_vregx_resid k body w mp (firstn n xs) (firstn n ys))
  = firstn n (out_of (ts_vregx_resid k body w mp xs ys)).
Proof.
  intros Hw Hlen.
  pose proof (wdo_prefix (resid_z k body w mp) w (fun _ => True) (g_resid k w mp)
                         (resid_wd k body w mp Hw) (resid_z_nil k body w mp) (combine xs ys) n I I) as H.
  unfold resid_z in H. rewrite <- combine_firstn in H.
  rewrite !map_fst_combine, !map_snd_combine in H by (rewrite ?firstn_length; lia).
  exact H.
Qed.

Theorem resid_window_only k body w mp (xs ys xs' ys' : list XR) i j :
  1 <= w -> length xs = length ys -> length xs' = length ys' -> i < length xs -> j < length xs' ->
  win w i xs = win w j xs' -> win w i ys = win w j ys' ->
  nth_error (out_of (ts_vregx_resid k body w mp xs ys)) i
  = nth_error (out_of (ts_vregx_resid k body w mp xs' ys')) j.
Proof.
  intros Hw L1 L2 Hi Hj W1 W2.
  pose proof (wdo_window (resid_z k body w mp) w (fun _ => True) (g_resid k w mp)
                         (resid_wd k body w mp Hw) (combine xs ys) (combine xs' ys') i j I I) as H.
  unfold resid_z in H. rewrite !map_fst_combine, !map_snd_combine in H by assumption.
  apply H.
  - rewrite combine_length. lia.
  - rewrite combine_length. lia.
  - rewrite !win_combine, W1, W2. reflexivity.
Qed.

(* ---- ts_vzscore: the emitted value is determined by the window --------------------------------------- *)
Lemma zs_emit_nil mp (s : @zs XR) : zs_abs s [] -> zs_emit mp s = None.
Proof.
  intros (Hn & H1 & H2 & _). unfold zs_emit. destruct (z_cur s) as [x|]; [|reflexivity].
  destruct (mp <=? z_n s); [|reflexivity]. cbv zeta.
  rewrite Hn, H2. unfold nv. cbn [valid flat_map length]. rewrite xofnat. cbn [INR].
  unfold psum. cbn [map fold_right sumR]. rewrite xdiv_zero. reflexivity.
Qed.

Lemma zs_abs_fun mp (s s' : @zs XR) W : zs_abs s W -> zs_abs s' W -> zs_emit mp s = zs_emit mp s'.
Proof.
  intros A B. destruct W as [|a W'] using rev_ind.
  - rewrite (zs_emit_nil mp s A), (zs_emit_nil mp s' B). reflexivity.
  - clear IHW'. destruct A as (A0 & A1 & A2 & A3). destruct B as (B0 & B1 & B2 & B3).
    specialize (A3 W' a eq_refl). specialize (B3 W' a eq_refl).
    destruct s, s'. cbn in *. congruence.
Qed.

Theorem zscore_window_only mp body (w : nat) (xs ys : list XR) i j :
  1 <= w -> i < length xs -> j < length ys -> win w i xs = win w j ys ->
  nth_error (ts_out (ts_vzscore_f w mp) body w xs) i = nth_error (ts_out (ts_vzscore_f w mp) body w ys) j.
Proof.
  apply (sliding_window_only (ts_vzscore_f w mp) zs_abs zs_abs_init zs_abs_pre zs_abs_post).
  - reflexivity.
  - intros s s' W A B. apply (zs_abs_fun _ s s' W A B).
Qed.
